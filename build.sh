#!/bin/bash
# Rebuild everything the checks need from /repo's current working tree:
#   translator -> coq/Gen/*.v ; make (full .vo build, -k so that a broken proof
#   does not stop the models) ; extraction ; OCaml driver.
# exit 0 = all built ; 3 = models+driver built but some proof file failed ; 1 = unusable
set -u
cd "$(dirname "$0")"
exec 9>.build.lock
flock 9
export VERIF_REPO="${VERIF_REPO:-/repo}"
mkdir -p coq/Gen
if [ -f tools/py2v.py ]; then
  /venv/bin/python tools/py2v.py "$VERIF_REPO" coq/Gen > coq/Gen/translator.log 2>&1
fi
cd coq
# _CoqProject lists every .v (hand-written + generated); regenerate the Makefile when the list changes
{ echo "-Q . VL"; find Prelude Gen Model Proofs Props Extract -name '*.v' 2>/dev/null | sort; } > _CoqProject.new
if ! cmp -s _CoqProject.new _CoqProject || [ ! -f Makefile ]; then
  mv _CoqProject.new _CoqProject
  coq_makefile -f _CoqProject -o Makefile > /dev/null
else
  rm -f _CoqProject.new
fi
timeout 2000 make -k -j"${VERIF_JOBS:-12}" > build.log 2>&1
mk=$?
cd ../ocaml
if [ ! -f vlmodel.ml ]; then echo "extraction missing"; tail -30 ../coq/build.log; exit 1; fi
if [ ! -x driver ] || [ vlmodel.ml -nt driver ] || [ driver.ml -nt driver ]; then
  ocamlfind ocamlopt -O2 -package zarith -linkpkg -w -a vlmodel.mli vlmodel.ml driver.ml -o driver.new > ocaml.log 2>&1 \
   || ocamlfind ocamlopt -package zarith -linkpkg -w -a vlmodel.mli vlmodel.ml driver.ml -o driver.new > ocaml.log 2>&1 \
   || { cat ocaml.log; exit 1; }
  mv driver.new driver
fi
if [ $mk -ne 0 ]; then grep -E "^File|Error" ../coq/build.log | head -20; exit 3; fi
exit 0
