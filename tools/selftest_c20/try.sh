#!/bin/bash
# usage: try.sh <patch> ; applies to the repo worktree, runs the C20 quick check, reverts
export VERIF_REPO="${VERIF_REPO:?set VERIF_REPO to a scratch worktree of the library}"
cd $VERIF_REPO && git apply "$1" || { echo "PATCH DOES NOT APPLY: $1"; exit 9; }
cd "$(cd "$(dirname "$0")/../.." && pwd)"
VERIF_JOBS=4 timeout 1100 ./check C20 --tier quick > /tmp/selftest_c20_out.txt 2>&1
rc=$?
echo "== $1 exit=$rc"
grep -v conda /tmp/selftest_c20_out.txt | grep -v KNOWN-FINDING | tail -4 | cut -c1-400
/venv/bin/python - <<'PY'
import json
st=json.load(open('"$(cd "$(dirname "$0")/../.." && pwd)"/coq/Gen/STATUS.json'))['Validate']
print('translator:', st['status'], st.get('reason','')[:200])
import glob,os
ev=sorted(glob.glob('"$(cd "$(dirname "$0")/../.." && pwd)"/evidence/C20*.json'), key=os.path.getmtime)
if ev:
    d=json.load(open(ev[-1]))
    s=json.dumps(d)
    import re
    print('broken:', [b for b in re.findall(r'theorem:[A-Za-z_0-9]+', s)][:12])
PY
cd $VERIF_REPO && git checkout -q -- . && git status --short | head -3
