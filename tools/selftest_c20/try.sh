#!/bin/bash
# usage: VERIF_REPO=<scratch worktree of the library> try.sh <patch>
# applies the patch to the library worktree, runs the C20 quick check, prints verdict / translator status / broken obligations, reverts
export VERIF_REPO="${VERIF_REPO:?set VERIF_REPO to a scratch worktree of the library}"
export VERIF_HOME="$(cd "$(dirname "$0")/../.." && pwd)"
patch="$(realpath "$1")"
cd "$VERIF_REPO" && git apply "$patch" || { echo "PATCH DOES NOT APPLY: $1"; exit 9; }
cd "$VERIF_HOME"
VERIF_JOBS="${VERIF_JOBS:-4}" timeout 1100 ./check C20 --tier quick > /tmp/selftest_c20_out.txt 2>&1
rc=$?
echo "== $1 exit=$rc"
grep -v conda /tmp/selftest_c20_out.txt | grep -v KNOWN-FINDING | tail -4 | cut -c1-400
/venv/bin/python - <<'PY'
import json, os, re
home = os.environ['VERIF_HOME']
st = json.load(open(os.path.join(home, 'coq/Gen/STATUS.json')))['Validate']
print('translator:', st['status'], st.get('reason', '')[:200])
s = open(os.path.join(home, 'evidence/C20.json')).read()
print('broken:', sorted(set(re.findall(r'theorem:GenTie_[A-Za-z_0-9]+', s)))[:14])
PY
cd "$VERIF_HOME" && git checkout -q -- evidence 2>/dev/null
cd "$VERIF_REPO" && git checkout -q -- . && git status --short | head -3
