#!/bin/bash
# allthorough.sh : every check's thorough tier once (VERIF_SEED honoured); prints summary / violation lines
cd "$(dirname "$0")/.."
./build.sh > /dev/null 2>&1
for id in C01 C02 C03 C04 C05 C06 C07 C08 C09 C10 C11 C12 C13 C14 C15 C16 C17 C18 C19 C20; do
  out=$(./check $id --tier thorough --no-build 2>&1 | grep -v conda)
  echo "$out" | grep VIOLATION
  echo "$out" | tail -1
done
