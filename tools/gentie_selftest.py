#!/usr/bin/env python3
"""Self-test of the translator ties (tools/py2v.py + coq/Props/GenTie_*.v) against hand edits of the library source.

usage: gentie_selftest.py [<repo>]          (default $VERIF_REPO or /repo; the repo is only READ)

For every edit below the edited source is written to a scratch copy, translated, and the GenTie file of the unit is
compiled against the BUILT development (coq/ must have been built by ./build.sh).  Expectation per edit:
  holds   - a semantically equal rewrite: the translator accepts it and every GenTie lemma still checks (no alarm)
  breaks  - a semantic change: the translator accepts it and the GenTie file no longer compiles (broken obligation)
  rejects - outside the translated subset: the translator stops, naming the node (the check then falls back to the
            correspondence streams on a denser grid)
Exit code 0 iff every expectation is met.  This only exercises translator + proofs; that ./check also finds a
concrete failing input for the 'breaks' / 'rejects' edits is validated with the whole check (see docs/C16.md).
"""
import os, sys, shutil, subprocess, tempfile, json

HERE = os.path.dirname(os.path.abspath(__file__))
VERIF = os.path.dirname(HERE)
COQ = os.path.join(VERIF, 'coq')

THR, APP, OL, RS = ('votelib/evaluate/threshold.py', 'votelib/evaluate/approval.py', 'votelib/evaluate/openlist.py',
                    'votelib/component/rankscore.py')
ABS_COND = ("                n_votes > self.threshold\n"
            "                or self.accept_equal and n_votes == self.threshold\n")
REL_COND = ("                Fraction(n_votes, total) > self.threshold\n"
            "                or self.accept_equal\n"
            "                and Fraction(n_votes, total) == self.threshold\n")
ABS_COMP = ("        return [\n"
            "            cand for cand, n_votes in votelib.util.sorted_votes(votes)\n"
            "            if (\n" + ABS_COND + "            )\n        ]\n")
PAD = ("    selected = sequence[:n]\n"
       "    if n > len(selected):\n"
       "        selected += [pad_with] * (n - len(selected))\n"
       "    return selected\n")
BORDA = ("        top_score = self.n_candidates + self.base - 1\n"
         "        self._scores = [\n"
         "            top_score - rank\n"
         "            for rank in range(self.n_candidates)\n"
         "        ]\n")

UTIL, CORE = 'votelib/util.py', 'votelib/evaluate/core.py'
SORTED_BODY = ("    return list(sorted(\n"
               "        votes.items(),\n"
               "        key=operator.itemgetter(1),\n"
               "        reverse=descending\n"
               "    ))\n")
GNB_BODY = ("""    sorted_items = votelib.util.sorted_votes(votes)
    if len(sorted_items) > n_seats:
        # find if there is a tie between the last elected and first unelected
        threshold_votes = sorted_items[n_seats-1][1]
        if sorted_items[n_seats][1] == threshold_votes:
            # tie detected, find all tied
            tied = []
            n_untied = None
            for i, item in enumerate(sorted_items):
                cand, n_votes = item
                if n_votes == threshold_votes:
                    tied.append(cand)
                    if n_untied is None:
                        n_untied = i
            n_tie_places = n_seats - n_untied
            return (
                [item[0] for item in sorted_items[:n_untied]]
                + [Tie(tied)] * n_tie_places
            )
        else:
            return [cand for cand, n_votes in sorted_items[:n_seats]]
    else:
        return [cand for cand, n_votes in sorted_items]
""")
# an equivalent spelling: operands swapped, early returns, locals renamed, the loop target unpacked in the for clause, the
# first index kept by a conditional expression, the ties listed by a comprehension
GNB_RESTYLED = ("""    ranked = votelib.util.sorted_votes(votes)
    if not n_seats < len(ranked):
        return [c for c, _ in ranked]
    cut = ranked[n_seats - 1][1]
    if cut != ranked[n_seats][1]:
        return [c for c, v in ranked[:n_seats]]
    group = []
    first = None
    for pos, (c, v) in enumerate(ranked):
        if cut == v:
            group.append(c)
            if first is None:
                first = pos
    k = n_seats - first
    return [c for c, v in ranked[:first]] + [Tie(group) for _ in range(k)]
""")
# harmless/core-1: a mask comprehension + itertools.compress (the translator does not read that: fallback, no alarm)
GNB_COMPRESS = ("""    sorted_items = votelib.util.sorted_votes(votes)
    ranking = [cand for cand, n_votes in sorted_items]
    if len(sorted_items) > n_seats:
        threshold_votes = sorted_items[n_seats-1][1]
        if sorted_items[n_seats][1] == threshold_votes:
            is_tied = [
                n_votes == threshold_votes for cand, n_votes in sorted_items
            ]
            tied = list(itertools.compress(ranking, is_tied))
            n_untied = is_tied.index(True)
            return ranking[:n_untied] + [Tie(tied)] * (n_seats - n_untied)
        return ranking[:n_seats]
    return ranking
""")

# (label, unit, GenTie file, source file, [(old, new), ..], expectation)
# the jump-threshold line of ThresholdOpenList.evaluate as written before / after fixes/C11-openlist-jump-exact.diff (an `old` that is a
# tuple lists alternative spellings of the same source text: the first one present is edited)
JUMP_LINE = ("jump_thresholds.append(total_votes * self.jump_fraction)",
             "jump_thresholds.append(\n                Fraction(total_votes) * Fraction(self.jump_fraction)\n            )")

EDITS = [
    ('unchanged threshold.py', 'Threshold', 'GenTie_Threshold', THR, [], 'holds'),
    ('unchanged approval.py', 'Approval', 'GenTie_Approval', APP, [], 'holds'),
    ('unchanged openlist.py', 'Openlist', 'GenTie_Openlist', OL, [], 'holds'),
    ('unchanged rankscore.py', 'Rankscore', 'GenTie_Rankscore', RS, [], 'holds'),
    # ---- threshold.py
    ('Absolute: > becomes >=', 'Threshold', 'GenTie_Threshold', THR,
     [("                n_votes > self.threshold\n", "                n_votes >= self.threshold\n")], 'breaks'),
    ('Absolute: == becomes >=', 'Threshold', 'GenTie_Threshold', THR,
     [("self.accept_equal and n_votes == self.threshold", "self.accept_equal and n_votes >= self.threshold")], 'holds'),
    # (n > t or (ae and n >= t)) is not the same predicate only when ae and n > t differ... it IS the same: kept as 'holds'
    ('Absolute: and becomes or', 'Threshold', 'GenTie_Threshold', THR,
     [("or self.accept_equal and n_votes == self.threshold", "or self.accept_equal or n_votes == self.threshold")], 'breaks'),
    ('Absolute: accept_equal ignored', 'Threshold', 'GenTie_Threshold', THR,
     [("                or self.accept_equal and n_votes == self.threshold\n", "                or n_votes == self.threshold\n")], 'breaks'),
    ('Absolute: operands of or swapped', 'Threshold', 'GenTie_Threshold', THR,
     [(ABS_COND, "                self.accept_equal and n_votes == self.threshold\n                or n_votes > self.threshold\n")], 'holds'),
    ('Absolute: not (n <= t), t == n', 'Threshold', 'GenTie_Threshold', THR,
     [(ABS_COND, "                not (n_votes <= self.threshold)\n                or self.accept_equal and self.threshold == n_votes\n")], 'holds'),
    ('Absolute: conditional expression', 'Threshold', 'GenTie_Threshold', THR,
     [(ABS_COND, "                (n_votes >= self.threshold) if self.accept_equal else (self.threshold < n_votes)\n")], 'holds'),
    ('Absolute: locals renamed', 'Threshold', 'GenTie_Threshold', THR,
     [(ABS_COMP, "        return [\n            c for c, nv in votelib.util.sorted_votes(votes)\n"
                 "            if nv > self.threshold or self.accept_equal and nv == self.threshold\n        ]\n")], 'holds'),
    ('Absolute: unused local named like the attribute', 'Threshold', 'GenTie_Threshold', THR,
     [(ABS_COMP, "        threshold = 0\n" + ABS_COMP)], 'holds'),
    ('Absolute: local shadows the attribute', 'Threshold', 'GenTie_Threshold', THR,
     [(ABS_COMP, "        threshold = 0\n" + ABS_COMP.replace("n_votes > self.threshold", "n_votes > threshold"))], 'rejects'),
    ('Absolute: helper function', 'Threshold', 'GenTie_Threshold', THR,
     [(ABS_COMP, "        def passes(n):\n            return n > self.threshold or (self.accept_equal and n == self.threshold)\n"
                 "        return [c for c, n in votelib.util.sorted_votes(votes) if passes(n)]\n")], 'rejects'),
    ('Absolute: unsorted', 'Threshold', 'GenTie_Threshold', THR,
     [("            cand for cand, n_votes in votelib.util.sorted_votes(votes)\n            if (\n                n_votes > self.threshold\n",
       "            cand for cand, n_votes in votes.items()\n            if (\n                n_votes > self.threshold\n")], 'breaks'),
    ('Relative: Fraction(n, total) becomes n / total', 'Threshold', 'GenTie_Threshold', THR,
     [("                Fraction(n_votes, total) > self.threshold\n", "                n_votes / total > self.threshold\n")], 'rejects'),
    ('Relative: share inverted', 'Threshold', 'GenTie_Threshold', THR,
     [("                Fraction(n_votes, total) > self.threshold\n", "                Fraction(total, n_votes) > self.threshold\n")], 'breaks'),
    ('Relative: compares votes, not the share', 'Threshold', 'GenTie_Threshold', THR,
     [("                Fraction(n_votes, total) > self.threshold\n", "                n_votes > self.threshold\n")], 'breaks'),
    ('Relative: > becomes >=', 'Threshold', 'GenTie_Threshold', THR,
     [("                Fraction(n_votes, total) > self.threshold\n", "                Fraction(n_votes, total) >= self.threshold\n")], 'breaks'),
    ('Relative: total renamed, share in a local', 'Threshold', 'GenTie_Threshold', THR,
     [("        total = sum(votes.values())\n        return [\n            cand for cand, n_votes in votelib.util.sorted_votes(votes)\n            if (\n" + REL_COND + "            )\n        ]\n",
       "        tot = sum(votes.values())\n        return [\n            cand for cand, n_votes in votelib.util.sorted_votes(votes)\n"
       "            if Fraction(n_votes, tot) > self.threshold or (self.accept_equal and self.threshold == Fraction(n_votes, tot))\n        ]\n")], 'holds'),
    ('threshold.py: module defines its own sum()', 'Threshold', 'GenTie_Threshold', THR,
     [("from fractions import Fraction\n", "from fractions import Fraction\n\n\ndef sum(values):\n    return 0\n")], 'rejects'),
    ('threshold.py: Fraction imported from elsewhere', 'Threshold', 'GenTie_Threshold', THR,
     [("from fractions import Fraction\n", "from decimal import Decimal as Fraction\n")], 'rejects'),
    ('Alternative: intersection instead of union', 'Threshold', 'GenTie_Threshold', THR,
     [("            cand for res in partial_results for cand in res\n",
       "            cand for cand in partial_results[0] if all(cand in res for res in partial_results)\n")], 'rejects'),
    ('Alternative: first partial dropped', 'Threshold', 'GenTie_Threshold', THR,
     [("            cand for res in partial_results for cand in res\n", "            cand for res in partial_results[:1] for cand in res\n")], 'breaks'),
    ('Alternative: partials evaluated on prev_gains', 'Threshold', 'GenTie_Threshold', THR,
     [("                partial_result = partial.evaluate(votes)\n", "                partial_result = partial.evaluate(prev_gains)\n")], 'rejects'),
    ('Coalition: single parties dispatched to 0', 'Threshold', 'GenTie_Threshold', THR,
     [("cand.get_n_coalition_members() if cand.is_coalition else 1", "cand.get_n_coalition_members() if cand.is_coalition else 0")], 'breaks'),
    ('Coalition: dispatch on members + 1', 'Threshold', 'GenTie_Threshold', THR,
     [("            n_members: self.evaluators.get(\n                n_members, self.default\n", "            n_members: self.evaluators.get(\n                n_members + 1, self.default\n")], 'breaks'),
    ('Coalition: membership negated', 'Threshold', 'GenTie_Threshold', THR,
     [("            if cand in passed[n_members]\n", "            if cand not in passed[n_members]\n")], 'breaks'),
    ('Coalition: default evaluator for everybody', 'Threshold', 'GenTie_Threshold', THR,
     [("            n_members: self.evaluators.get(\n                n_members, self.default\n            ).evaluate(votes)\n", "            n_members: self.default.evaluate(votes)\n")], 'breaks'),
    ('Coalition: conditional turned around, renamed', 'Threshold', 'GenTie_Threshold', THR,
     [("            cand: cand.get_n_coalition_members() if cand.is_coalition else 1\n            for cand, _ in votelib.util.sorted_votes(votes)\n",
       "            c: 1 if not c.is_coalition else c.get_n_coalition_members()\n            for c, _ in votelib.util.sorted_votes(votes)\n"),
      ("            cand for cand, n_members in n_member_dict.items()\n            if cand in passed[n_members]\n",
       "            c for c, k in n_member_dict.items()\n            if c in passed[k]\n")], 'holds'),
    ('Coalition: unsorted result', 'Threshold', 'GenTie_Threshold', THR,
     [("            for cand, _ in votelib.util.sorted_votes(votes)\n", "            for cand, _ in votes.items()\n")], 'breaks'),
    # ---- approval.py QuotaSelector
    ('QuotaSelector: > becomes >=', 'Approval', 'GenTie_Approval', APP, [("if n_votes > qval or", "if n_votes >= qval or")], 'breaks'),
    ('QuotaSelector: accept_equal negated', 'Approval', 'GenTie_Approval', APP,
     [("or self.accept_equal and n_votes == qval", "or not self.accept_equal and n_votes == qval")], 'breaks'),
    ('QuotaSelector: quota of seats + 1', 'Approval', 'GenTie_Approval', APP,
     [("            sum(votes.values()), n_seats\n", "            sum(votes.values()), n_seats + 1\n")], 'breaks'),
    ('QuotaSelector: equivalent test, renamed', 'Approval', 'GenTie_Approval', APP,
     [("        for cand, n_votes in votes.items():\n            if n_votes > qval or self.accept_equal and n_votes == qval:\n                over_quota[cand] = n_votes\n            else:\n                unselected.add(cand)\n",
       "        for c, v in votes.items():\n            if (self.accept_equal and qval == v) or not v <= qval:\n                over_quota[c] = v\n            else:\n                unselected.add(c)\n")], 'holds'),
    ('QuotaSelector: refusal already at equality', 'Approval', 'GenTie_Approval', APP,
     [("        if len(over_quota) > n_seats:\n", "        if len(over_quota) >= n_seats:\n")], 'breaks'),
    ('QuotaSelector: refusal also under select', 'Approval', 'GenTie_Approval', APP,
     [("            if self.on_more_over_quota == 'error':\n", "            if self.on_more_over_quota != 'ignore':\n")], 'breaks'),
    ('QuotaSelector: one seat too many', 'Approval', 'GenTie_Approval', APP,
     [("        return votelib.evaluate.core.get_n_best(over_quota, n_seats)\n", "        return votelib.evaluate.core.get_n_best(over_quota, n_seats + 1)\n")], 'breaks'),
    ('QuotaSelector: best of all votes', 'Approval', 'GenTie_Approval', APP,
     [("        return votelib.evaluate.core.get_n_best(over_quota, n_seats)\n", "        return votelib.evaluate.core.get_n_best(votes, n_seats)\n")], 'breaks'),
    ('QuotaSelector: message typo repaired (fixes/C16-quota-selector-setting-message.diff)', 'Approval', 'GenTie_Approval', APP,
     [("                    f'invalid more_over_quota setting: {self.more_over_quota}'\n", "                    'invalid on_more_over_quota setting: '\n                    f'{self.on_more_over_quota}'\n")], 'holds'),
    ('QuotaSelector: settings tested the other way round', 'Approval', 'GenTie_Approval', APP,
     [("            if self.on_more_over_quota == 'error':\n                raise votelib.evaluate.core.VotingSystemError(\n                    f'wanted {n_seats}, quota gave {len(over_quota)}'\n                )\n            elif self.on_more_over_quota != 'select':\n",
       "            if self.on_more_over_quota == 'error':\n                raise votelib.evaluate.core.VotingSystemError('too many')\n            if not self.on_more_over_quota == 'select':\n")], 'holds'),
    # ---- openlist.py
    ('OpenList: jump test > becomes >=', 'Openlist', 'GenTie_Openlist', OL, [("if n_votes > threshold or (", "if n_votes >= threshold or (")], 'breaks'),
    ('OpenList: max and min swapped', 'Openlist', 'GenTie_Openlist', OL, [("(max if self.take_higher else min)", "(min if self.take_higher else max)")], 'breaks'),
    ('OpenList: jump fraction of the seats', 'Openlist', 'GenTie_Openlist', OL,
     [(JUMP_LINE, "jump_thresholds.append(n_seats * self.jump_fraction)")], 'breaks'),
    ('OpenList: equivalent rewrite', 'Openlist', 'GenTie_Openlist', OL,
     [(JUMP_LINE, "jump_thresholds.append(self.jump_fraction * total_votes)"),
      ("            threshold = (max if self.take_higher else min)(jump_thresholds)\n", "            thr = (min if not self.take_higher else max)(jump_thresholds)\n"),
      ("if n_votes > threshold or (", "if not (n_votes <= thr) or ("), ("self.accept_equal and n_votes == threshold", "self.accept_equal and thr == n_votes")], 'holds'),
    ('OpenList: quota ignored when a fraction is given', 'Openlist', 'GenTie_Openlist', OL,
     [("        if self.quota_function is not None:\n            jump_thresholds.append(", "        if self.quota_function is not None and self.jump_fraction is None:\n            jump_thresholds.append(")], 'rejects'),
    # ---- rankscore.py
    ('Borda: base off by one', 'Rankscore', 'GenTie_Rankscore', RS,
     [("top_score = self.n_candidates + self.base - 1", "top_score = self.n_candidates + self.base")], 'breaks'),
    ('Borda: one score too many', 'Rankscore', 'GenTie_Rankscore', RS,
     [("            for rank in range(self.n_candidates)\n", "            for rank in range(self.n_candidates + 1)\n")], 'breaks'),
    ('Borda: refusal at n_ranked >= n_candidates', 'Rankscore', 'GenTie_Rankscore', RS,
     [("if n_ranked > self.n_candidates:", "if n_ranked >= self.n_candidates:")], 'breaks'),
    ('Borda: equivalent arithmetic, renamed', 'Rankscore', 'GenTie_Rankscore', RS,
     [(BORDA, "        self._scores = [\n            self.base + (n_candidates - 1) - position\n            for position in range(n_candidates)\n        ]\n"),
      ("if n_ranked > self.n_candidates:", "if not n_ranked <= self.n_candidates:")], 'holds'),
    ('select_padded: pads one short', 'Rankscore', 'GenTie_Rankscore', RS,
     [("selected += [pad_with] * (n - len(selected))", "selected += [pad_with] * (n - len(selected) - 1)")], 'breaks'),
    ('select_padded: slices one more', 'Rankscore', 'GenTie_Rankscore', RS, [("    selected = sequence[:n]\n", "    selected = sequence[:n + 1]\n")], 'breaks'),
    ('select_padded: one expression', 'Rankscore', 'GenTie_Rankscore', RS,
     [(PAD, "    return sequence[:n] + [pad_with] * max(n - len(sequence), 0)\n")], 'holds'),
    ('select_padded: guard dropped', 'Rankscore', 'GenTie_Rankscore', RS,
     [(PAD, "    selected = sequence[:n]\n    selected += [pad_with] * (n - len(selected))\n    return selected\n")], 'holds'),
    ('select_padded: extends the caller\'s list', 'Rankscore', 'GenTie_Rankscore', RS,
     [("    selected = sequence[:n]\n", "    selected = sequence\n")], 'rejects'),
    ('SequenceBased: pads with the last score', 'Rankscore', 'GenTie_Rankscore', RS,
     [("        return select_padded(self.sequence, n_ranked)\n", "        return select_padded(self.sequence, n_ranked, 1)\n")], 'breaks'),
    ('Dowdall: 1 / (rank + 2)', 'Rankscore', 'GenTie_Rankscore', RS, [("Fraction(1, rank + 1)", "Fraction(1, rank + 2)")], 'breaks'),
    # ---- util.py sorted_votes / core.py get_n_best, Plurality.evaluate (unit Core, C09)
    ('unchanged util.py / core.py', 'Core', 'GenTie_Core', CORE, [], 'holds'),
    ('sorted_votes: reverse dropped', 'Core', 'GenTie_Core', UTIL, [("        reverse=descending\n", "")], 'breaks'),
    ('sorted_votes: reverse=not descending', 'Core', 'GenTie_Core', UTIL, [("reverse=descending", "reverse=not descending")], 'breaks'),
    ('sorted_votes: sorted by candidate', 'Core', 'GenTie_Core', UTIL, [("operator.itemgetter(1)", "operator.itemgetter(0)")], 'rejects'),
    ('sorted_votes: ascending sort reversed (stability lost)', 'Core', 'GenTie_Core', UTIL,
     [(SORTED_BODY, "    result = list(sorted(votes.items(), key=operator.itemgetter(1)))\n    return result[::-1] if descending else result\n")], 'breaks'),
    ('sorted_votes: input reversed first (stability lost)', 'Core', 'GenTie_Core', UTIL,
     [("        votes.items(),\n", "        list(reversed(list(votes.items()))),\n")], 'breaks'),
    ('sorted_votes: lambda key, no list()', 'Core', 'GenTie_Core', UTIL,
     [(SORTED_BODY, "    pairs = votes.items()\n    return sorted(pairs, reverse=descending, key=lambda kv: kv[1])\n")], 'holds'),
    ('sorted_votes: reversed input, ascending, reversed again', 'Core', 'GenTie_Core', UTIL,
     [(SORTED_BODY, "    if not descending:\n        return sorted(votes.items(), key=lambda kv: kv[1])\n"
                    "    return list(reversed(sorted(list(reversed(list(votes.items()))), key=lambda kv: kv[1])))\n")], 'holds'),
    ('sorted_votes: operator rebound', 'Core', 'GenTie_Core', UTIL, [("import operator\n", "import operator\noperator = None\n")], 'rejects'),
    ('sorted_votes: sort by (votes, name)', 'Core', 'GenTie_Core', UTIL,
     [("key=operator.itemgetter(1)", "key=lambda kv: (kv[1], str(kv[0]))")], 'rejects'),
    ('get_n_best: guard > becomes >=', 'Core', 'GenTie_Core', CORE, [("    if len(sorted_items) > n_seats:\n", "    if len(sorted_items) >= n_seats:\n")], 'breaks'),
    ('get_n_best: n_tie_places one more', 'Core', 'GenTie_Core', CORE, [("n_tie_places = n_seats - n_untied\n", "n_tie_places = n_seats - n_untied + 1\n")], 'breaks'),
    ('get_n_best: n_tie_places one less', 'Core', 'GenTie_Core', CORE, [("n_tie_places = n_seats - n_untied\n", "n_tie_places = n_seats - n_untied - 1\n")], 'breaks'),
    ('get_n_best: group test == becomes >=', 'Core', 'GenTie_Core', CORE, [("                if n_votes == threshold_votes:\n", "                if n_votes >= threshold_votes:\n")], 'breaks'),
    ('get_n_best: threshold read one place later', 'Core', 'GenTie_Core', CORE, [("threshold_votes = sorted_items[n_seats-1][1]", "threshold_votes = sorted_items[n_seats][1]")], 'breaks'),
    ('get_n_best: last tied index instead of first', 'Core', 'GenTie_Core', CORE, [("                    if n_untied is None:\n                        n_untied = i\n", "                    n_untied = i\n")], 'breaks'),
    ('get_n_best: untied winners cut at n_seats', 'Core', 'GenTie_Core', CORE, [("for item in sorted_items[:n_untied]]", "for item in sorted_items[:n_seats]]")], 'breaks'),
    ('get_n_best: ascending sort', 'Core', 'GenTie_Core', CORE, [("votelib.util.sorted_votes(votes)\n    if len", "votelib.util.sorted_votes(votes, False)\n    if len")], 'breaks'),
    ('get_n_best: restyled (swapped operands, early returns, renamed, unpacked target, tie comprehension)', 'Core', 'GenTie_Core', CORE,
     [(GNB_BODY, GNB_RESTYLED)], 'holds'),
    ('get_n_best: mask + itertools.compress (harmless/core-1)', 'Core', 'GenTie_Core', CORE,
     [("import inspect\n", "import inspect\nimport itertools\n"), (GNB_BODY, GNB_COMPRESS)], 'rejects'),
    ('get_n_best: while loop', 'Core', 'GenTie_Core', CORE,
     [("            for i, item in enumerate(sorted_items):\n                cand, n_votes = item\n",
       "            i = -1\n            while i + 1 < len(sorted_items):\n                i += 1\n                cand, n_votes = sorted_items[i]\n")], 'rejects'),
    ('get_n_best: Tie rebound', 'Core', 'GenTie_Core', CORE, [("def get_n_best(votes", "Tie = frozenset\n\n\ndef get_n_best(votes")], 'rejects'),
    ('Plurality: one seat more', 'Core', 'GenTie_Core', CORE, [("        return get_n_best(votes, n_seats)\n", "        return get_n_best(votes, n_seats + 1)\n")], 'breaks'),
    ('Plurality: through a local', 'Core', 'GenTie_Core', CORE, [("        return get_n_best(votes, n_seats)\n", "        k = n_seats\n        return get_n_best(votes, k)\n")], 'holds'),
]


def main():
    repo = sys.argv[1] if len(sys.argv) > 1 else os.environ.get('VERIF_REPO', '/repo')
    tmp = tempfile.mkdtemp(prefix='gentie-selftest-', dir='/var/tmp')
    bad = 0
    try:
        src = os.path.join(tmp, 'repo')
        for rel in (THR, APP, OL, RS, UTIL, CORE, 'votelib/component/divisor.py', 'votelib/component/quota.py', 'votelib/component/pairwin_scorer.py'):
            os.makedirs(os.path.dirname(os.path.join(src, rel)), exist_ok=True)
            shutil.copy(os.path.join(repo, rel), os.path.join(src, rel))
        cq = os.path.join(tmp, 'coq')
        os.makedirs(os.path.join(cq, 'Props'))
        for d in ('Prelude', 'Model', 'Proofs'):
            os.symlink(os.path.join(COQ, d), os.path.join(cq, d))
        for label, unit, tie, rel, edits, expect in EDITS:
            orig = open(os.path.join(repo, rel)).read()
            text = orig
            edits = [(next((o for o in old if o in text), old[0]) if isinstance(old, tuple) else old, new) for old, new in edits]
            missing = [old for old, _ in edits if old not in text]
            if missing:
                print('SKIP  %-50s pattern not in the source: %r' % (label, missing[0][:60]))
                bad += 1
                continue
            for old, new in edits:
                text = text.replace(old, new)
            open(os.path.join(src, rel), 'w').write(text)
            gen = os.path.join(cq, 'Gen')
            shutil.rmtree(gen, ignore_errors=True)
            subprocess.run([sys.executable, os.path.join(HERE, 'py2v.py'), src, gen], capture_output=True, text=True)
            open(os.path.join(src, rel), 'w').write(orig)
            st = json.load(open(os.path.join(gen, 'STATUS.json'))).get(unit, {})
            if st.get('status') != 'ok':
                got = 'rejects'
                detail = '; '.join('%s: %s' % (k, v) for k, v in st.get('functions', {}).items() if v != 'ok')[:160] or st.get('reason', '')[:160]
            else:
                r = subprocess.run('timeout 300 coqc -Q . VL Gen/%s.v && cp %s/Props/%s.v Props/ && timeout 300 coqc -Q . VL Props/%s.v'
                                   % (unit, COQ, tie, tie), shell=True, cwd=cq, capture_output=True, text=True)
                got = 'holds' if r.returncode == 0 else 'breaks'
                err = (r.stdout + r.stderr).strip().splitlines()
                detail = '' if r.returncode == 0 else ' '.join(err[-3:])[:160]
            okk = got == expect
            bad += 0 if okk else 1
            print('%s %-50s expected %-7s got %-7s %s' % ('ok   ' if okk else 'FAIL ', label, expect, got, detail))
    finally:
        shutil.rmtree(tmp, ignore_errors=True)
    print('%d edits, %d unexpected' % (len(EDITS), bad))
    return 1 if bad else 0


if __name__ == '__main__':
    sys.exit(main())
