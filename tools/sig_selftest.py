#!/usr/bin/env python3
"""Self-test of the class / signature tables (tools/py2v.py part 5 -> Gen/Signatures.v) and of the proofs that consume them
(coq/Props/GenTie_Signatures.v for C19, coq/Props/GenTie_Signatures_C14.v for C14) against hand edits of the library source.

usage: sig_selftest.py [<repo>]          (default $VERIF_REPO or /repo; the repo is only READ - edits go to a scratch copy)

For every edit the whole votelib package is copied, edited, translated, and the GenTie file is compiled against the BUILT
development (coq/ must have been built by ./build.sh).  Expectation per edit:
  holds   - behaviour-preserving for the premise (renamed locals, annotated / tuple / reordered stores, a guard before the store,
            dict() for {}, a default hoisted into a module constant, a new class that stores its parameters): no alarm
  breaks  - the premise is gone (a parameter transformed, not stored, stored under another name, stored conditionally or through
            code the analysis cannot see, to_dict keys that are not the parameters, a from_dict hook; for C14: a parameter added,
            removed, renamed, re-defaulted, made keyword-only, the accepts_seats attribute changed): the file no longer compiles
Exit code 0 iff every expectation is met.  That ./check also finds the concrete to_dict mismatch is validated with the whole
check (docs/C19.md).
"""
import os, sys, shutil, subprocess, tempfile, json

HERE = os.path.dirname(os.path.abspath(__file__))
VERIF = os.path.dirname(HERE)
COQ = os.path.join(VERIF, 'coq')
THR, CORE, CAND, VOTE = 'votelib/evaluate/threshold.py', 'votelib/evaluate/core.py', 'votelib/candidate.py', 'votelib/vote.py'
C19, C14 = 'GenTie_Signatures', 'GenTie_Signatures_C14'

STORE2 = "        self.threshold = threshold\n        self.accept_equal = accept_equal\n"
ABS_INIT = ("    def __init__(self,\n                 threshold: Number,\n                 accept_equal: bool = True,\n                 ):\n" + STORE2)
COND_SIG = ("                 n_seats: Optional[int] = None,\n                 prev_gains: Dict[Candidate, int] = {},\n"
            "                 **kwargs) -> Union[List[Candidate], Dict[Candidate, int]]:\n        \"\"\"Evaluate the main evaluator for variants")
NEW_OK = ("\n\n@simple_serialization\nclass ShareThreshold:\n    def __init__(self, share: Fraction, floor: int = 0):\n"
          "        if share < 0:\n            raise ValueError('negative share')\n        self.share = share\n        self.floor = floor\n\n"
          "    def evaluate(self, votes):\n        return [c for c, n in votes.items() if n >= self.floor]\n")
NEW_HAND = ("\n\nclass HandMade:\n    def __init__(self, share):\n        self.share = share\n\n"
            "    def to_dict(self):\n        return {'class': 'votelib.evaluate.threshold.HandMade', 'share': self.share}\n")
NEW_SUB = ("\n\nclass CappedThreshold(AbsoluteThreshold):\n    def __init__(self, threshold, cap, accept_equal=True):\n"
           "        super().__init__(threshold, accept_equal)\n        self.cap = cap\n")
NEW_SUB_OK = ("\n\nclass NamedThreshold(AbsoluteThreshold):\n    label = 'named'\n\n    def describe(self):\n        return self.label\n")

# (label, GenTie file, source file, [(old, new, count), ..], expectation)
EDITS = [
    ('unchanged', C19, THR, [], 'holds'),
    ('unchanged (C14)', C14, THR, [], 'holds'),
    # ---- C19: the premise survives
    ('locals renamed in evaluate', C19, THR, [('n_votes', 'nv', 0)], 'holds'),
    ('annotated store', C19, THR, [(STORE2, "        self.threshold: Number = threshold\n        self.accept_equal = accept_equal\n", 1)], 'holds'),
    ('tuple store', C19, THR, [(STORE2, "        self.threshold, self.accept_equal = threshold, accept_equal\n", 1)], 'holds'),
    ('stores reordered', C19, THR, [(STORE2, "        self.accept_equal = accept_equal\n        self.threshold = threshold\n", 1)], 'holds'),
    ('guard before the store', C19, THR, [(STORE2, "        if accept_equal not in (True, False):\n            raise ValueError('flag')\n" + STORE2, 1)], 'holds'),
    ('derived attribute next to the store', C19, THR, [(STORE2, STORE2 + "        self._strict = not accept_equal\n", 1)], 'holds'),
    ('a new class that stores its parameters', C19, THR, [('__EOF__', NEW_OK, 1)], 'holds'),
    ('a subclass without its own constructor', C19, THR, [('__EOF__', NEW_SUB_OK, 1)], 'holds'),
    # ---- C19: the premise is gone
    ('Fraction(threshold)', C19, THR, [(STORE2, "        self.threshold = Fraction(threshold)\n        self.accept_equal = accept_equal\n", 1)], 'breaks'),
    ('new parameter, not stored', C19, THR, [(ABS_INIT, ABS_INIT.replace("accept_equal: bool = True,\n", "accept_equal: bool = True,\n                 strict: bool = False,\n"), 1)], 'breaks'),
    ('stored under another name', C19, THR, [(STORE2, "        self._threshold = threshold\n        self.accept_equal = accept_equal\n", 1)], 'breaks'),
    ('stored conditionally', C19, THR, [(STORE2, "        self.threshold = threshold\n        if accept_equal:\n            self.accept_equal = accept_equal\n", 1)], 'breaks'),
    ('parameter rebound before the store', C19, THR, [(STORE2, "        threshold = abs(threshold)\n" + STORE2, 1)], 'breaks'),
    ('stored twice', C19, THR, [(STORE2, STORE2 + "        self.threshold = threshold + 0\n", 1)], 'breaks'),
    ('stored by setattr', C19, THR, [(STORE2, "        setattr(self, 'threshold', threshold)\n        self.accept_equal = accept_equal\n", 1)], 'breaks'),
    ('stored by a helper method', C19, THR, [(STORE2, "        self._configure(threshold)\n        self.accept_equal = accept_equal\n\n"
                                             "    def _configure(self, threshold):\n        self.threshold = threshold * 1\n", 1)], 'breaks'),
    ('argument list updated in place', C19, THR, [("        self.partials = partials\n", "        partials.sort(key=repr)\n        self.partials = partials\n", 1)], 'breaks'),
    ('attribute intercepted by a property', C19, THR, [(ABS_INIT, ABS_INIT + "\n    @property\n    def threshold(self):\n        return self._t\n\n"
                                                        "    @threshold.setter\n    def threshold(self, v):\n        self._t = Fraction(v)\n", 1)], 'breaks'),
    ('serialize_params drops a parameter', C19, THR, [(ABS_INIT, "    serialize_params = ['threshold']\n\n" + ABS_INIT, 1)], 'breaks'),
    ('a from_dict hook', C19, THR, [(ABS_INIT, ABS_INIT + "\n    @classmethod\n    def from_dict(cls, params):\n        return cls(**params)\n", 1)], 'breaks'),
    ('a new class with a hand-written to_dict', C19, THR, [('__EOF__', NEW_HAND, 1)], 'breaks'),
    ('a subclass with one more constructor parameter', C19, THR, [('__EOF__', NEW_SUB, 1)], 'breaks'),
    ('decorator removed, to_dict inherited from nowhere', C19, CAND, [("@simple_serialization\nclass BlankVoteOption", "class BlankVoteOption", 1)], 'holds'),
    # ---- C14
    ('{} written dict()', C14, CORE, [("prev_gains: Dict[Candidate, int] = {},\n                 **kwargs)", "prev_gains: Dict[Candidate, int] = dict(),\n                 **kwargs)", 1)], 'holds'),
    ('default hoisted into a module constant', C14, CORE, [(COND_SIG, COND_SIG.replace("= {},", "= NO_GAINS,"), 1),
                                                            ("@simple_serialization\nclass Conditioned:", "NO_GAINS: Dict[Any, int] = {}\n\n\n@simple_serialization\nclass Conditioned:", 1)], 'holds'),
    ('annotation changed', C14, CORE, [(COND_SIG, COND_SIG.replace("n_seats: Optional[int] = None", "n_seats: 'int | None' = None"), 1)], 'holds'),
    ('Conditioned.evaluate swallows max_seats', C14, CORE, [(COND_SIG, COND_SIG.replace("                 **kwargs)", "                 max_seats: Dict[Candidate, int] = {},\n                 **kwargs)"), 1)], 'breaks'),
    ('Conditioned.evaluate loses prev_gains', C14, CORE, [(COND_SIG, COND_SIG.replace("                 prev_gains: Dict[Candidate, int] = {},\n", "").replace('"""Evaluate', 'prev_gains = {}\n        """Evaluate'), 1)], 'breaks'),
    ('n_seats renamed', C14, CORE, [(COND_SIG, COND_SIG.replace("n_seats: Optional[int] = None", "seats: Optional[int] = None").replace('"""Evaluate', 'n_seats = seats\n        """Evaluate'), 1)], 'breaks'),
    ('n_seats defaults to 0', C14, CORE, [(COND_SIG, COND_SIG.replace("n_seats: Optional[int] = None", "n_seats: Optional[int] = 0"), 1)], 'breaks'),
    ('n_seats keyword-only', C14, CORE, [(COND_SIG, COND_SIG.replace("                 n_seats: Optional[int] = None", "                 *,\n                 n_seats: Optional[int] = None"), 1)], 'breaks'),
    ('FixedSeatCount stops denying accepts_seats', C14, CORE, [("    accepts_seats = False\n", "", 1)], 'breaks'),
    ('PreConverted claims accepts_seats', C14, CORE, [("class PreConverted:\n", "class PreConverted:\n    accepts_seats = True\n", 1)], 'breaks'),
    ('Plurality without a default seat count', C14, CORE, [("                 n_seats: int = 1,\n                 ) -> List[Candidate]:\n        \"\"\"Select candidates by plurality",
                                                            "                 n_seats: int,\n                 ) -> List[Candidate]:\n        \"\"\"Select candidates by plurality", 1)], 'breaks'),
]


def main():
    repo = sys.argv[1] if len(sys.argv) > 1 else os.environ.get('VERIF_REPO', '/repo')
    tmp = tempfile.mkdtemp(prefix='sig-selftest-', dir='/var/tmp')
    bad = 0
    try:
        src = os.path.join(tmp, 'repo')
        shutil.copytree(os.path.join(repo, 'votelib'), os.path.join(src, 'votelib'), ignore=shutil.ignore_patterns('__pycache__'))
        cq = os.path.join(tmp, 'coq')
        os.makedirs(os.path.join(cq, 'Props'))
        for d in ('Prelude', 'Model', 'Proofs'):
            os.symlink(os.path.join(COQ, d), os.path.join(cq, d))
        for label, tie, rel, edits, expect in EDITS:
            orig = open(os.path.join(repo, rel)).read()
            text = orig + '__EOF__'
            missing = [old for old, _, _ in edits if old not in text]
            if missing:
                print('SKIP  %-52s pattern not in the source: %r' % (label, missing[0][:60]))
                bad += 1
                continue
            for old, new, count in edits:
                text = text.replace(old, new, count) if count else text.replace(old, new)
            text = text.replace('__EOF__', '')
            try:
                compile(text, rel, 'exec')
            except SyntaxError as e:
                print('SKIP  %-52s the edit is not Python: %s' % (label, e))
                bad += 1
                continue
            open(os.path.join(src, rel), 'w').write(text)
            gen = os.path.join(cq, 'Gen')
            shutil.rmtree(gen, ignore_errors=True)
            subprocess.run([sys.executable, os.path.join(HERE, 'py2v.py'), src, gen], capture_output=True, text=True)
            open(os.path.join(src, rel), 'w').write(orig)
            st = json.load(open(os.path.join(gen, 'STATUS.json'))).get('Signatures', {})
            if st.get('status') != 'ok':
                got, detail = 'rejects', st.get('reason', '')[:160]
            else:
                r = subprocess.run('timeout 300 coqc -Q . VL Gen/Signatures.v && cp %s/Props/%s.v Props/ && timeout 600 coqc -Q . VL Props/%s.v'
                                   % (COQ, tie, tie), shell=True, cwd=cq, capture_output=True, text=True)
                got = 'holds' if r.returncode == 0 else 'breaks'
                err = (r.stdout + r.stderr).strip().splitlines()
                detail = '' if r.returncode == 0 else ' '.join(err[-3:])[:140]
            okk = got == expect
            bad += 0 if okk else 1
            print('%s %-52s expected %-7s got %-7s %s' % ('ok   ' if okk else 'FAIL ', label, expect, got, detail), flush=True)
    finally:
        shutil.rmtree(tmp, ignore_errors=True)
    print('%d edits, %d unexpected' % (len(EDITS), bad))
    return 1 if bad else 0


if __name__ == '__main__':
    sys.exit(main())
