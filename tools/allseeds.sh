#!/bin/bash
# allseeds.sh <seeds...> : every check's quick tier under several VERIF_SEED values; prints non-ok lines
cd "$(dirname "$0")/.."
./build.sh > /dev/null 2>&1
for s in "$@"; do
  for id in C01 C02 C03 C04 C05 C06 C07 C08 C09 C10 C11 C12 C13 C14 C15 C16 C17 C18 C19 C20; do
    out=$(VERIF_SEED=$s ./check $id --tier quick --no-build 2>&1 | grep -v conda)
    echo "$out" | tail -1 | sed "s/^/seed $s: /"
    echo "$out" | grep VIOLATION | sed "s/^/seed $s: /"
  done
done
