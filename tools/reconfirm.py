#!/usr/bin/env python3
"""reconfirm.py [--jobs N] [ids...] : re-run every seeded change under seeded/ (or those whose directory name starts with one of
the given ids) against the CURRENT checks, each in a private scratch worktree of /repo (VERIF_REPO), never in /repo itself.
Updates seeded/<id>-<k>/meta.json (checks, caught_by, reconfirmed_at_repo) and prints one line per seed."""
import sys, os, subprocess, json, re, glob
from concurrent.futures import ThreadPoolExecutor
ROOT = os.path.dirname(os.path.dirname(os.path.abspath(__file__)))
args = sys.argv[1:]
jobs = 4
if args[:1] == ['--jobs']:
    jobs = int(args[1]); args = args[2:]
seeds = sorted(d for d in glob.glob(os.path.join(ROOT, 'seeded', '*-*')) if os.path.isdir(d)
               and (not args or any(os.path.basename(d).startswith(a) for a in args)))
head = subprocess.check_output(['git', '-C', '/repo', 'rev-parse', '--short', 'HEAD'], text=True).strip()
env = dict(os.environ, PYTHONDONTWRITEBYTECODE='1')


def sh(cmd, **kw):
    p = subprocess.run(cmd, shell=True, capture_output=True, text=True, env=kw.pop('env', env), **kw)
    return p.returncode, p.stdout + p.stderr


def worker(slot, items):
    wt = '/tmp/pw/r-reconfirm-%d' % slot
    sh('git -C /repo worktree remove --force %s' % wt)
    rc, out = sh('git -C /repo worktree add -q --detach %s HEAD' % wt)
    assert rc == 0, out
    res = []
    try:
        for d in items:
            name = os.path.basename(d)
            pid = name.split('-')[0]
            patch = os.path.join(d, 'patch.diff')
            sh('git checkout -- . && git clean -fdq', cwd=wt)
            rc, out = sh('git apply %s' % patch, cwd=wt)
            how = 'git apply'
            if rc != 0:
                rc, out = sh('patch -p1 -F3 --no-backup-if-mismatch < %s' % patch, cwd=wt)
                how = 'patch -F3'
            meta_p = os.path.join(d, 'meta.json')
            meta = json.load(open(meta_p)) if os.path.exists(meta_p) else {}
            if rc != 0:
                meta['reconfirm'] = dict(repo=head, applies=False, note=out.strip()[-300:])
                json.dump(meta, open(meta_p, 'w'), indent=1, default=str)
                res.append((name, 'DOES-NOT-APPLY'))
                continue
            demo = os.path.join(d, 'demo.py')
            rcd, outd = sh('VOTELIB_PATH=%s PYTHONPATH=%s /venv/bin/python %s' % (wt, wt, demo), cwd=wt, timeout=600) if os.path.exists(demo) else (None, '')
            e2 = dict(env, VERIF_REPO=wt)
            rcc, outc = sh('%s/check %s --tier quick --no-build' % (ROOT, pid), env=e2, timeout=3000)
            lines = [l for l in outc.splitlines() if l.startswith('VIOLATION')]
            summary = outc.strip().splitlines()[-1] if outc.strip() else ''
            meta['reconfirm'] = dict(repo=head, applies=True, how=how, demo_rc=rcd, check_exit=rcc, violation=lines[:1], summary=summary)
            meta['caught_by'] = [pid] if rcc == 1 and lines else []
            json.dump(meta, open(meta_p, 'w'), indent=1, default=str)
            res.append((name, 'caught' if rcc == 1 and lines else 'MISSED', 'demo_rc=%s' % rcd, summary[-60:]))
    finally:
        sh('git -C /repo worktree remove --force %s' % wt)
    return res


pids = sorted({os.path.basename(d).split('-')[0] for d in seeds})
chunks = [[d for d in seeds if pids.index(os.path.basename(d).split('-')[0]) % jobs == i] for i in range(jobs)]   # one property = one worker
with ThreadPoolExecutor(jobs) as ex:
    for r in ex.map(lambda a: worker(*a), enumerate(chunks)):
        for line in r:
            print(*line)
