#!/usr/bin/env python3
"""seed_prompt.py <ID> : print the prompt given to a fresh sub-agent that writes seeded changes for one property
(only the property text and its own scratch worktree - nothing from /verif)."""
import sys, json
pid = sys.argv[1]
prop = [json.loads(l) for l in open('/verif/properties.jsonl') if json.loads(l)['id'] == pid][0]
text = json.dumps({k: prop[k] for k in prop if k in ('id', 'title', 'statement', 'description', 'anchors', 'quantifier', 'rationale') or True}, indent=1, ensure_ascii=False)
print(f"""You are testing how well a verification suite detects regressions in the Python library simberaj/votelib. You get ONE semantic property of the library and must write realistic code changes that break it.

The property ({pid}):
{text}

Set up your own scratch git worktree of the library (do NOT touch /repo itself, and do not read anything under /verif):
  mkdir -p /tmp/wt && git -C /repo worktree add --detach /tmp/wt/seed-{pid} HEAD
Work only inside /tmp/wt/seed-{pid}. Python: /venv/bin/python (votelib's dependencies are installed there); run programs with PYTHONPATH=/tmp/wt/seed-{pid} PYTHONDONTWRITEBYTECODE=1. The test suite: cd /tmp/wt/seed-{pid} && /venv/bin/python -m pytest -q -p no:cacheprovider (1381 tests pass on the pinned tree, ~10 s). Each Bash call prints a harmless conda WARNING line; ignore it.

Task: produce THREE different, independent changes to the votelib source (each a small realistic edit a developer could plausibly make: a refactoring slip, an off-by-one, a wrong comparison, a dropped argument, an "optimisation", two cooperating edits that each look fine alone ...) such that for each change:
  1. the library still imports and the WHOLE existing test suite still passes with the change applied (run it and record the summary line);
  2. the property above is violated by the changed code - not for ordinary inputs that any use would expose at once, but only when something specific happens (an unusual input, a particular boundary or tie, a multi-step sequence of calls, a particular configuration or nesting, a large magnitude ...);
  3. the three changes are in different places / break different clauses of the property where possible.
For each change k = 1, 2, 3 write into /tmp/seedstage/{pid}/<k>/ :
  - patch.diff : `git diff` of that change alone against the pinned tree (must apply with `git apply` to a clean checkout of HEAD);
  - demo.py    : a small stand-alone program that imports votelib from the directory given in the environment variable VOTELIB_PATH (put `sys.path.insert(0, os.environ['VOTELIB_PATH'])` first), exercises the property, prints PASS and exits 0 on the pinned library, prints FAIL (with what went wrong) and exits 1 with the change applied. It must judge by the property (an independent expectation computed in the demo), not by comparing with hard-coded outputs of the old code where avoidable;
  - notes.md   : what the change is, which clause of the property it breaks, exactly what is needed for it to manifest, the demo input, and the pytest summary line with the change applied.
Verify everything yourself: demo passes on the clean worktree, fails with the patch, test suite passes with the patch. Reset the worktree (git checkout -- .) between changes. When done, remove the worktree: git -C /repo worktree remove --force /tmp/wt/seed-{pid}. Final answer: a three-line summary (one per change).""")
