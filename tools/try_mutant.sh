#!/bin/bash
# try_mutant.sh <patch> <check-id>... : apply patch to /repo, run quick checks, revert.
p="$1"; shift
git -C /repo apply "$p" || { echo "patch does not apply"; exit 2; }
for id in "$@"; do /verif/check "$id" 2>&1 | grep -E "VIOLATION|KNOWN|-> " ; done
git -C /repo checkout -- .
git -C /repo status --short | head -3
