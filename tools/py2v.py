#!/usr/bin/env python3
"""Fail-closed translator: votelib/component/{divisor,quota,pairwin_scorer}.py -> Gallina.

usage: py2v.py <repo> <outdir>
Writes <outdir>/Divisor.v, <outdir>/Quota.v, <outdir>/Pairwin.v and <outdir>/STATUS.json.
Accepted subset (anything else raises Unsupported and the unit is marked failed):
  def f(a: int, b: int) -> T:  [docstring]  body
  body ::= return e | if c: body else: body
  e ::= int literal | name | e (+|-|*) e | e ** name | Fraction(e, e) | int(e) | math.ceil(e) | round(e)
      | f(e, ..) for an already translated f | e if c else e
  c ::= e (<|<=|>|>=|==) e | e.limit_denominator(2) == e
  closure rule: def outer(fx: Callable, coef = Decimal('..')): [isinstance-normalisation] def inner(order): .. ; return inner
All numbers are rationals (Q); parameters annotated int are Z and injected.
"""
import ast, sys, os, json
from fractions import Fraction


class Unsupported(Exception):
    pass


def die(node, why):
    raise Unsupported('%s at line %s: %s' % (why, getattr(node, 'lineno', '?'), ast.dump(node)[:120]))


class Fn:
    def __init__(self, env, known):
        self.env = env      # name -> 'Z' | 'Q' | 'fun'
        self.known = known  # translated function names -> list of param kinds

    def num(self, f):
        f = Fraction(f)
        return '(%d # %d)' % (f.numerator, f.denominator)

    def expr(self, e):
        if isinstance(e, ast.Constant) and isinstance(e.value, int) and not isinstance(e.value, bool):
            return self.num(e.value)
        if isinstance(e, ast.Name):
            k = self.env.get(e.id)
            if k == 'Z':
                return '(inject_Z %s)' % e.id
            if k == 'Q':
                return e.id
            die(e, 'unknown name')
        if isinstance(e, ast.BinOp):
            if isinstance(e.op, ast.Pow):
                if isinstance(e.right, ast.Name) and self.env.get(e.right.id) == 'Z':
                    return '(py_pow %s %s)' % (self.expr(e.left), e.right.id)
                die(e, 'exponent must be an int parameter')
            ops = {ast.Add: '+', ast.Sub: '-', ast.Mult: '*'}
            if type(e.op) in ops:
                return '(%s %s %s)' % (self.expr(e.left), ops[type(e.op)], self.expr(e.right))
            die(e, 'operator')
        if isinstance(e, ast.IfExp):
            return '(if %s then %s else %s)' % (self.cond(e.test), self.expr(e.body), self.expr(e.orelse))
        if isinstance(e, ast.Call):
            if e.keywords:
                die(e, 'keyword arguments')
            fn = e.func
            if isinstance(fn, ast.Name):
                if fn.id == 'Fraction' and len(e.args) == 2:
                    return '(py_frac %s %s)' % (self.expr(e.args[0]), self.expr(e.args[1]))
                if fn.id == 'int' and len(e.args) == 1:
                    return '(py_int %s)' % self.expr(e.args[0])
                if fn.id == 'round' and len(e.args) == 1:
                    return '(py_round %s)' % self.expr(e.args[0])
                if fn.id == 'max' and len(e.args) == 2:
                    return '(py_max %s %s)' % (self.expr(e.args[0]), self.expr(e.args[1]))
                if fn.id in self.known and len(e.args) == len(self.known[fn.id]):
                    args = []
                    for a, kind in zip(e.args, self.known[fn.id]):
                        if kind == 'Z':
                            if isinstance(a, ast.Name) and self.env.get(a.id) == 'Z':
                                args.append(a.id)
                            else:
                                die(a, 'int argument must be an int parameter')
                        else:
                            args.append(self.expr(a))
                    return '(%s %s)' % (fn.id, ' '.join(args))
                if self.env.get(fn.id) == 'fun' and len(e.args) == 1 and isinstance(e.args[0], ast.Name) \
                        and self.env.get(e.args[0].id) == 'Z':
                    return '(%s %s)' % (fn.id, e.args[0].id)
            if isinstance(fn, ast.Attribute) and isinstance(fn.value, ast.Name) and fn.value.id == 'math' \
                    and fn.attr == 'ceil' and len(e.args) == 1:
                return '(py_ceil %s)' % self.expr(e.args[0])
            die(e, 'call')
        die(e, 'expression')

    def cond(self, c):
        if isinstance(c, ast.Compare) and len(c.ops) == 1:
            l, r, op = c.left, c.comparators[0], c.ops[0]
            # x.limit_denominator(2) == x
            if (isinstance(op, ast.Eq) and isinstance(l, ast.Call) and isinstance(l.func, ast.Attribute)
                    and l.func.attr == 'limit_denominator' and len(l.args) == 1
                    and isinstance(l.args[0], ast.Constant) and l.args[0].value == 2
                    and ast.dump(l.func.value) == ast.dump(r)):
                return '(py_den_le2 %s)' % self.expr(r)
            ops = {ast.Gt: 'py_gt', ast.GtE: 'py_ge', ast.Lt: 'py_lt', ast.LtE: 'py_le', ast.Eq: 'py_eq'}
            if type(op) in ops:
                return '(%s %s %s)' % (ops[type(op)], self.expr(l), self.expr(r))
        die(c, 'condition')

    def body(self, stmts):
        stmts = [s for s in stmts if not (isinstance(s, ast.Expr) and isinstance(s.value, ast.Constant)
                                          and isinstance(s.value.value, str))]
        if len(stmts) == 1 and isinstance(stmts[0], ast.Return) and stmts[0].value is not None:
            return self.expr(stmts[0].value)
        if len(stmts) == 1 and isinstance(stmts[0], ast.If) and stmts[0].orelse:
            s = stmts[0]
            return '(if %s then %s else %s)' % (self.cond(s.test), self.body(s.body), self.body(s.orelse))
        if len(stmts) == 2 and isinstance(stmts[0], ast.If) and not stmts[0].orelse:
            s = stmts[0]
            return '(if %s then %s else %s)' % (self.cond(s.test), self.body(s.body), self.body(stmts[1:]))
        die(stmts[0] if stmts else ast.Pass(), 'statement form')


def param_kinds(fd):
    kinds = []
    for a in fd.args.args:
        ann = ast.unparse(a.annotation) if a.annotation is not None else ''
        if ann == 'int':
            kinds.append((a.arg, 'Z'))
        elif ann in ('Fraction', 'Number', 'Decimal'):
            kinds.append((a.arg, 'Q'))
        elif ann.startswith('Callable[[int]'):
            kinds.append((a.arg, 'fun'))
        else:
            die(a, 'parameter annotation %r' % ann)
    if fd.args.vararg or fd.args.kwarg or fd.args.kwonlyargs:
        die(fd, 'parameter list')
    return kinds


def coq_params(kinds):
    t = {'Z': 'Z', 'Q': 'Q', 'fun': 'Z -> Q'}
    return ' '.join('(%s : %s)' % (n, t[k]) for n, k in kinds)


def translate_fn(fd, known):
    kinds = param_kinds(fd)
    # closure rule
    inner = [s for s in fd.body if isinstance(s, ast.FunctionDef)]
    if inner:
        if len(inner) != 1:
            die(fd, 'closures')
        rest = [s for s in fd.body if s is not inner[0] and not (isinstance(s, ast.Expr) and isinstance(s.value, ast.Constant))]
        # allowed: one isinstance-normalisation 'if not isinstance(p, (int, Fraction)): p = Fraction(*p.as_integer_ratio())'
        # and 'return inner'
        ret = rest[-1]
        if not (isinstance(ret, ast.Return) and isinstance(ret.value, ast.Name) and ret.value.id == inner[0].name):
            die(ret, 'closure must be returned')
        for s in rest[:-1]:
            src = ast.unparse(s).replace('\n', ' ').replace('  ', ' ')
            ok = False
            for n, k in kinds:
                if src == ('if not isinstance(%s, (int, Fraction)): %s = Fraction(*%s.as_integer_ratio())' % (n, n, n)).replace(':  ', ': '):
                    ok = True
            norm = ' '.join(src.split())
            for n, k in kinds:
                if norm == 'if not isinstance(%s, (int, Fraction)): %s = Fraction(*%s.as_integer_ratio())' % (n, n, n):
                    ok = True
            if not ok:
                die(s, 'statement in closure factory')
        ik = param_kinds(inner[0])
        env = dict(kinds)
        env.update(dict(ik))
        text = Fn(env, known).body(inner[0].body)
        return 'Definition %s %s %s : Q :=\n  %s.' % (fd.name, coq_params(kinds), coq_params(ik), text), \
               [k for _, k in kinds] + [k for _, k in ik]
    env = dict(kinds)
    text = Fn(env, known).body(fd.body)
    return 'Definition %s %s : Q :=\n  %s.' % (fd.name, coq_params(kinds), text), [k for _, k in kinds]


HEADER = '''(* GENERATED by tools/py2v.py from %s -- do not edit. *)
From Coq Require Import ZArith QArith.
From VL Require Import Prelude.PyNum.
Open Scope Q_scope.
'''


def deps(fd):
    return {n.id for n in ast.walk(fd) if isinstance(n, ast.Name)}


def translate_file(path, wanted, skip, module):
    tree = ast.parse(open(path).read())
    fds = {n.name: n for n in tree.body if isinstance(n, ast.FunctionDef)}
    out, status, known, done = [], {}, {}, []
    names = [n for n in fds if n not in skip]
    # dependency order
    order = []
    def visit(n, stack=()):
        if n in order or n not in fds or n in skip:
            return
        if n in stack:
            raise Unsupported('recursion in %s' % n)
        for d in deps(fds[n]):
            if d != n and d in fds:
                visit(d, stack + (n,))
        order.append(n)
    for n in names:
        visit(n)
    for n in order:
        try:
            text, kinds = translate_fn(fds[n], known)
            known[n] = kinds
            out.append(text)
            status[n] = 'ok'
        except Unsupported as e:
            status[n] = 'unsupported: %s' % e
    missing = [w for w in wanted if status.get(w) != 'ok']
    return (HEADER % module) + '\n' + '\n\n'.join(out) + '\n', status, missing


# ---------------------------------------------------------------- pairwise win scorers (dict -> dict over integer counts)
PW_HEADER = '''(* GENERATED by tools/py2v.py from %s -- do not edit. *)
From Coq Require Import ZArith List.
From VL Require Import Prelude.PyDict Model.Condorcet.
Open Scope Z_scope.
'''


class PwFn:
    """def f(counts: Dict[pair, Number]) -> Dict[pair, Number]:
         return counts | return {pair: E for pair, count in counts.items()}
       E ::= count | int literal | counts.get(tuple(reversed(pair)), 0) | E - E | E + E | (E if C else E) ; C ::= E (<|<=|>|>=|==) E"""

    def __init__(self, arg, key, val, kq, vq):
        self.arg, self.key, self.val, self.kq, self.vq = arg, key, val, kq, vq

    def expr(self, e):
        if isinstance(e, ast.Constant) and isinstance(e.value, int) and not isinstance(e.value, bool):
            return '(%d)' % e.value
        if isinstance(e, ast.Name) and e.id == self.val:
            return self.vq
        if isinstance(e, ast.BinOp) and type(e.op) in (ast.Sub, ast.Add):
            return '(%s %s %s)' % (self.expr(e.left), '-' if isinstance(e.op, ast.Sub) else '+', self.expr(e.right))
        if isinstance(e, ast.IfExp):
            return '(if %s then %s else %s)' % (self.cond(e.test), self.expr(e.body), self.expr(e.orelse))
        if isinstance(e, ast.Call) and ast.unparse(e) == '%s.get(tuple(reversed(%s)), 0)' % (self.arg, self.key):
            return '(pget0 %s (swap %s))' % (self.arg, self.kq)
        die(e, 'expression')

    def cond(self, c):
        if isinstance(c, ast.Compare) and len(c.ops) == 1:
            l, r, op = self.expr(c.left), self.expr(c.comparators[0]), c.ops[0]
            if isinstance(op, ast.Gt):
                return '(%s <? %s)' % (r, l)
            if isinstance(op, ast.GtE):
                return '(%s <=? %s)' % (r, l)
            if isinstance(op, ast.Lt):
                return '(%s <? %s)' % (l, r)
            if isinstance(op, ast.LtE):
                return '(%s <=? %s)' % (l, r)
            if isinstance(op, ast.Eq):
                return '(%s =? %s)' % (l, r)
        die(c, 'condition')


def translate_pairwin(path, wanted, module):
    tree = ast.parse(open(path).read())
    fds = {n.name: n for n in tree.body if isinstance(n, ast.FunctionDef)}
    out, status = [], {}
    for name in wanted:
        try:
            fd = fds.get(name)
            if fd is None:
                raise Unsupported('function %s not found' % name)
            if len(fd.args.args) != 1 or fd.args.vararg or fd.args.kwarg or fd.args.kwonlyargs:
                die(fd, 'parameter list')
            arg = fd.args.args[0].arg
            stmts = [x for x in fd.body if not (isinstance(x, ast.Expr) and isinstance(x.value, ast.Constant) and isinstance(x.value.value, str))]
            if len(stmts) != 1 or not isinstance(stmts[0], ast.Return):
                die(fd, 'body must be a single return')
            rv = stmts[0].value
            if isinstance(rv, ast.Name) and rv.id == arg:
                body = arg
            elif isinstance(rv, ast.DictComp) and len(rv.generators) == 1:
                g = rv.generators[0]
                if g.ifs or g.is_async or ast.unparse(g.iter) != '%s.items()' % arg or not isinstance(g.target, ast.Tuple) \
                        or len(g.target.elts) != 2 or not all(isinstance(x, ast.Name) for x in g.target.elts):
                    die(rv, 'comprehension generator')
                key, val = g.target.elts[0].id, g.target.elts[1].id
                kq, vq = 'k_' + key, 'v_' + val      # avoid clashes with Coq identifiers (pair)
                if not (isinstance(rv.key, ast.Name) and rv.key.id == key):
                    die(rv, 'comprehension key')
                body = 'map (fun kv : pair * Z => let %s := fst kv in let %s := snd kv in (%s, %s)) %s' % (
                    kq, vq, kq, PwFn(arg, key, val, kq, vq).expr(rv.value), arg)
            else:
                die(rv, 'return value')
            out.append('Definition %s (%s : pvotes) : pvotes :=\n  %s.' % (name, arg, body))
            status[name] = 'ok'
        except Unsupported as e:
            status[name] = 'unsupported: %s' % e
    missing = [w for w in wanted if status.get(w) != 'ok']
    return (PW_HEADER % module) + '\n' + '\n\n'.join(out) + '\n', status, missing


# ---------------------------------------------------------------- rank scorers (classes with a scores(n_ranked) method)
class _SelfAttr(ast.NodeTransformer):
    def visit_Attribute(self, node):
        if isinstance(node.value, ast.Name) and node.value.id == 'self':
            return ast.copy_location(ast.Name(id=node.attr, ctx=ast.Load()), node)
        return self.generic_visit(node)


def translate_rankscore(path, wanted, module):
    """class X(RankScorer): [def __init__(self, a: int [= d]): self.a = a]  def scores(self, n_ranked: int): return [E for rank in range(n_ranked)]
       -> Definition X_score (a : Z) (n_ranked : Z) (rank : Z) : Q := E   (one element of the list, as a function of the rank)"""
    tree = ast.parse(open(path).read())
    classes = {n.name: n for n in tree.body if isinstance(n, ast.ClassDef)}
    out, status = [], {}
    for name in wanted:
        try:
            cd = classes.get(name)
            if cd is None:
                raise Unsupported('class %s not found' % name)
            meths = {m.name: m for m in cd.body if isinstance(m, ast.FunctionDef)}
            attrs = []
            if '__init__' in meths:
                init = meths['__init__']
                for a in init.args.args[1:]:
                    if a.annotation is None or ast.unparse(a.annotation) != 'int':
                        die(a, 'constructor parameter must be annotated int')
                    attrs.append(a.arg)
                for st_ in init.body:
                    if isinstance(st_, ast.Expr) and isinstance(st_.value, ast.Constant):
                        continue
                    if not (isinstance(st_, ast.Assign) and len(st_.targets) == 1 and ast.unparse(st_.targets[0]) in ['self.' + a for a in attrs]
                            and isinstance(st_.value, ast.Name) and 'self.' + st_.value.id == ast.unparse(st_.targets[0])):
                        die(st_, 'constructor must only store its parameters')
            sc = meths.get('scores')
            if sc is None or [a.arg for a in sc.args.args] != ['self', 'n_ranked']:
                die(cd, 'scores(self, n_ranked)')
            stmts = [x for x in sc.body if not (isinstance(x, ast.Expr) and isinstance(x.value, ast.Constant) and isinstance(x.value.value, str))]
            if len(stmts) != 1 or not isinstance(stmts[0], ast.Return) or not isinstance(stmts[0].value, ast.ListComp):
                die(sc, 'scores must return one list comprehension')
            lc = stmts[0].value
            if len(lc.generators) != 1 or lc.generators[0].ifs or ast.unparse(lc.generators[0].iter) != 'range(n_ranked)' \
                    or not isinstance(lc.generators[0].target, ast.Name):
                die(lc, 'comprehension over range(n_ranked)')
            rank = lc.generators[0].target.id
            env = {a: 'Z' for a in attrs}
            env.update({'n_ranked': 'Z', rank: 'Z'})
            elt = _SelfAttr().visit(lc.elt)
            ast.fix_missing_locations(elt)
            text = Fn(env, {}).expr(elt)
            params = ' '.join('(%s : Z)' % a for a in attrs + ['n_ranked', rank])
            out.append('Definition %s_score %s : Q :=\n  %s.' % (name, params, text))
            status[name] = 'ok'
        except Unsupported as e:
            status[name] = 'unsupported: %s' % e
    missing = [w for w in wanted if status.get(w) != 'ok']
    return (HEADER % module) + '\n' + '\n\n'.join(out) + '\n', status, missing


def main():
    repo, outdir = sys.argv[1], sys.argv[2]
    os.makedirs(outdir, exist_ok=True)
    st = {}
    jobs = [
        ('Divisor', 'votelib/component/divisor.py',
         ['d_hondt', 'sainte_lague', 'imperiali', 'danish', 'macau', 'modified_first_coef'], {'huntington_hill'}),
        ('Quota', 'votelib/component/quota.py',
         ['hare', 'hare_rounded', 'droop', 'hagenbach_bischoff', 'hagenbach_bischoff_ceil',
          'hagenbach_bischoff_rounded', 'imperiali', '_round_half_up'], set()),
    ]
    for unit, rel, wanted, skip in jobs:
        dst = os.path.join(outdir, unit + '.v')
        try:
            text, status, missing = translate_file(os.path.join(repo, rel), wanted, skip, rel)
            st[unit] = dict(status='ok' if not missing else 'partial', functions=status, missing=missing, source=rel)
        except (Unsupported, SyntaxError, OSError) as e:
            text = HEADER % rel
            st[unit] = dict(status='failed', reason=str(e), source=rel, missing=wanted)
        old = open(dst).read() if os.path.exists(dst) else None
        if old != text:          # keep timestamps stable for make
            open(dst, 'w').write(text)
    # pairwise win scorers
    rel = 'votelib/component/pairwin_scorer.py'
    wanted = ['winning_votes', 'margins', 'pairwise_opposition']
    dst = os.path.join(outdir, 'Pairwin.v')
    try:
        text, status, missing = translate_pairwin(os.path.join(repo, rel), wanted, rel)
        st['Pairwin'] = dict(status='ok' if not missing else 'partial', functions=status, missing=missing, source=rel)
    except (Unsupported, SyntaxError, OSError) as e:
        text = PW_HEADER % rel
        st['Pairwin'] = dict(status='failed', reason=str(e), source=rel, missing=wanted)
    old = open(dst).read() if os.path.exists(dst) else None
    if old != text:
        open(dst, 'w').write(text)
    # rank scorers
    rel = 'votelib/component/rankscore.py'
    wanted = ['Dowdall', 'Geometric', 'ModifiedBorda', 'FixedTop']
    dst = os.path.join(outdir, 'Rankscore.v')
    try:
        text, status, missing = translate_rankscore(os.path.join(repo, rel), wanted, rel)
        st['Rankscore'] = dict(status='ok' if not missing else 'partial', functions=status, missing=missing, source=rel,
                               note='Borda (stateful set_n_candidates) and SequenceBased (select_padded slicing) are tied by correspondence (C13)')
    except (Unsupported, SyntaxError, OSError) as e:
        text = HEADER % rel
        st['Rankscore'] = dict(status='failed', reason=str(e), source=rel, missing=wanted)
    old = open(dst).read() if os.path.exists(dst) else None
    if old != text:
        open(dst, 'w').write(text)
    json.dump(st, open(os.path.join(outdir, 'STATUS.json'), 'w'), indent=1)
    print(json.dumps(st, indent=1))


if __name__ == '__main__':
    main()
