#!/usr/bin/env python3
"""Fail-closed translator: arithmetic and expression-level code of votelib -> Gallina.

usage: py2v.py <repo> <outdir>
Writes <outdir>/{Divisor,Quota,Pairwin,Rankscore,Threshold,Approval,Openlist,Core,CoreQsel,Signatures,Validate}.v, <outdir>/Signatures.json and <outdir>/STATUS.json
(per unit: status ok | partial | failed, per definition ok | "unsupported: <why> at line N: <ast node>").

1. Untyped function translator (component/divisor.py, component/quota.py).  Accepted subset (anything else raises
   Unsupported and the unit is marked failed):
  def f(a: int, b: int) -> T:  [docstring]  body
  body ::= return e | if c: body else: body
  e ::= int literal | name | e (+|-|*) e | e ** name | Fraction(e, e) | int(e) | math.ceil(e) | round(e)
      | f(e, ..) for an already translated f | e if c else e
  c ::= e (<|<=|>|>=|==) e | e.limit_denominator(2) == e
  closure rule: def outer(fx: Callable, coef = Decimal('..')): [isinstance-normalisation] def inner(order): .. ; return inner
  All numbers are rationals (Q); parameters annotated int are Z and injected.
2. Pairwise win scorers (component/pairwin_scorer.py): dict comprehensions over counts.items().
3. Rank scorers (component/rankscore.py): the per-rank expression of scores() for Dowdall / Geometric / ModifiedBorda / FixedTop.
4. Typed method translator (evaluate/threshold.py, evaluate/approval.py QuotaSelector, evaluate/openlist.py jump threshold
   and jump test, component/rankscore.py select_padded / Borda / SequenceBased): see the comment above class TX for the
   subset and TYPED_JOBS / RANK_TYPED for what is extracted from which method (whole body, the condition of a comprehension,
   a loop's test, the statements up to a local).  Parameters of a generated definition are the attributes and arguments
   the code reads, with declared types; locals and loop variables are bound by position, so renaming them changes nothing.
   Unit Core (util.sorted_votes, core.get_n_best, Plurality.evaluate as whole bodies; CoreQsel: QuotaSelector.evaluate on top of the
   generated get_n_best): see CORE_UTIL / CORE_CORE / COREQSEL and translate_core; primitives read by Prelude/PySeq.v.
5. Class / signature tables (every class of votelib/**/*.py -> Gen/Signatures.v + Signatures.json): how to_dict comes about and its
   keys, constructor parameters and how __init__ stores each (Stored | StoredAs | Transformed line | NotStored), attribute writes after
   construction, mutable default arguments, evaluate / convert / validate parameter lists - see the comment above class SigTables.
   Nothing is rejected here: a form that is not read as a verbatim store is recorded as Transformed (the proofs then do not cover it).
6. Validation code over dynamically typed objects (vote.py magnitude checker / validators, candidate.py nominators,
   convert.InvalidVoteEliminator.convert -> Gen/Validate.v): whole method bodies, exceptions as results, isinstance read against the
   class hierarchy of candidate.py - see the comment above VAL_HEADER / class VX; operations on objects read by Prelude/PyObj.v.
The reading of the Python primitives is Prelude/PyNum.v and Prelude/PyList.v (trusted base).
tools/gentie_selftest.py replays source edits (equivalent rewrites, semantic changes, untranslatable forms) against the
translator and the Props/GenTie_*.v proofs.
"""
import ast, sys, os, json, re
from fractions import Fraction


class Unsupported(Exception):
    pass


def die(node, why):
    raise Unsupported('%s at line %s: %s' % (why, getattr(node, 'lineno', '?'), ast.dump(node)[:120]))


class Fn:
    def __init__(self, env, known):
        self.env = env      # name -> 'Z' | 'Q' | 'fun'
        self.known = known  # translated function names -> list of param kinds

    def num(self, f):
        f = Fraction(f)
        return '(%d # %d)' % (f.numerator, f.denominator)

    def expr(self, e):
        if isinstance(e, ast.Constant) and isinstance(e.value, int) and not isinstance(e.value, bool):
            return self.num(e.value)
        if isinstance(e, ast.Name):
            k = self.env.get(e.id)
            if k == 'Z':
                return '(inject_Z %s)' % e.id
            if k == 'Q':
                return e.id
            die(e, 'unknown name')
        if isinstance(e, ast.BinOp):
            if isinstance(e.op, ast.Pow):
                if isinstance(e.right, ast.Name) and self.env.get(e.right.id) == 'Z':
                    return '(py_pow %s %s)' % (self.expr(e.left), e.right.id)
                die(e, 'exponent must be an int parameter')
            ops = {ast.Add: '+', ast.Sub: '-', ast.Mult: '*'}
            if type(e.op) in ops:
                return '(%s %s %s)' % (self.expr(e.left), ops[type(e.op)], self.expr(e.right))
            die(e, 'operator')
        if isinstance(e, ast.IfExp):
            return '(if %s then %s else %s)' % (self.cond(e.test), self.expr(e.body), self.expr(e.orelse))
        if isinstance(e, ast.Call):
            if e.keywords:
                die(e, 'keyword arguments')
            fn = e.func
            if isinstance(fn, ast.Name):
                if fn.id == 'Fraction' and len(e.args) == 2:
                    return '(py_frac %s %s)' % (self.expr(e.args[0]), self.expr(e.args[1]))
                if fn.id == 'int' and len(e.args) == 1:
                    return '(py_int %s)' % self.expr(e.args[0])
                if fn.id == 'round' and len(e.args) == 1:
                    return '(py_round %s)' % self.expr(e.args[0])
                if fn.id == 'max' and len(e.args) == 2:
                    return '(py_max %s %s)' % (self.expr(e.args[0]), self.expr(e.args[1]))
                if fn.id in self.known and len(e.args) == len(self.known[fn.id]):
                    args = []
                    for a, kind in zip(e.args, self.known[fn.id]):
                        if kind == 'Z':
                            if isinstance(a, ast.Name) and self.env.get(a.id) == 'Z':
                                args.append(a.id)
                            else:
                                die(a, 'int argument must be an int parameter')
                        else:
                            args.append(self.expr(a))
                    return '(%s %s)' % (fn.id, ' '.join(args))
                if self.env.get(fn.id) == 'fun' and len(e.args) == 1 and isinstance(e.args[0], ast.Name) \
                        and self.env.get(e.args[0].id) == 'Z':
                    return '(%s %s)' % (fn.id, e.args[0].id)
            if isinstance(fn, ast.Attribute) and isinstance(fn.value, ast.Name) and fn.value.id == 'math' \
                    and fn.attr == 'ceil' and len(e.args) == 1:
                return '(py_ceil %s)' % self.expr(e.args[0])
            die(e, 'call')
        die(e, 'expression')

    def cond(self, c):
        if isinstance(c, ast.Compare) and len(c.ops) == 1:
            l, r, op = c.left, c.comparators[0], c.ops[0]
            # x.limit_denominator(2) == x
            if (isinstance(op, ast.Eq) and isinstance(l, ast.Call) and isinstance(l.func, ast.Attribute)
                    and l.func.attr == 'limit_denominator' and len(l.args) == 1
                    and isinstance(l.args[0], ast.Constant) and l.args[0].value == 2
                    and ast.dump(l.func.value) == ast.dump(r)):
                return '(py_den_le2 %s)' % self.expr(r)
            ops = {ast.Gt: 'py_gt', ast.GtE: 'py_ge', ast.Lt: 'py_lt', ast.LtE: 'py_le', ast.Eq: 'py_eq'}
            if type(op) in ops:
                return '(%s %s %s)' % (ops[type(op)], self.expr(l), self.expr(r))
        die(c, 'condition')

    def body(self, stmts):
        stmts = [s for s in stmts if not (isinstance(s, ast.Expr) and isinstance(s.value, ast.Constant)
                                          and isinstance(s.value.value, str))]
        if len(stmts) == 1 and isinstance(stmts[0], ast.Return) and stmts[0].value is not None:
            return self.expr(stmts[0].value)
        if len(stmts) == 1 and isinstance(stmts[0], ast.If) and stmts[0].orelse:
            s = stmts[0]
            return '(if %s then %s else %s)' % (self.cond(s.test), self.body(s.body), self.body(s.orelse))
        if len(stmts) == 2 and isinstance(stmts[0], ast.If) and not stmts[0].orelse:
            s = stmts[0]
            return '(if %s then %s else %s)' % (self.cond(s.test), self.body(s.body), self.body(stmts[1:]))
        die(stmts[0] if stmts else ast.Pass(), 'statement form')


def param_kinds(fd):
    kinds = []
    for a in fd.args.args:
        ann = ast.unparse(a.annotation) if a.annotation is not None else ''
        if ann == 'int':
            kinds.append((a.arg, 'Z'))
        elif ann in ('Fraction', 'Number', 'Decimal'):
            kinds.append((a.arg, 'Q'))
        elif ann.startswith('Callable[[int]'):
            kinds.append((a.arg, 'fun'))
        else:
            die(a, 'parameter annotation %r' % ann)
    if fd.args.vararg or fd.args.kwarg or fd.args.kwonlyargs:
        die(fd, 'parameter list')
    return kinds


def coq_params(kinds):
    t = {'Z': 'Z', 'Q': 'Q', 'fun': 'Z -> Q'}
    return ' '.join('(%s : %s)' % (n, t[k]) for n, k in kinds)


def translate_fn(fd, known):
    kinds = param_kinds(fd)
    # closure rule
    inner = [s for s in fd.body if isinstance(s, ast.FunctionDef)]
    if inner:
        if len(inner) != 1:
            die(fd, 'closures')
        rest = [s for s in fd.body if s is not inner[0] and not (isinstance(s, ast.Expr) and isinstance(s.value, ast.Constant))]
        # allowed: one isinstance-normalisation 'if not isinstance(p, (int, Fraction)): p = Fraction(*p.as_integer_ratio())'
        # and 'return inner'
        ret = rest[-1]
        if not (isinstance(ret, ast.Return) and isinstance(ret.value, ast.Name) and ret.value.id == inner[0].name):
            die(ret, 'closure must be returned')
        for s in rest[:-1]:
            src = ast.unparse(s).replace('\n', ' ').replace('  ', ' ')
            ok = False
            for n, k in kinds:
                if src == ('if not isinstance(%s, (int, Fraction)): %s = Fraction(*%s.as_integer_ratio())' % (n, n, n)).replace(':  ', ': '):
                    ok = True
            norm = ' '.join(src.split())
            for n, k in kinds:
                if norm == 'if not isinstance(%s, (int, Fraction)): %s = Fraction(*%s.as_integer_ratio())' % (n, n, n):
                    ok = True
            if not ok:
                die(s, 'statement in closure factory')
        ik = param_kinds(inner[0])
        env = dict(kinds)
        env.update(dict(ik))
        text = Fn(env, known).body(inner[0].body)
        return 'Definition %s %s %s : Q :=\n  %s.' % (fd.name, coq_params(kinds), coq_params(ik), text), \
               [k for _, k in kinds] + [k for _, k in ik]
    env = dict(kinds)
    text = Fn(env, known).body(fd.body)
    return 'Definition %s %s : Q :=\n  %s.' % (fd.name, coq_params(kinds), text), [k for _, k in kinds]


HEADER = '''(* GENERATED by tools/py2v.py from %s -- do not edit. *)
From Coq Require Import ZArith QArith.
From VL Require Import Prelude.PyNum.
Open Scope Q_scope.
'''


RANK_HEADER = '''(* GENERATED by tools/py2v.py from %s -- do not edit. *)
From Coq Require Import ZArith QArith List Bool.
From VL Require Import Prelude.PyDict Prelude.PyNum Prelude.PyList.
Import ListNotations.
Open Scope Q_scope.
'''


def deps(fd):
    return {n.id for n in ast.walk(fd) if isinstance(n, ast.Name)}


def translate_file(path, wanted, skip, module):
    tree = ast.parse(open(path).read())
    fds = {n.name: n for n in tree.body if isinstance(n, ast.FunctionDef)}
    out, status, known, done = [], {}, {}, []
    names = [n for n in fds if n not in skip]
    # dependency order
    order = []
    def visit(n, stack=()):
        if n in order or n not in fds or n in skip:
            return
        if n in stack:
            raise Unsupported('recursion in %s' % n)
        for d in deps(fds[n]):
            if d != n and d in fds:
                visit(d, stack + (n,))
        order.append(n)
    for n in names:
        visit(n)
    for n in order:
        try:
            text, kinds = translate_fn(fds[n], known)
            known[n] = kinds
            out.append(text)
            status[n] = 'ok'
        except Unsupported as e:
            status[n] = 'unsupported: %s' % e
    missing = [w for w in wanted if status.get(w) != 'ok']
    return (HEADER % module) + '\n' + '\n\n'.join(out) + '\n', status, missing


# ---------------------------------------------------------------- pairwise win scorers (dict -> dict over integer counts)
PW_HEADER = '''(* GENERATED by tools/py2v.py from %s -- do not edit. *)
From Coq Require Import ZArith List.
From VL Require Import Prelude.PyDict Model.Condorcet.
Open Scope Z_scope.
'''


class PwFn:
    """def f(counts: Dict[pair, Number]) -> Dict[pair, Number]:
         return counts | return {pair: E for pair, count in counts.items()}
       E ::= count | int literal | counts.get(tuple(reversed(pair)), 0) | E - E | E + E | (E if C else E) ; C ::= E (<|<=|>|>=|==) E"""

    def __init__(self, arg, key, val, kq, vq):
        self.arg, self.key, self.val, self.kq, self.vq = arg, key, val, kq, vq

    def expr(self, e):
        if isinstance(e, ast.Constant) and isinstance(e.value, int) and not isinstance(e.value, bool):
            return '(%d)' % e.value
        if isinstance(e, ast.Name) and e.id == self.val:
            return self.vq
        if isinstance(e, ast.BinOp) and type(e.op) in (ast.Sub, ast.Add):
            return '(%s %s %s)' % (self.expr(e.left), '-' if isinstance(e.op, ast.Sub) else '+', self.expr(e.right))
        if isinstance(e, ast.IfExp):
            return '(if %s then %s else %s)' % (self.cond(e.test), self.expr(e.body), self.expr(e.orelse))
        if isinstance(e, ast.Call) and ast.unparse(e) == '%s.get(tuple(reversed(%s)), 0)' % (self.arg, self.key):
            return '(pget0 %s (swap %s))' % (self.arg, self.kq)
        die(e, 'expression')

    def cond(self, c):
        if isinstance(c, ast.Compare) and len(c.ops) == 1:
            l, r, op = self.expr(c.left), self.expr(c.comparators[0]), c.ops[0]
            if isinstance(op, ast.Gt):
                return '(%s <? %s)' % (r, l)
            if isinstance(op, ast.GtE):
                return '(%s <=? %s)' % (r, l)
            if isinstance(op, ast.Lt):
                return '(%s <? %s)' % (l, r)
            if isinstance(op, ast.LtE):
                return '(%s <=? %s)' % (l, r)
            if isinstance(op, ast.Eq):
                return '(%s =? %s)' % (l, r)
        die(c, 'condition')


def translate_pairwin(path, wanted, module):
    tree = ast.parse(open(path).read())
    fds = {n.name: n for n in tree.body if isinstance(n, ast.FunctionDef)}
    out, status = [], {}
    for name in wanted:
        try:
            fd = fds.get(name)
            if fd is None:
                raise Unsupported('function %s not found' % name)
            if len(fd.args.args) != 1 or fd.args.vararg or fd.args.kwarg or fd.args.kwonlyargs:
                die(fd, 'parameter list')
            arg = fd.args.args[0].arg
            stmts = [x for x in fd.body if not (isinstance(x, ast.Expr) and isinstance(x.value, ast.Constant) and isinstance(x.value.value, str))]
            if len(stmts) != 1 or not isinstance(stmts[0], ast.Return):
                die(fd, 'body must be a single return')
            rv = stmts[0].value
            if isinstance(rv, ast.Name) and rv.id == arg:
                body = arg
            elif isinstance(rv, ast.DictComp) and len(rv.generators) == 1:
                g = rv.generators[0]
                if g.ifs or g.is_async or ast.unparse(g.iter) != '%s.items()' % arg or not isinstance(g.target, ast.Tuple) \
                        or len(g.target.elts) != 2 or not all(isinstance(x, ast.Name) for x in g.target.elts):
                    die(rv, 'comprehension generator')
                key, val = g.target.elts[0].id, g.target.elts[1].id
                kq, vq = 'k_' + key, 'v_' + val      # avoid clashes with Coq identifiers (pair)
                if not (isinstance(rv.key, ast.Name) and rv.key.id == key):
                    die(rv, 'comprehension key')
                body = 'map (fun kv : pair * Z => let %s := fst kv in let %s := snd kv in (%s, %s)) %s' % (
                    kq, vq, kq, PwFn(arg, key, val, kq, vq).expr(rv.value), arg)
            else:
                die(rv, 'return value')
            out.append('Definition %s (%s : pvotes) : pvotes :=\n  %s.' % (name, arg, body))
            status[name] = 'ok'
        except Unsupported as e:
            status[name] = 'unsupported: %s' % e
    missing = [w for w in wanted if status.get(w) != 'ok']
    return (PW_HEADER % module) + '\n' + '\n\n'.join(out) + '\n', status, missing


# ---------------------------------------------------------------- rank scorers (classes with a scores(n_ranked) method)
class _SelfAttr(ast.NodeTransformer):
    def visit_Attribute(self, node):
        if isinstance(node.value, ast.Name) and node.value.id == 'self':
            return ast.copy_location(ast.Name(id=node.attr, ctx=ast.Load()), node)
        return self.generic_visit(node)


def translate_rankscore(path, wanted, module):
    """class X(RankScorer): [def __init__(self, a: int [= d]): self.a = a]  def scores(self, n_ranked: int): return [E for rank in range(n_ranked)]
       -> Definition X_score (a : Z) (n_ranked : Z) (rank : Z) : Q := E   (one element of the list, as a function of the rank)"""
    tree = ast.parse(open(path).read())
    classes = {n.name: n for n in tree.body if isinstance(n, ast.ClassDef)}
    out, status = [], {}
    for name in wanted:
        try:
            cd = classes.get(name)
            if cd is None:
                raise Unsupported('class %s not found' % name)
            meths = {m.name: m for m in cd.body if isinstance(m, ast.FunctionDef)}
            attrs = []
            if '__init__' in meths:
                init = meths['__init__']
                for a in init.args.args[1:]:
                    if a.annotation is None or ast.unparse(a.annotation) != 'int':
                        die(a, 'constructor parameter must be annotated int')
                    attrs.append(a.arg)
                for st_ in init.body:
                    if isinstance(st_, ast.Expr) and isinstance(st_.value, ast.Constant):
                        continue
                    if not (isinstance(st_, ast.Assign) and len(st_.targets) == 1 and ast.unparse(st_.targets[0]) in ['self.' + a for a in attrs]
                            and isinstance(st_.value, ast.Name) and 'self.' + st_.value.id == ast.unparse(st_.targets[0])):
                        die(st_, 'constructor must only store its parameters')
            sc = meths.get('scores')
            if sc is None or [a.arg for a in sc.args.args] != ['self', 'n_ranked']:
                die(cd, 'scores(self, n_ranked)')
            stmts = [x for x in sc.body if not (isinstance(x, ast.Expr) and isinstance(x.value, ast.Constant) and isinstance(x.value.value, str))]
            if len(stmts) != 1 or not isinstance(stmts[0], ast.Return) or not isinstance(stmts[0].value, ast.ListComp):
                die(sc, 'scores must return one list comprehension')
            lc = stmts[0].value
            if len(lc.generators) != 1 or lc.generators[0].ifs or ast.unparse(lc.generators[0].iter) != 'range(n_ranked)' \
                    or not isinstance(lc.generators[0].target, ast.Name):
                die(lc, 'comprehension over range(n_ranked)')
            rank = lc.generators[0].target.id
            env = {a: 'Z' for a in attrs}
            env.update({'n_ranked': 'Z', rank: 'Z'})
            elt = _SelfAttr().visit(lc.elt)
            ast.fix_missing_locations(elt)
            text = Fn(env, {}).expr(elt)
            params = ' '.join('(%s : Z)' % a for a in attrs + ['n_ranked', rank])
            out.append('Definition %s_score %s : Q :=\n  %s.' % (name, params, text))
            status[name] = 'ok'
        except Unsupported as e:
            status[name] = 'unsupported: %s' % e
    missing = [w for w in wanted if status.get(w) != 'ok']
    return (HEADER % module) + '\n' + '\n\n'.join(out) + '\n', status, missing


# ---------------------------------------------------------------- typed method translator
# (evaluate/threshold.py, evaluate/approval.py QuotaSelector, evaluate/openlist.py jump test, rankscore.py Borda /
#  SequenceBased / select_padded).  Values carry a type; int is Z, every other number Q (ints are injected where a
#  rational is expected), lists are Coq lists, a votes dict is an association list.  Accepted subset:
#    stmt ::= x = e | self.a = e | x += e (x a fresh list) | return e | raise Exc(..) | if c: .. [else: ..]
#           | X = [] .. for v in e: ..; X.append(e)                              (-> map)
#           | D = {} [S = set()] .. for k, v in e.items(): if c: D[k] = v [else: S.add(k)]   (-> filter; S is dead)
#           | try: body except TypeError: raise RuntimeError(..)                 (-> body: typed values never raise TypeError)
#           | def f(..): ..   (only usable as the key of sorted())
#           | a, b = pair | x = None (start value of a loop variable only)
#           | x1 = e1 .. for t in e: <assignments / appends / ifs updating x1 ..>   (-> fold_left over e, see TX.for_fold)
#           | return f(..) for a translated raising function (tail call)
#    in a definition declared raising, l[i] (IndexError) and `n - x` with x possibly None (TypeError) are hoisted in evaluation order:
#    match <op> with Some v => <the statement and what follows> | None => inr <exception> end   (see TX.hoist)
#    e ::= int | name | self.a | e (+|-|*) e | l + l | l * e | not e | e and e | e or e | e (<|<=|>|>=|==|!=) e | e in l
#        | e if c else e | Fraction(e, e) | Fraction(e) | len(e) | sum(e.values()) | votelib.util.sorted_votes(e) | range(e) | max/min(e, e)
#        | e[:e] | [e, ..] | [e for x in e if c] | frozenset(e for x in e for y in e ..) | list(sorted(S, key=f)) (order dropped)
#        | f(e, ..) for a translated function of the unit or a function-typed name | p.evaluate(votes[, prev_gains=prev_gains])
#        | {k: e for x in e} | d.values() | d.get(k, e) | d[k] (k a key of d) | frozenset(l)
#        | c.attr / c.meth() for a candidate c and a declared observer ('obs:attr' parameter: the attribute as a function)
#        | x is (not) None as the test of an if statement, for a parameter declared optional
#        | sorted(l, key=operator.itemgetter(i) | lambda x: e, reverse=b) (numeric key: py_sorted) | d.items() | list(l) | list(reversed(l))
#        | l[::-1] | t[0] t[1] of a pair | l[i] | enumerate(l) as an iterable | Tie(l) | m.f(..) for a translated function of module m
#  Anything else raises Unsupported naming the node: the definition is marked failed (fail closed).
# atomic types are 'Z' 'Q' 'B' 'C' and lowercase words; compound types are tuples tagged 'L' 'S' 'U' 'O' 'P' 'F' (no overlap, so
# that ty[0] identifies a constructor also when ty is an atom)
T_Z, T_Q, T_B, T_C = 'Z', 'Q', 'B', 'C'


def TL(t):
    return ('L', t)


def TS(t):
    return ('S', t)          # a Python set carried as a list; only membership is meaningful


def TP(a, b):
    return ('P', a, b)


def TO(t):
    return ('O', t)          # a value that may be None; only usable after an `is (not) None` test


def TFUN(args, ret):
    return ('F', tuple(args), ret)


VOTES = TL(TP(T_C, T_Q))
T_SEL = TFUN([VOTES], TL(T_C))       # a seatless selector: its evaluate(votes)
T_STR = 'str'                         # a configuration string; only compared with literals
T_RES = 'res'                         # an item of a get_n_best selection: candidate or Tie (Model/GetNBest.v res)
T_PG = 'pg'                           # the prev_gains pass-through argument (never inspected by translated code)
EXN = {'ValueError': 'PyValueError', 'RuntimeError': 'PyRuntimeError', 'TypeError': 'PyTypeError', 'KeyError': 'PyKeyError',
       'IndexError': 'PyIndexError', 'ZeroDivisionError': 'PyZeroDivisionError', 'VotingSystemError': 'PyVotingSystemError',
       'NotImplementedError': 'PyNotImplementedError'}


def coq_type(t):
    if t == T_Z:
        return 'Z'
    if t == T_Q:
        return 'Q'
    if t == T_B:
        return 'bool'
    if t == T_C:
        return 'C'
    if t == T_PG:
        return 'unit'
    if t == T_STR:
        return 'String.string'
    if t == T_RES:
        return 'res C'
    if t[0] in ('L', 'S', 'U'):
        return 'list (%s)' % coq_type(t[1])
    if t[0] == 'O':
        return 'option (%s)' % coq_type(t[1])
    if t[0] == 'P':
        return '(%s * %s)' % (coq_type(t[1]), coq_type(t[2]))
    if t[0] == 'F':
        return '(%s)' % ' -> '.join([coq_type(a) for a in t[1]] + [coq_type(t[2])])
    raise Unsupported('type %r' % (t,))


def _is_doc(s):
    return isinstance(s, ast.Expr) and isinstance(s.value, ast.Constant) and isinstance(s.value.value, str)


def _terminates(stmts):
    """every path through stmts ends in return / raise"""
    stmts = [s for s in stmts if not _is_doc(s)]
    if not stmts:
        return False
    s = stmts[-1]
    if isinstance(s, (ast.Return, ast.Raise)):
        return True
    if isinstance(s, ast.If):
        return _terminates(s.body) and _terminates(s.orelse)
    if isinstance(s, ast.Try):
        return _terminates(s.body)
    return False


def _mentions(node, name):
    nodes = node if isinstance(node, list) else [node]
    return any(isinstance(n, ast.Name) and n.id == name for x in nodes for n in ast.walk(x))


class TX:
    """one translated definition.  env: python reference ('x' or 'self.a') -> (coq text, type)"""

    def __init__(self, known, raises):
        self.known = known        # translated functions of the unit: name -> dict(params=[(name, type, default text|None)], ret=type, raises=bool)
        self.raises = raises      # the definition returns value + pyexn
        self.ret_type = None
        self.notes = []
        self.fresh = set()        # python names bound to a freshly built list (safe to extend in place)
        self.reach = None         # 'reach' extraction: translate up to the assignment of this local (Some value); an earlier return gives None
        # operations that may raise inside an expression (list index -> IndexError, arithmetic on a value that may be None ->
        # TypeError) are hoisted, in evaluation order, in front of the statement that evaluates them:
        #   match <op> with Some v => <statement and everything after it> | None => inr <exception> end
        # pending is None where nothing may be hoisted (non-raising definition, conditionally evaluated subexpression, loop body)
        self.pending = [] if raises else None
        self.refine = []          # (python reference, coq name, type): an optional local proved not None by a hoisted test
        self.nhoist = 0
        self.in_fold = False      # inside the body of a loop translated as a fold: no return / raise / hoisted operation
        self.imports = set()      # dotted module names the source file imports with a plain `import a.b.c`
        self.module_names = {}    # name -> how the module binds it at top level ('class:frozenset', 'import', ..) when bound exactly once

    # ---- types
    def coerce(self, text, have, want, node):
        if have == want:
            return text
        if have == T_Z and want == T_Q:
            return '(inject_Z %s)' % text
        if have == TL(T_Z) and want == TL(T_Q):
            return '(map inject_Z %s)' % text
        if have == TL(T_C) and want == TL(T_RES):
            return '(map (@Cand C) %s)' % text      # a list of candidates where selection items (candidate | Tie) are expected
        die(node, 'type %s where %s is expected' % (have, want))

    # ---- operations that may raise inside an expression
    def hoist(self, term, exn, ty, node):
        if not self.raises:
            die(node, 'operation that may raise %s in a definition that is not declared raising' % exn)
        if self.pending is None:
            die(node, 'operation that may raise %s inside a conditionally evaluated expression or a loop body' % exn)
        self.nhoist += 1
        var = "e'h%d" % self.nhoist
        self.pending.append((var, term, exn))
        return var, ty

    def take(self):
        """the operations hoisted by the expression(s) just translated (the caller wraps its statement in them)"""
        hs = self.pending or []
        if self.pending is not None:
            self.pending = []
        return hs

    def refined(self, env):
        if self.refine:
            env = dict(env)
            for r, var, ty in self.refine:
                env[r] = (var, ty)
            self.refine = []
        return env

    @staticmethod
    def wraph(hs, text):
        for var, term, exn in reversed(hs):
            text = '(match %s with Some %s => %s | None => inr %s end)' % (term, var, text, exn)
        return text

    def quiet(self, f):
        """run f where nothing may be hoisted (conditionally / repeatedly evaluated code)"""
        saved, self.pending = self.pending, None
        try:
            return f()
        finally:
            self.pending = saved

    def unify(self, a, b, node):
        (ta, ya), (tb, yb) = a, b
        if ya == yb:
            return ta, tb, ya
        if {ya, yb} == {T_Z, T_Q}:
            return self.coerce(ta, ya, T_Q, node), self.coerce(tb, yb, T_Q, node), T_Q
        die(node, 'operand types %s / %s' % (ya, yb))

    def ref(self, e):
        if isinstance(e, ast.Name):
            return e.id
        if isinstance(e, ast.Attribute) and isinstance(e.value, ast.Name) and e.value.id == 'self':
            return 'self.' + e.attr
        return None

    def lookup(self, e, env):
        r = self.ref(e)
        if r is None or r not in env:
            die(e, 'unknown name')
        text, ty = env[r]
        if not isinstance(ty, (str, tuple)) or ty in ('EMPTYLIST', 'EMPTYDICT', 'EMPTYSET', 'DEAD', 'KEYFN', 'NONE'):
            die(e, 'name %s (%s) cannot be used as a value here' % (r, ty))
        if ty[0] == 'O':
            die(e, 'name %s may be None here (test it with `is not None` first)' % r)
        return text, ty

    def arith_operand(self, node, x, other, env):
        """operand x of the arithmetic node: a local that may be None makes `+ - *` with a number raise TypeError - the test is
           hoisted (and the local is known not to be None afterwards); the other operand must be a plain reference / literal so
           that nothing else is evaluated in between"""
        r = self.ref(x)
        if (r is not None and r in env and isinstance(env[r][1], tuple) and env[r][1][0] == 'O' and env[r][1][1] in (T_Z, T_Q)
                and isinstance(node.op, (ast.Add, ast.Sub, ast.Mult)) and self.raises and self.pending is not None):
            simple = (self.ref(other) is not None and self.ref(other) in env) or (
                isinstance(other, ast.Constant) and isinstance(other.value, int) and not isinstance(other.value, bool))
            if not simple:
                die(node, 'arithmetic on %s, which may be None, with an operand that is not a plain reference' % r)
            if self.ref(other) is not None:
                oty = env[self.ref(other)][1]
                if not (oty in (T_Z, T_Q) or (isinstance(oty, tuple) and oty[0] == 'O' and oty[1] in (T_Z, T_Q))):
                    die(node, 'arithmetic on %s, which may be None, with a %s' % (r, oty))
            var, ty = self.hoist(env[r][0], 'PyTypeError', env[r][1][1], node)
            self.refine.append((r, var, ty))
            return var, ty
        return self.expr(x, env)

    # ---- expressions
    def expr(self, e, env):
        if isinstance(e, (ast.DictComp, ast.BoolOp, ast.IfExp, ast.ListComp)) and self.pending is not None:
            return self.quiet(lambda: self.expr(e, env))      # parts of these are evaluated conditionally / repeatedly
        if isinstance(e, ast.Constant):
            if isinstance(e.value, bool):
                return ('true' if e.value else 'false'), T_B
            if isinstance(e.value, int):
                return '(%d)%%Z' % e.value, T_Z
            if isinstance(e.value, str) and re.fullmatch(r'[A-Za-z0-9_ .-]*', e.value):
                return '"%s"%%string' % e.value, T_STR
            die(e, 'constant')
        if self.ref(e) is not None:
            return self.lookup(e, env)
        if isinstance(e, ast.Attribute) and ('obs:' + e.attr) in env:
            v = self.expr(e.value, env)
            f = env['obs:' + e.attr]
            if f[1][0] == 'F' and f[1][1] == (v[1],):
                return '(%s %s)' % (f[0], v[0]), f[1][2]
            die(e, 'observer %s of a %s' % (e.attr, v[1]))
        if isinstance(e, ast.DictComp):
            # {k: v for t in it}: dict(pairs) - a later pair with an equal key replaces the value in place (py_dict_c / py_dict_z)
            if len(e.generators) != 1 or e.generators[0].ifs or e.generators[0].is_async:
                die(e, 'dictionary comprehension form')
            g = e.generators[0]
            it, ety = self.iterable(g.iter, env)
            env2, pre = self.bind_target(g.target, 'it_', ety, env, e)
            k, v = self.expr(e.key, env2), self.expr(e.value, env2)
            if k[1] not in (T_C, T_Z):
                die(e, 'dictionary keyed by a %s' % (k[1],))
            dty = TP(k[1], v[1])
            # built from a set: the insertion order is arbitrary - only lookups (d[k], d.get) are meaningful ('U')
            return ('(py_dict_%s (map (fun it_ => %s(%s, %s)) %s))' % ('c' if k[1] == T_C else 'z', pre, k[0], v[0], it),
                    ('U', dty) if self.is_unordered(g.iter, env) else TL(dty))
        if isinstance(e, ast.BinOp):
            a, b = self.arith_operand(e, e.left, e.right, env), self.arith_operand(e, e.right, e.left, env)
            if isinstance(e.op, ast.Add) and a[1][0] == 'L' and a[1] == b[1]:
                return '(%s ++ %s)' % (a[0], b[0]), a[1]
            if isinstance(e.op, ast.Add) and {a[1], b[1]} == {TL(T_C), TL(T_RES)}:
                return '(%s ++ %s)' % (self.coerce(a[0], a[1], TL(T_RES), e), self.coerce(b[0], b[1], TL(T_RES), e)), TL(T_RES)
            if isinstance(e.op, ast.Mult) and a[1][0] == 'L' and b[1] == T_Z:
                return '(py_list_mul %s %s)' % (a[0], b[0]), a[1]
            ops = {ast.Add: '+', ast.Sub: '-', ast.Mult: '*'}
            if type(e.op) in ops and a[1] in (T_Z, T_Q) and b[1] in (T_Z, T_Q):
                ta, tb, ty = self.unify(a, b, e)
                return '(%s %s %s)%%%s' % (ta, ops[type(e.op)], tb, ty), ty
            die(e, 'operator %s on %s / %s' % (type(e.op).__name__, a[1], b[1]))
        if isinstance(e, ast.UnaryOp):
            if isinstance(e.op, ast.Not):
                return '(negb %s)' % self.cond(e.operand, env), T_B
            if isinstance(e.op, ast.USub):
                a = self.expr(e.operand, env)
                if a[1] in (T_Z, T_Q):
                    return '(- %s)%%%s' % (a[0], a[1]), a[1]
            die(e, 'unary operator')
        if isinstance(e, ast.BoolOp):
            parts = [self.cond(v, env) for v in e.values]
            op = ' && ' if isinstance(e.op, ast.And) else ' || '
            # python: 'and' binds tighter than 'or', the ast is already nested; both are left-to-right
            return '(%s)' % op.join(parts), T_B
        if isinstance(e, ast.Compare):
            if len(e.ops) != 1:
                die(e, 'chained comparison')
            op = e.ops[0]
            a, b = self.expr(e.left, env), self.expr(e.comparators[0], env)
            if isinstance(op, (ast.In, ast.NotIn)):
                if a[1] == T_C and b[1] in (TL(T_C), TS(T_C)):
                    t = '(cmem %s %s)' % (a[0], b[0])
                    return (t if isinstance(op, ast.In) else '(negb %s)' % t), T_B
                die(e, 'membership test on %s / %s' % (a[1], b[1]))
            if a[1] == T_STR and b[1] == T_STR and isinstance(op, (ast.Eq, ast.NotEq)):
                t = '(String.eqb %s %s)' % (a[0], b[0])
                return (t if isinstance(op, ast.Eq) else '(negb %s)' % t), T_B
            if a[1] not in (T_Z, T_Q) or b[1] not in (T_Z, T_Q):
                die(e, 'comparison of %s / %s' % (a[1], b[1]))
            ta, tb, ty = self.unify(a, b, e)
            if ty == T_Z:
                forms = {ast.Gt: '(%s <? %s)%%Z' % (tb, ta), ast.GtE: '(%s <=? %s)%%Z' % (tb, ta), ast.Lt: '(%s <? %s)%%Z' % (ta, tb),
                         ast.LtE: '(%s <=? %s)%%Z' % (ta, tb), ast.Eq: '(%s =? %s)%%Z' % (ta, tb),
                         ast.NotEq: '(negb (%s =? %s)%%Z)' % (ta, tb)}
            else:
                forms = {ast.Gt: '(py_gt %s %s)' % (ta, tb), ast.GtE: '(py_ge %s %s)' % (ta, tb), ast.Lt: '(py_lt %s %s)' % (ta, tb),
                         ast.LtE: '(py_le %s %s)' % (ta, tb), ast.Eq: '(py_eq %s %s)' % (ta, tb),
                         ast.NotEq: '(negb (py_eq %s %s))' % (ta, tb)}
            if type(op) not in forms:
                die(e, 'comparison operator')
            return forms[type(op)], T_B
        if isinstance(e, ast.IfExp):
            c = self.cond(e.test, env)
            ta, tb, ty = self.unify(self.expr(e.body, env), self.expr(e.orelse, env), e)
            return '(if %s then %s else %s)' % (c, ta, tb), ty
        if isinstance(e, ast.Subscript):
            sl = e.slice
            if isinstance(sl, ast.Slice) and sl.lower is None and sl.step is None and sl.upper is not None:
                a, n = self.expr(e.value, env), self.expr(sl.upper, env)
                if a[1][0] == 'L' and n[1] == T_Z:
                    return '(py_slice_to %s %s)' % (a[0], n[0]), a[1]
            if isinstance(sl, ast.Slice) and sl.lower is None and sl.upper is None and ast.unparse(sl.step or ast.Constant(value=1)) == '-1':
                a = self.expr(e.value, env)
                if a[1][0] == 'L':
                    return '(rev %s)' % a[0], a[1]            # l[::-1]
            if not isinstance(sl, ast.Slice):
                a = self.expr(e.value, env)
                # t[0] / t[1] of a pair
                if a[1][0] == 'P' and isinstance(sl, ast.Constant) and sl.value in (0, 1) and not isinstance(sl.value, bool):
                    return '(%s %s)' % ('snd' if sl.value else 'fst', a[0]), a[1][2 if sl.value else 1]
                k = self.expr(sl, env)
                # l[i] of a list with an int i (negative i from the end; IndexError out of range: hoisted).  A list of pairs
                # whose first component is an int is read as a dictionary below, as before.
                if a[1][0] == 'L' and k[1] == T_Z and not (a[1][1][0] == 'P' and a[1][1][1] == T_Z):
                    return self.hoist('(py_index %s %s)' % (a[0], k[0]), 'PyIndexError', a[1][1], e)
                if a[1][0] in ('L', 'U') and a[1][1][0] == 'P' and a[1][1][1] == k[1] and k[1] in (T_C, T_Z):
                    vt = a[1][1][2]
                    if vt[0] in ('L', 'S'):
                        dflt = '[]'
                    elif vt == T_Z:
                        dflt = '0%Z'
                    elif vt == T_Q:
                        dflt = '0%Q'
                    else:
                        die(e, 'subscript of a dictionary of %s' % (vt,))
                    # d[k] with k a key of d (KeyError otherwise: a side condition, like b <> 0 for py_frac)
                    return '(py_getitem_%s %s %s %s)' % ('c' if k[1] == T_C else 'z', a[0], k[0], dflt), vt
            die(e, 'subscript')
        if isinstance(e, ast.List):
            if not e.elts:
                die(e, 'empty list outside an accumulation pattern')
            items = [self.expr(x, env) for x in e.elts]
            ty = items[0][1]
            for it in items[1:]:
                if it[1] != ty:
                    if {it[1], ty} == {T_Z, T_Q}:
                        ty = T_Q
                    else:
                        die(e, 'list item types')
            return '[%s]' % '; '.join(self.coerce(t, y, ty, e) for t, y in items), TL(ty)
        if isinstance(e, ast.ListComp):
            t = self.comp(e.elt, e.generators, env, e)
            return t, self._comp_type
        if isinstance(e, ast.Call):
            return self.call(e, env)
        die(e, 'expression')

    def cond(self, e, env):
        t, ty = self.expr(e, env)
        if ty[0] == 'L':
            return '(0 <? py_len %s)%%Z' % t          # truth value of a list: non-empty
        if ty != T_B:
            die(e, 'truth value of a %s' % (ty,))      # python truthiness of numbers / lists is not translated
        return t

    def bind_target(self, target, var, elt_type, env, node):
        """bind a comprehension / loop target to the items of an iterable; returns (env', prefix of lets)"""
        env = dict(env)
        if isinstance(target, ast.Name):
            nm = self.newname(env, target.id)
            env[target.id] = (nm, elt_type)
            return env, 'let %s := %s in ' % (nm, var)
        if isinstance(target, ast.Tuple) and len(target.elts) == 2 and all(isinstance(x, (ast.Name, ast.Tuple)) for x in target.elts) \
                and elt_type[0] == 'P':
            pre = ''
            for x, proj, ty in ((target.elts[0], 'fst', elt_type[1]), (target.elts[1], 'snd', elt_type[2])):
                if isinstance(x, ast.Tuple):
                    env, p2 = self.bind_target(x, '(%s %s)' % (proj, var), ty, env, node)     # for i, (a, b) in ..
                    pre += p2
                elif x.id != '_':
                    nm = self.newname(env, x.id)
                    env[x.id] = (nm, ty)
                    pre += 'let %s := %s %s in ' % (nm, proj, var)
            return env, pre
        die(node, 'loop target')

    # Coq keywords and every global name the translator emits: a Python variable with such a name is renamed
    RESERVED = {'at', 'as', 'in', 'if', 'then', 'else', 'fun', 'let', 'match', 'with', 'end', 'fix', 'cofix', 'forall', 'exists',
                'Type', 'Prop', 'Set', 'return', 'where', 'for', 'using', 'pair', 'fst', 'snd', 'map', 'filter', 'flat_map', 'list',
                'nat', 'Z', 'Q', 'C', 'cons', 'nil', 'bool', 'true', 'false', 'inl', 'inr', 'sum', 'seq', 'repeat', 'length', 'app',
                'Some', 'None', 'option', 'negb', 'andb', 'orb', 'inject_Z', 'cmem', 'sort_desc', 'Qle_bool', 'get_n_best', 'res',
                'unit', 'tt', 'String', 'string', 'pyexn', 'it_', 'st_', 'rev', 'fold_left', 'Cand', 'TieR', 'Gen', 'combine', 'nth_error',
                'firstn', 'concat', 'eqv', 'sort_asc', 'insert_desc', 'insert_asc', 'first_eq_index'}

    def ident(self, name):
        """Coq identifier for a Python name: injective (a name that had to be changed carries a quote, which no Python
           identifier contains)"""
        k = len(name) - len(name.lstrip('_'))
        base = name.lstrip('_') or 'x'
        if not re.fullmatch(r'[A-Za-z][A-Za-z0-9_]*', base):
            raise Unsupported('identifier %r' % name)
        if k:
            return "%s'u%d" % (base, k)
        if base in self.RESERVED or re.fullmatch(r'py_.*|Py.*|it\d*_', base) or base in {v['coq'] for v in self.known.values()}:
            return base + "'"
        return base

    def newname(self, env, ref):
        """name for a new binding of the Python reference `ref`: never captures another reference that is still in scope"""
        base = self.ident(ref.replace('self.', 'self_'))
        used = {t for r2, (t, _) in env.items() if r2 != ref and isinstance(t, str)}
        nm, n = base, 0
        while nm in used:
            n += 1
            nm = "%s'%d" % (base, n)
        return nm

    def iterable(self, e, env):
        """(coq list text, element type) of something iterated over"""
        if isinstance(e, ast.Call) and isinstance(e.func, ast.Attribute) and e.func.attr == 'items' and not e.args and not e.keywords:
            t, ty = self.expr(e.func.value, env)
            if ty[0] in ('L', 'U') and ty[1][0] == 'P':
                return t, ty[1]
            die(e, '.items() of a %s' % (ty,))
        if isinstance(e, ast.Call) and isinstance(e.func, ast.Name) and e.func.id == 'enumerate' and len(e.args) == 1 and not e.keywords \
                and not isinstance(e.args[0], ast.Starred):
            self.builtin('enumerate', e, env)
            t, ty = self.expr(e.args[0], env)
            if ty[0] == 'L':
                return '(py_enumerate %s)' % t, TP(T_Z, ty[1])
            die(e, 'enumerate of a %s' % (ty,))
        t, ty = self.expr(e, env)
        if ty[0] in ('L', 'S'):
            return t, ty[1]
        die(e, 'iteration over a %s' % (ty,))

    def builtin(self, name, node, env):
        """the name is the builtin: not a local here, never bound by the module"""
        if name in env or self.module_names.get(name) is not None:
            die(node, 'the name %s is bound by the source, the translator reads it as the builtin' % name)

    def known_call(self, k, e, env, tail):
        """call of a translated function (arguments by position, defaults from the source)"""
        if e.keywords or len(e.args) > len(k['params']):
            die(e, 'argument list of %s' % k['coq'])
        out = []
        for i, (pn, pt, pd) in enumerate(k['params']):
            if i < len(e.args):
                a = self.expr(e.args[i], env)
                out.append(self.coerce(a[0], a[1], pt, e))
            elif pd is not None:
                out.append(pd)
            else:
                die(e, 'missing argument %s' % pn)
        if k['raises'] and not tail:
            die(e, 'call of a raising function inside an expression')
        return '(%s %s)' % (k['coq'], ' '.join(out)), k['ret']

    def tail_call(self, e):
        """the translated raising function that `return f(..)` hands over to, or None"""
        if isinstance(e, ast.Call) and self.raises:
            nm = ast.unparse(e.func)
            k = self.known.get(nm)
            if k is not None and k['raises'] and (k.get('module') is not None or isinstance(e.func, ast.Name)):
                return k
        return None

    def sort_key(self, kn, ety, env):
        """key= of sorted(): operator.itemgetter(0|1) or a one-argument lambda -> (coq function, key type)"""
        if isinstance(kn, ast.Call) and ast.unparse(kn.func) == 'operator.itemgetter' and len(kn.args) == 1 and not kn.keywords \
                and isinstance(kn.args[0], ast.Constant) and kn.args[0].value in (0, 1) and not isinstance(kn.args[0].value, bool):
            if 'operator' in env or self.module_names.get('operator') != 'import':
                die(kn, 'the name operator is not the plain import of the operator module')
            if ety[0] != 'P':
                die(kn, 'itemgetter on a %s' % (ety,))
            i = kn.args[0].value
            return '(@%s %s %s)' % ('snd' if i else 'fst', coq_type(ety[1]), coq_type(ety[2])), ety[2 if i else 1]
        if isinstance(kn, ast.Lambda):
            a = kn.args
            if len(a.args) != 1 or a.posonlyargs or a.kwonlyargs or a.vararg or a.kwarg or a.defaults:
                die(kn, 'sort key lambda must take one argument')
            env2 = dict(env)
            nm = self.newname(env2, a.args[0].arg)
            env2[a.args[0].arg] = (nm, ety)
            t, ty = self.quiet(lambda: self.expr(kn.body, env2))
            return '(fun %s : %s => %s)' % (nm, coq_type(ety), t), ty
        return None

    _comp_type = None

    def comp(self, elt, generators, env, node, depth=0):
        """[elt for t in it if c ..] -> map (fun x => elt) (filter (fun x => c) it) ; several generators -> flat_map"""
        g = generators[0]
        if g.is_async:
            die(node, 'async comprehension')
        it, ety = self.iterable(g.iter, env)
        var = 'it%d_' % depth if depth else 'it_'
        env2, pre = self.bind_target(g.target, var, ety, env, node)
        src = it
        if g.ifs:
            c = ' && '.join(self.cond(x, env2) for x in g.ifs)
            src = '(filter (fun %s => %s%s) %s)' % (var, pre, c if len(g.ifs) == 1 else '(%s)' % c, it)
        unordered = self.is_unordered(g.iter, env)
        if len(generators) == 1:
            t, ty = self.expr(elt, env2)
            self._comp_type = TS(ty) if unordered else TL(ty)
            return '(map (fun %s => %s%s) %s)' % (var, pre, t, src)
        inner = self.comp(elt, generators[1:], env2, node, depth + 1)
        if unordered:
            self._comp_type = TS(self._comp_type[1])
        return '(flat_map (fun %s => %s%s) %s)' % (var, pre, inner, src)

    def is_unordered(self, it, env):
        """the iterable is a set (or an unordered dictionary): its iteration order is not translated"""
        try:
            if isinstance(it, ast.Call) and isinstance(it.func, ast.Attribute) and it.func.attr in ('items', 'values', 'keys'):
                ty = self.expr(it.func.value, env)[1]
            else:
                ty = self.expr(it, env)[1]
        except Unsupported:
            return False
        return ty[0] in ('S', 'U')

    def call(self, e, env):
        fn = e.func
        name = ast.unparse(fn)
        kw = {k.arg: k.value for k in e.keywords}
        if None in kw:
            die(e, '** arguments')
        args = e.args
        if any(isinstance(a, ast.Starred) for a in args):
            die(e, '* arguments')
        # a translated function of ANOTHER module, called by its dotted name (the module must be imported plainly)
        if name in self.known and self.known[name].get('module') is not None:
            k = self.known[name]
            if k['module'] not in self.imports or name.split('.')[0] in env:
                die(e, 'the source does not reach %s through a plain `import %s`' % (name, k['module']))
            return self.known_call(k, e, env, False)
        # Tie(l): the tie object of votelib.evaluate.core (a frozenset: carried as the list it is built from)
        if name == 'Tie' and self.module_names.get('Tie') == 'class:frozenset' and 'Tie' not in env and len(args) == 1 and not kw:
            a = self.expr(args[0], env)
            if a[1] in (TL(T_C), TS(T_C)):
                return '(TieR %s)' % a[0], T_RES
            die(e, 'Tie of a %s' % (a[1],))
        # d.items() of an ordered dictionary as a value: the list of its pairs
        if isinstance(fn, ast.Attribute) and fn.attr == 'items' and not args and not kw:
            a = self.expr(fn.value, env)
            if a[1][0] == 'L' and a[1][1][0] == 'P':
                return a
            die(e, '.items() of a %s' % (a[1],))
        # sorted(l, key=operator.itemgetter(i) | lambda, reverse=b) with a numeric key: stable, CPython's reading of reverse
        if name == 'sorted' and len(args) == 1 and set(kw) <= {'key', 'reverse'} and 'key' in kw \
                and (isinstance(kw['key'], ast.Lambda) or (isinstance(kw['key'], ast.Call) and ast.unparse(kw['key'].func) == 'operator.itemgetter')):
            a = self.expr(args[0], env)
            if a[1][0] != 'L':
                die(e, 'sorted (with a key) of a %s' % (a[1],))
            kf, kty = self.sort_key(kw['key'], a[1][1], env)
            if kty not in (T_Q, T_Z):
                die(e, 'sort key of type %s' % (kty,))
            rv = ('false', T_B)
            if 'reverse' in kw:
                rv = self.expr(kw['reverse'], env)
                if rv[1] != T_B:
                    die(e, 'reverse= of type %s' % (rv[1],))
            return '(py_sorted %s %s %s %s)' % (kf, 'Qle_bool' if kty == T_Q else 'Z.leb', a[0], rv[0]), a[1]
        if name == 'Fraction' and len(args) == 2 and not kw:
            a, b = self.expr(args[0], env), self.expr(args[1], env)
            return '(py_frac %s %s)' % (self.coerce(a[0], a[1], T_Q, e), self.coerce(b[0], b[1], T_Q, e)), T_Q
        if name == 'Fraction' and len(args) == 1 and not kw:
            # Fraction(x) of a number (int, Fraction, Decimal - typed Z / Q here) is that number, exactly
            a = self.expr(args[0], env)
            return self.coerce(a[0], a[1], T_Q, e), T_Q
        if name == 'len' and len(args) == 1 and not kw:
            a = self.expr(args[0], env)
            if a[1][0] == 'L':
                return '(py_len %s)' % a[0], T_Z
            die(e, 'len of a %s' % (a[1],))
        if name == 'sum' and len(args) == 1 and not kw and isinstance(args[0], ast.Call) and isinstance(args[0].func, ast.Attribute) \
                and args[0].func.attr == 'values' and not args[0].args and not args[0].keywords:
            a = self.expr(args[0].func.value, env)
            if a[1][0] == 'L' and a[1][1][0] == 'P' and a[1][1][2] == T_Q:
                return '(py_sum_values %s)' % a[0], T_Q
            die(e, 'sum of the values of a %s' % (a[1],))
        if name == 'votelib.util.sorted_votes' and len(args) == 1 and not kw:
            a = self.expr(args[0], env)
            if a[1] == VOTES:
                return '(sort_desc Qle_bool %s)' % a[0], VOTES
            die(e, 'sorted_votes of a %s' % (a[1],))
        if name == 'votelib.evaluate.core.get_n_best' and len(args) == 2 and not kw:
            a, n = self.expr(args[0], env), self.expr(args[1], env)
            if a[1] == VOTES and n[1] == T_Z:
                return '(get_n_best Qle_bool %s (Z.to_nat %s))' % (a[0], n[0]), TL(T_RES)
            die(e, 'get_n_best of a %s / %s' % (a[1], n[1]))
        if name == 'range' and len(args) == 1 and not kw:
            a = self.expr(args[0], env)
            if a[1] == T_Z:
                return '(py_range %s)' % a[0], TL(T_Z)
            die(e, 'range of a %s' % (a[1],))
        if name in ('max', 'min') and len(args) == 2 and not kw:
            ta, tb, ty = self.unify(self.expr(args[0], env), self.expr(args[1], env), e)
            if ty == T_Z:
                return '(Z.%s %s %s)' % (name, ta, tb), T_Z
            if ty == T_Q:
                return '(py_%s %s %s)' % (name, ta, tb), T_Q
            die(e, '%s of %s' % (name, ty))
        if len(args) == 1 and not kw and (name in ('max', 'min') or (
                isinstance(fn, ast.IfExp) and {ast.unparse(fn.body), ast.unparse(fn.orelse)} <= {'max', 'min'})):
            a = self.expr(args[0], env)
            if a[1] != TL(T_Q):
                die(e, 'max / min of a %s' % (a[1],))
            if isinstance(fn, ast.IfExp):
                return '(if %s then (py_%s_list %s) else (py_%s_list %s))' % (
                    self.cond(fn.test, env), ast.unparse(fn.body), a[0], ast.unparse(fn.orelse), a[0]), T_Q
            return '(py_%s_list %s)' % (name, a[0]), T_Q
        if name in ('frozenset', 'set') and len(args) == 1 and not kw and isinstance(args[0], ast.GeneratorExp):
            t = self.quiet(lambda: self.comp(args[0].elt, args[0].generators, env, e))
            return t, TS(self._comp_type[1])
        # list(sorted(S, key=f)) / sorted(S, key=f): a permutation of S; the order is NOT translated (result typed as a set)
        if name == 'list' and len(args) == 1 and not kw and isinstance(args[0], ast.Call) and ast.unparse(args[0].func) == 'sorted':
            return self.call(args[0], env)
        if name == 'list' and len(args) == 1 and not kw and isinstance(args[0], ast.Call) and isinstance(args[0].func, ast.Name) \
                and args[0].func.id == 'reversed' and len(args[0].args) == 1 and not args[0].keywords:
            self.builtin('reversed', e, env)
            a = self.expr(args[0].args[0], env)
            if a[1][0] == 'L':
                return '(rev %s)' % a[0], a[1]      # list(reversed(l))
            die(e, 'reversed of a %s' % (a[1],))
        if name == 'list' and len(args) == 1 and not kw:
            a = self.expr(args[0], env)
            if a[1][0] == 'L':
                return a             # list(l) of a list: a copy
            die(e, 'list of a %s' % (a[1],))
        if name == 'sorted' and len(args) == 1 and set(kw) <= {'key', 'reverse'}:
            a = self.expr(args[0], env)
            if 'key' in kw:
                k = self.ref(kw['key'])
                if k is None or env.get(k, (None, None))[1] != 'KEYFN':
                    die(e, 'sort key must be a local function')
            if a[1][0] in ('L', 'S'):
                self.notes.append('sorted(..) at line %d translated as a permutation (order dropped, result compared as a set)' % e.lineno)
                return a[0], TS(a[1][1])
            die(e, 'sorted of a %s' % (a[1],))
        if isinstance(fn, ast.Attribute) and ('obs:' + fn.attr) in env and not args and not kw:
            v = self.expr(fn.value, env)
            f = env['obs:' + fn.attr]
            if f[1][0] == 'F' and f[1][1] == (v[1],):
                return '(%s %s)' % (f[0], v[0]), f[1][2]
            die(e, 'observer %s of a %s' % (fn.attr, v[1]))
        if isinstance(fn, ast.Attribute) and fn.attr == 'values' and not args and not kw:
            a = self.expr(fn.value, env)
            if a[1][0] in ('L', 'U') and a[1][1][0] == 'P':
                return '(map snd %s)' % a[0], (TL if a[1][0] == 'L' else TS)(a[1][1][2])
            die(e, 'values of a %s' % (a[1],))
        if isinstance(fn, ast.Attribute) and fn.attr == 'get' and len(args) == 2 and not kw:
            a, k, dv = self.expr(fn.value, env), self.expr(args[0], env), self.expr(args[1], env)
            if a[1][0] in ('L', 'U') and a[1][1][0] == 'P' and a[1][1][1] == k[1] and k[1] in (T_C, T_Z) and a[1][1][2] == dv[1]:
                return '(py_get_%s %s %s %s)' % ('c' if k[1] == T_C else 'z', a[0], k[0], dv[0]), dv[1]
            die(e, 'get on a %s with a %s key and a %s default' % (a[1], k[1], dv[1]))
        if name in ('frozenset', 'set') and len(args) == 1 and not kw and not isinstance(args[0], ast.GeneratorExp):
            a = self.expr(args[0], env)
            if a[1][0] in ('L', 'S'):
                return a[0], TS(a[1][1])
            die(e, 'set of a %s' % (a[1],))
        # selector.evaluate(votes[, prev_gains=prev_gains])
        if isinstance(fn, ast.Attribute) and fn.attr == 'evaluate':
            f = self.expr(fn.value, env)
            if f[1] == T_SEL and len(args) == 1 and set(kw) <= {'prev_gains'}:
                v = self.expr(args[0], env)
                if v[1] != VOTES:
                    die(e, 'selector applied to a %s' % (v[1],))
                if 'prev_gains' in kw:
                    pg = self.expr(kw['prev_gains'], env)
                    if pg[1] != T_PG:
                        die(e, 'prev_gains keyword must pass the prev_gains argument through')
                    self.notes.append('prev_gains pass-through at line %d dropped (the modelled selectors do not read it)' % e.lineno)
                return '(%s %s)' % (f[0], v[0]), TL(T_C)
            die(e, 'evaluate call')
        # translated function of this unit
        if isinstance(fn, ast.Name) and fn.id in self.known and fn.id not in env:
            return self.known_call(self.known[fn.id], e, env, False)
        # function-typed name / attribute
        if self.ref(fn) is not None and not kw:
            f = self.lookup(fn, env)
            if f[1][0] == 'F' and len(f[1][1]) == len(args):
                out = []
                for a, pt in zip(args, f[1][1]):
                    x = self.expr(a, env)
                    out.append(self.coerce(x[0], x[1], pt, e))
                return '(%s %s)' % (f[0], ' '.join(out)), f[1][2]
        die(e, 'call')

    # ---- statements
    def wrap(self, text):
        return '(inl %s)' % text if self.raises else text

    def finish(self, e, env):
        t, ty = self.expr(e, env)
        if self.ret_type is not None:
            if ty[0] == 'S' and self.ret_type[0] == 'S' and ty[1] == self.ret_type[1]:
                pass
            else:
                t = self.coerce(t, ty, self.ret_type, e)
        else:
            self.ret_type = ty
        return self.wrap(t)

    def block(self, stmts, env, final):
        stmts = [s for s in stmts if not _is_doc(s)]
        if not stmts:
            if final is None:
                die(ast.Pass(), 'control falls off the end of the function')
            return final(env)
        s, rest = stmts[0], stmts[1:]
        if isinstance(s, ast.Return):
            if rest:
                die(s, 'return form')
            if self.reach is not None:
                return 'None'            # the function returns before the extracted local is assigned
            if s.value is None:
                die(s, 'return form')
            if self.in_fold:
                die(s, 'return inside a loop')
            k = self.tail_call(s.value)
            if k is not None:
                # return f(..) of a translated raising function: its result (value or exception) is the result
                if k.get('module') is not None and (k['module'] not in self.imports or ast.unparse(s.value.func).split('.')[0] in env):
                    die(s, 'the source does not reach %s through a plain import' % ast.unparse(s.value.func))
                if k.get('module') is None and s.value.func.id in env:
                    die(s, 'local name %s shadows the translated function' % s.value.func.id)
                t, ty = self.known_call(k, s.value, env, True)
                if self.ret_type is None:
                    self.ret_type = ty
                elif ty != self.ret_type:
                    die(s, 'result type %s of the called function where %s is expected' % (ty, self.ret_type))
                return self.wraph(self.take(), t)
            t = self.finish(s.value, env)
            return self.wraph(self.take(), t)
        ap = self.append_stmt(s)
        if ap is not None:
            r, item = ap
            if r not in env:
                die(s, 'unknown name')
            env = dict(env)
            t, ty = self.expr(item, env)
            hs = self.take()
            env = self.refined(env)
            nm = self.newname(env, r)
            if env[r][1] == 'EMPTYLIST':
                env[r] = (nm, TL(ty))
                self.fresh.add(r)
                return self.wraph(hs, 'let %s := [%s] in\n  %s' % (nm, t, self.block(rest, env, final)))
            cur = self.lookup(s.value.func.value, env)
            if cur[1][0] != 'L' or r not in self.fresh:
                die(s, 'append to a list that may be shared with the caller')
            if cur[1] != TL(ty):
                if cur[1] == TL(T_Q) and ty == T_Z:
                    t = self.coerce(t, ty, T_Q, s)
                else:
                    die(s, 'append of a %s to a %s' % (ty, cur[1]))
            return self.wraph(hs, 'let %s := (%s ++ [%s]) in\n  %s' % (cur[0], cur[0], t, self.block(rest, env, final)))
        if isinstance(s, ast.Raise):
            if rest or s.cause is not None or s.exc is None:
                die(s, 'raise form')
            if self.in_fold:
                die(s, 'raise inside a loop')
            exc = s.exc.func if isinstance(s.exc, ast.Call) else s.exc
            nm = ast.unparse(exc).split('.')[-1]
            if nm not in EXN or not self.raises:
                die(s, 'exception class')
            return '(inr %s)' % EXN[nm]
        if isinstance(s, ast.FunctionDef):
            env = dict(env)
            env[s.name] = (None, 'KEYFN')
            return self.block(rest, env, final)
        if isinstance(s, ast.Try):
            h = s.handlers
            if len(h) == 1 and not s.orelse and not s.finalbody and h[0].type is not None and ast.unparse(h[0].type) == 'TypeError' \
                    and len(h[0].body) == 1 and isinstance(h[0].body[0], ast.Raise):
                self.notes.append('except TypeError handler at line %d not translated: the translated state is the initialised one '
                                  '(typed values never raise TypeError)' % h[0].lineno)
                return self.block(s.body + rest, env, final)
            die(s, 'try statement')
        if isinstance(s, ast.Assign):
            if len(s.targets) != 1:
                die(s, 'multiple assignment')
            if isinstance(s.targets[0], ast.Tuple):
                # a, b = pair
                t, ty = self.expr(s.value, env)
                hs = self.take()
                env = self.refined(env)
                if ty[0] != 'P':
                    die(s, 'unpacking of a %s' % (ty,))
                env, pre = self.bind_target(s.targets[0], t, ty, env, s)
                for n_ in ast.walk(s.targets[0]):
                    if isinstance(n_, ast.Name):
                        self.fresh.discard(n_.id)
                return self.wraph(hs, '%s\n  %s' % (pre, self.block(rest, env, final)))
            r = self.ref(s.targets[0])
            if r is None:
                die(s, 'assignment target')
            env = dict(env)
            v = s.value
            if isinstance(v, ast.List) and not v.elts:
                env[r] = (None, 'EMPTYLIST')
                return self.block(rest, env, final)
            if isinstance(v, ast.Dict) and not v.keys:
                env[r] = (None, 'EMPTYDICT')
                return self.block(rest, env, final)
            if isinstance(v, ast.Call) and ast.unparse(v) == 'set()':
                env[r] = (None, 'EMPTYSET')
                return self.block(rest, env, final)
            if isinstance(v, ast.Constant) and v.value is None and isinstance(s.targets[0], ast.Name):
                env[r] = (None, 'NONE')      # x = None: only usable as the start value of a loop variable (typed by the loop)
                return self.block(rest, env, final)
            t, ty = self.expr(v, env)
            hs = self.take()
            env = self.refined(env)
            if self.reach is not None and r == self.reach:
                self.ret_type = TO(ty)
                return '(Some %s)' % t       # extraction stops here
            if hs:
                nm = self.newname(env, r)
                env[r] = (nm, ty)
                self.fresh.discard(r)
                return self.wraph(hs, 'let %s := %s in\n  %s' % (nm, t, self.block(rest, env, final)))
            nm = self.newname(env, r)
            env[r] = (nm, ty)
            if isinstance(v, (ast.ListComp, ast.List, ast.BinOp)) or (isinstance(v, ast.Subscript) and isinstance(v.slice, ast.Slice)):
                self.fresh.add(r)
            else:
                self.fresh.discard(r)
            return 'let %s := %s in\n  %s' % (nm, t, self.block(rest, env, final))
        if isinstance(s, ast.AugAssign):
            r = self.ref(s.target)
            if r is None or not isinstance(s.op, ast.Add):
                die(s, 'augmented assignment')
            cur = self.lookup(s.target, env)
            if cur[1][0] != 'L' or r not in self.fresh:
                die(s, 'in-place extension of a list that may be shared with the caller')
            t, ty = self.expr(s.value, env)
            hs = self.take()
            env = self.refined(env)
            if ty != cur[1]:
                die(s, 'extension of a %s by a %s' % (cur[1], ty))
            env = dict(env)
            env[r] = (cur[0], cur[1])
            return self.wraph(hs, 'let %s := (%s ++ %s) in\n  %s' % (cur[0], cur[0], t, self.block(rest, env, final)))
        if isinstance(s, ast.If):
            return self.if_stmt(s, rest, env, final)
        if isinstance(s, ast.For):
            return self.for_stmt(s, rest, env, final)
        die(s, 'statement')

    def append_stmt(self, s):
        """X.append(e) as a statement -> (reference of X, e)"""
        if (isinstance(s, ast.Expr) and isinstance(s.value, ast.Call) and isinstance(s.value.func, ast.Attribute)
                and s.value.func.attr == 'append' and self.ref(s.value.func.value) is not None
                and len(s.value.args) == 1 and not s.value.keywords and not isinstance(s.value.args[0], ast.Starred)):
            return self.ref(s.value.func.value), s.value.args[0]
        return None

    def assigned(self, stmts):
        out = []
        for s in stmts:
            if _is_doc(s):
                continue
            if self.append_stmt(s) is not None:
                out.append(self.append_stmt(s)[0])
            elif isinstance(s, ast.Assign) and len(s.targets) == 1 and self.ref(s.targets[0]):
                out.append(self.ref(s.targets[0]))
            elif isinstance(s, ast.AugAssign) and self.ref(s.target):
                out.append(self.ref(s.target))
            else:
                die(s, 'statement inside a conditional update')
        return out

    DROPPABLE_TESTS = ('votelib.evaluate.core.accepts_prev_gains',)

    def branches(self, test, env, defer=False):
        """(mk, env_then, env_else): mk(a, b) is the Coq conditional; an `x is (not) None` test on an optional value is a match
           that gives x its plain type on the not-None path"""
        if (isinstance(test, ast.Compare) and len(test.ops) == 1 and isinstance(test.ops[0], (ast.Is, ast.IsNot))
                and isinstance(test.comparators[0], ast.Constant) and test.comparators[0].value is None
                and self.ref(test.left) in env and isinstance(env[self.ref(test.left)][1], tuple) and env[self.ref(test.left)][1][0] == 'O'):
            r = self.ref(test.left)
            text, ty = env[r]
            some = dict(env)
            inner = self.newname(env, r + '_v')
            some[r] = (inner, ty[1])
            if isinstance(test.ops[0], ast.IsNot):
                return (lambda a, b: '(match %s with Some %s => %s | None => %s end)' % (text, inner, a, b)), some, env
            return (lambda a, b: '(match %s with None => %s | Some %s => %s end)' % (text, a, inner, b)), env, some
        c = self.cond(test, env)
        hs = self.take()
        env = self.refined(env)
        if defer:
            self._deferred = hs      # the caller wraps a larger term
            hs = []
        return (lambda a, b: self.wraph(hs, '(if %s then %s else %s)' % (c, a, b))), env, env

    def stops(self, stmts):
        """every path through stmts ends the translated function (return / raise, or - in 'reach' extraction - the target assignment)"""
        if _terminates(stmts):
            return True
        if self.reach is not None:
            for x in _strip(stmts):
                if isinstance(x, ast.Assign) and len(x.targets) == 1 and self.ref(x.targets[0]) == self.reach:
                    return True
        return False

    def if_stmt(self, s, rest, env, final):
        if self.stops(s.body):
            mk, et, ee = self.branches(s.test, env)
            a = self.block(s.body, et, None)
            if s.orelse and self.stops(s.orelse):
                if rest:
                    die(rest[0], 'unreachable statement')
                b = self.block(s.orelse, ee, None)
            else:
                b = self.block(list(s.orelse) + rest, ee, final)
            return mk(a, b)
        if s.orelse and self.stops(s.orelse):
            mk, et, ee = self.branches(s.test, env)
            return mk(self.block(list(s.body) + rest, et, final), self.block(s.orelse, ee, None))
        # conditional update of ONE variable -> let x := if .. ; anything else -> the statements after the conditional are
        # translated once on each path (if c then body; rest else orelse; rest)
        try:
            va = sorted(set(self.assigned(s.body)))
            vb = sorted(set(self.assigned(s.orelse))) if s.orelse else va
            single = len(va) == 1 and va == vb and (s.orelse or va[0] in env)
        except Unsupported:
            single = False
        if not single:
            mk, et, ee = self.branches(s.test, env)
            fresh0 = set(self.fresh)
            a = self.block(list(s.body) + rest, et, final)
            self.fresh = set(fresh0)
            b = self.block(list(s.orelse) + rest, ee, final)
            return mk(a, b)
        r = va[0]
        if not s.orelse and r not in env:
            die(s, 'conditional definition of %s' % r)
        res = {}

        def fin(e2):
            t, ty = e2[r]
            if ty == 'EMPTYLIST':
                return '[]'                      # a list still empty on this path
            if not isinstance(ty, (str, tuple)) or ty in ('EMPTYDICT', 'EMPTYSET', 'DEAD', 'KEYFN', 'NONE'):
                die(s, 'conditional update of %s' % r)
            res.setdefault('ty', ty)
            if res['ty'] != ty:
                die(s, 'types of %s on the two paths' % r)
            return t
        droppable = isinstance(s.test, ast.Call) and ast.unparse(s.test.func) in self.DROPPABLE_TESTS
        self._deferred = []
        if droppable:
            mk, et, ee = None, env, env
        else:
            mk, et, ee = self.branches(s.test, env, defer=True)
        dhs = self._deferred
        fresh0 = set(self.fresh)
        a = self.block(s.body, et, fin)
        fa = r in self.fresh
        self.fresh = set(fresh0)
        b = self.block(s.orelse, ee, fin) if s.orelse else fin(ee)
        fb = r in self.fresh or (not s.orelse and env[r][1] == 'EMPTYLIST')
        if 'ty' not in res:
            die(s, 'conditional update of %s gives it no value' % r)
        nm = self.newname(env, r)
        env = dict(env)
        env[r] = (nm, res['ty'])
        (self.fresh.add if (fa and fb) else self.fresh.discard)(r)
        if droppable:
            if a != b:
                die(s.test, 'introspection test with different paths')
            self.notes.append('test %s at line %d dropped: both paths translate to the same term' % (ast.unparse(s.test), s.lineno))
            return 'let %s := (%s) in\n  %s' % (nm, a, self.block(rest, env, final))
        return self.wraph(dhs, 'let %s := %s in\n  %s' % (nm, mk(a, b), self.block(rest, env, final)))

    def for_stmt(self, s, rest, env, final):
        if s.orelse:
            die(s, 'for-else')
        body = [x for x in s.body if not _is_doc(x)]
        it, ety = self.iterable(s.iter, env)
        if self.pending:
            die(s, 'operation that may raise in the iterable of a loop')
        # X = [] ... for v in it: ..; X.append(e)
        last = body[-1] if body else None
        if (isinstance(last, ast.Expr) and isinstance(last.value, ast.Call) and isinstance(last.value.func, ast.Attribute)
                and last.value.func.attr == 'append' and self.ref(last.value.func.value) in env
                and env[self.ref(last.value.func.value)][1] == 'EMPTYLIST' and len(last.value.args) == 1 and not last.value.keywords):
            x = self.ref(last.value.func.value)
            if _mentions(body[:-1] + [last.value.args[0], s.iter], x):
                die(s, 'accumulator read inside its own loop')
            env2, pre = self.bind_target(s.target, 'it_', ety, env, s)
            got = {}

            def fin(e2):
                t, ty = self.expr(last.value.args[0], e2)
                got['ty'] = ty
                return t
            inner = self.block(body[:-1], env2, fin)
            nm = self.newname(env, x)
            env = dict(env)
            env[x] = (nm, (TS if self.is_unordered(s.iter, env) else TL)(got['ty']))
            self.fresh.add(x)
            return 'let %s := (map (fun it_ => %s%s) %s) in\n  %s' % (nm, pre, inner, it, self.block(rest, env, final))
        # D = {} [S = set()] ... for k, v in src.items(): if c: D[k] = v [else: S.add(k)]
        if (len(body) == 1 and isinstance(body[0], ast.If) and isinstance(s.target, ast.Tuple) and len(s.target.elts) == 2
                and all(isinstance(t_, ast.Name) for t_ in s.target.elts) and ety[0] == 'P'
                and isinstance(s.iter, ast.Call) and isinstance(s.iter.func, ast.Attribute) and s.iter.func.attr == 'items'):
            k, v = s.target.elts[0].id, s.target.elts[1].id
            iff = body[0]
            tb = [x for x in iff.body if not _is_doc(x)]
            ok = (len(tb) == 1 and isinstance(tb[0], ast.Assign) and len(tb[0].targets) == 1
                  and isinstance(tb[0].targets[0], ast.Subscript) and self.ref(tb[0].targets[0].value) in env
                  and env[self.ref(tb[0].targets[0].value)][1] == 'EMPTYDICT'
                  and isinstance(tb[0].targets[0].slice, ast.Name) and tb[0].targets[0].slice.id == k
                  and isinstance(tb[0].value, ast.Name) and tb[0].value.id == v)
            if not ok:
                die(iff, 'loop body is not a dictionary filter')
            d = self.ref(tb[0].targets[0].value)
            env = dict(env)
            eb = [x for x in iff.orelse if not _is_doc(x)]
            if eb:
                okb = (len(eb) == 1 and isinstance(eb[0], ast.Expr) and isinstance(eb[0].value, ast.Call)
                       and isinstance(eb[0].value.func, ast.Attribute) and eb[0].value.func.attr == 'add'
                       and self.ref(eb[0].value.func.value) in env and env[self.ref(eb[0].value.func.value)][1] == 'EMPTYSET'
                       and len(eb[0].value.args) == 1 and isinstance(eb[0].value.args[0], ast.Name) and eb[0].value.args[0].id == k)
                if not okb:
                    die(iff, 'else branch of the dictionary filter')
                env[self.ref(eb[0].value.func.value)] = (None, 'DEAD')     # the complement set: not translated, any later use stops the translation
            if _mentions([iff.test, s.iter], d):
                die(s, 'accumulator read inside its own loop')
            env2, pre = self.bind_target(s.target, 'it_', ety, env, s)
            c = self.cond(iff.test, env2)
            nm = self.newname(env, d)
            env[d] = (nm, ('U', ety) if self.is_unordered(s.iter, env) else TL(ety))
            return 'let %s := (filter (fun it_ => %s%s) %s) in\n  %s' % (nm, pre, c, it, self.block(rest, env, final))
        return self.for_fold(s, rest, env, final, it, ety)

    # ---- a loop that updates locals: a structural fold over the iterable
    #   x1 = e1 .. xk = ek                       (before the loop; `[]` and `None` start values are typed by the loop body)
    #   for t in it: body                        (body: assignments, appends, conditionals; no return / raise / break / continue /
    #                                             nested loop; nothing that may raise)
    # -> let st := fold_left (fun st_ it_ => let x1 := fst st_ in .. <body> (x1', (.., xk'))) it (e1, (.., ek)) in let x1 := fst st in ..
    # the state is the tuple of the locals the body assigns that exist before the loop; locals first assigned in the body and the
    # loop targets are dead afterwards (their use stops the translation).
    def loop_assigned(self, stmts, out):
        for s in _strip(stmts):
            ap = self.append_stmt(s)
            if ap is not None:
                refs = [ap[0]]
            elif isinstance(s, ast.Assign) and len(s.targets) == 1:
                tg = s.targets[0]
                if isinstance(tg, ast.Tuple):
                    refs = [n.id for n in ast.walk(tg) if isinstance(n, ast.Name)]
                    if any(not isinstance(n, (ast.Name, ast.Tuple, ast.Store, ast.Load)) for n in ast.walk(tg)):
                        die(s, 'assignment target inside a loop')
                elif self.ref(tg) is not None:
                    refs = [self.ref(tg)]
                else:
                    die(s, 'assignment target inside a loop')
            elif isinstance(s, ast.AugAssign) and self.ref(s.target) is not None:
                refs = [self.ref(s.target)]
            elif isinstance(s, ast.If):
                self.loop_assigned(s.body, out)
                self.loop_assigned(s.orelse, out)
                continue
            else:
                die(s, 'statement inside a loop')
            for r in refs:
                if r not in out:
                    out.append(r)
        return out

    def infer_state(self, stmts, env, untyped, found):
        """types of the loop variables that start as [] / None: from the first append / assignment in the body that can be typed"""
        env = dict(env)
        for s in _strip(stmts):
            ap = self.append_stmt(s)
            try:
                if ap is not None:
                    if untyped.get(ap[0]) == 'EMPTYLIST' and ap[0] not in found:
                        found[ap[0]] = TL(self.expr(ap[1], env)[1])
                elif isinstance(s, ast.Assign) and len(s.targets) == 1:
                    tg = s.targets[0]
                    t, ty = self.expr(s.value, env)
                    if isinstance(tg, ast.Tuple):
                        env, _ = self.bind_target(tg, t, ty, env, s)
                    elif self.ref(tg) is not None:
                        r = self.ref(tg)
                        if r in untyped:
                            if untyped[r] == 'NONE' and r not in found:
                                found[r] = TO(ty)
                            elif untyped[r] == 'EMPTYLIST' and r not in found and ty[0] == 'L':
                                found[r] = ty
                        else:
                            env[r] = (self.newname(env, r), ty)
                elif isinstance(s, ast.If):
                    self.infer_state(s.body, env, untyped, found)
                    self.infer_state(s.orelse, env, untyped, found)
            except Unsupported:
                continue
        return found

    def for_fold(self, s, rest, env, final, it, ety):
        body = _strip(s.body)
        for st_ in body:
            for n in ast.walk(st_):
                if isinstance(n, (ast.Return, ast.Raise, ast.Break, ast.Continue, ast.For, ast.While, ast.AsyncFor, ast.Try, ast.With,
                                  ast.FunctionDef, ast.AsyncFunctionDef, ast.ClassDef, ast.Lambda, ast.Yield, ast.YieldFrom, ast.Await,
                                  ast.Global, ast.Nonlocal, ast.Delete, ast.NamedExpr)):
                    die(n, 'loop body form (%s)' % type(n).__name__)
        if self.in_fold:
            die(s, 'nested loop')
        targets = [n.id for n in ast.walk(s.target) if isinstance(n, ast.Name)]
        assigned = self.loop_assigned(body, [])
        if any(r.startswith('self.') for r in assigned):
            die(s, 'attribute assigned inside a loop')
        if set(assigned) & set(targets):
            die(s, 'loop target reassigned inside the loop')
        state = [r for r in assigned if r in env]
        local = [r for r in assigned if r not in env]
        if not state:
            die(s, 'loop without an effect on the translated locals')
        for r in state:
            if _mentions(s.iter, r):
                die(s, 'loop over a value its own body changes')
        env2, pre = self.bind_target(s.target, 'it_', ety, env, s)
        untyped = {r: env[r][1] for r in state if env[r][1] in ('EMPTYLIST', 'NONE')}
        saved = (self.pending, list(self.notes), set(self.fresh), self.nhoist, list(self.refine))
        self.pending = None
        try:
            found = self.infer_state(body, env2, untyped, {})
        finally:
            self.pending, self.notes, self.fresh, self.nhoist, self.refine = saved
        types, inits = {}, {}
        for r in state:
            t0, ty0 = env[r]
            if r in untyped:
                if r not in found:
                    die(s, 'the loop never gives %s a value of a known type' % r)
                types[r] = found[r]
                inits[r] = '(%s : %s)' % ('[]' if ty0 == 'EMPTYLIST' else 'None', coq_type(found[r]))
            else:
                if not isinstance(ty0, (str, tuple)) or ty0 in ('EMPTYDICT', 'EMPTYSET', 'DEAD', 'KEYFN'):
                    die(s, 'loop variable %s' % r)
                types[r] = ty0
                inits[r] = t0

        def tuple_of(parts):
            return parts[0] if len(parts) == 1 else '(%s, %s)' % (parts[0], tuple_of(parts[1:]))

        def projections(var):
            out, cur = [], var
            for i in range(len(state)):
                if i == len(state) - 1:
                    out.append(cur)
                else:
                    out.append('(fst %s)' % cur)
                    cur = '(snd %s)' % cur
            return out
        # the body, as a function of the state
        env3 = dict(env2)
        lets = ''
        fresh0 = set(self.fresh)
        for r, pr in zip(state, projections('st_')):
            nm = self.newname(env3, r)
            env3[r] = (nm, types[r])
            lets += 'let %s := %s in ' % (nm, pr)
            if r in untyped and untyped[r] == 'EMPTYLIST' or r in self.fresh:
                self.fresh.add(r)       # a list built by this function: appending to it inside the loop is not visible elsewhere

        def fin(e2):
            parts = []
            for r in state:
                t, ty = e2[r]
                want = types[r]
                if ty == want:
                    parts.append(t)
                elif want[0] == 'O' and ty == want[1]:
                    parts.append('(Some %s)' % t)
                elif ty in (T_Z, T_Q, TL(T_Z)) or isinstance(ty, tuple):
                    parts.append(self.coerce(t, ty, want, s))
                else:
                    die(s, 'loop variable %s ends an iteration as %s' % (r, ty))
            return tuple_of(parts)
        saved_pending, self.pending, self.in_fold = self.pending, None, True
        try:
            step = self.block(body, env3, fin)
        finally:
            self.pending, self.in_fold = saved_pending, False
        self.fresh = fresh0 | {r for r in state if r in self.fresh and (r in fresh0 or r in untyped)}
        env = dict(env)
        stv = "st'%d" % (self.nhoist + 1)
        self.nhoist += 1
        out = 'let %s := (fold_left (fun st_ it_ => %s%s%s) %s %s) in\n  ' % (stv, lets, pre, step, it, tuple_of([inits[r] for r in state]))
        for r, pr in zip(state, projections(stv)):
            nm = self.newname(env, r)
            env[r] = (nm, types[r])
            out += 'let %s := %s in ' % (nm, pr)
        for r in local + targets:
            env[r] = (None, 'DEAD')      # bound by the last iteration only (not at all when the iterable is empty)
        return out + '\n  ' + self.block(rest, env, final)


def _strip(stmts):
    return [s for s in stmts if not _is_doc(s)]


def _check_ctor(cd, attrs, special):
    """every used attribute is stored by __init__ exactly once, unconditionally, as the constructor argument of the same
       name (or as the exact expression listed in special)"""
    init = {m.name: m for m in cd.body if isinstance(m, ast.FunctionDef)}.get('__init__')
    if init is None:
        if attrs:
            die(cd, 'class without __init__ but attributes %s used' % attrs)
        return
    params = [a.arg for a in init.args.args[1:]]
    stores = {}
    for n in ast.walk(init):
        tg = []
        if isinstance(n, ast.Assign):
            tg = n.targets
        elif isinstance(n, (ast.AugAssign, ast.AnnAssign)):
            tg = [n.target]
        for t in tg:
            if isinstance(t, ast.Attribute) and isinstance(t.value, ast.Name) and t.value.id == 'self':
                stores.setdefault(t.attr, []).append(n)
    top = set(id(s) for s in init.body)
    for a in attrs:
        if special.get(a) == '*':
            continue       # the definition is a function of the STORED attribute, however the constructor computes it
        st_ = stores.get(a, [])
        if len(st_) != 1 or id(st_[0]) not in top or not isinstance(st_[0], ast.Assign):
            die(init, 'attribute %s is not stored exactly once at the top level of __init__' % a)
        want = special.get(a, a)
        if ast.unparse(st_[0].value) != want:
            die(st_[0], 'attribute %s is not the constructor argument (%s expected)' % (a, want))
        if a not in params and a not in special:
            die(init, 'no constructor argument %s' % a)


def _find_comp(fd, target):
    """the list comprehension returned by fd (target None) or assigned to the local `target`; plus the top-level statement index"""
    found = []
    for i, s in enumerate(fd.body):
        for n in ast.walk(s):
            if target is None and isinstance(n, ast.Return) and isinstance(n.value, ast.ListComp):
                found.append((i, n.value))
            if target is not None and isinstance(n, ast.Assign) and len(n.targets) == 1 and isinstance(n.targets[0], ast.Name) \
                    and n.targets[0].id == target and isinstance(n.value, ast.ListComp):
                found.append((i, n.value))
    if len(found) != 1:
        die(fd, 'exactly one list comprehension %s expected, %d found' % ('returned' if target is None else 'assigned to ' + target, len(found)))
    return found[0]


def _find_filter_loop(fd, target):
    found = [(i, s) for i, s in enumerate(fd.body) if isinstance(s, ast.For) and len(_strip(s.body)) == 1 and isinstance(_strip(s.body)[0], ast.If)
             and any(isinstance(n, ast.Subscript) and isinstance(n.value, ast.Name) and n.value.id == target and isinstance(n.ctx, ast.Store)
                     for n in ast.walk(s))]
    if len(found) != 1:
        die(fd, 'exactly one loop filling %s expected, %d found' % (target, len(found)))
    return found[0]


FIXED_NAMES = ('len', 'sum', 'range', 'max', 'min', 'frozenset', 'set', 'list', 'sorted', 'Fraction', 'votelib', 'self')


def _rebound_names(tree):
    """names among FIXED_NAMES that the module binds to something else than what the translator reads them as: any assignment,
       definition, parameter or import of the name anywhere in the file - except `from fractions import Fraction`, `import votelib...`
       and `self` as the first parameter of a method"""
    bad = set()
    for n in ast.walk(tree):
        if isinstance(n, ast.Name) and isinstance(n.ctx, (ast.Store, ast.Del)) and n.id in FIXED_NAMES:
            bad.add(n.id)
        elif isinstance(n, (ast.FunctionDef, ast.AsyncFunctionDef, ast.ClassDef)):
            if n.name in FIXED_NAMES:
                bad.add(n.name)
            if not isinstance(n, ast.ClassDef):
                a = n.args
                allargs = a.posonlyargs + a.args + a.kwonlyargs + ([a.vararg] if a.vararg else []) + ([a.kwarg] if a.kwarg else [])
                for i, x in enumerate(allargs):
                    if x.arg in FIXED_NAMES and not (x.arg == 'self' and i == 0):
                        bad.add(x.arg)
        elif isinstance(n, ast.Import):
            for al in n.names:
                bound = al.asname or al.name.split('.')[0]
                if bound in FIXED_NAMES and not (al.asname is None and al.name.split('.')[0] == 'votelib'):
                    bad.add(bound)
        elif isinstance(n, ast.ImportFrom):
            for al in n.names:
                bound = al.asname or al.name
                if bound in FIXED_NAMES and not (n.module == 'fractions' and al.name == 'Fraction' and al.asname is None and n.level == 0):
                    bad.add(bound)
        elif isinstance(n, ast.ExceptHandler) and n.name in FIXED_NAMES:
            bad.add(n.name)
        elif isinstance(n, (ast.Global, ast.Nonlocal)):
            bad.update(x for x in n.names if x in FIXED_NAMES)
    has_fraction = any(isinstance(n, ast.ImportFrom) and n.module == 'fractions' and any(al.name == 'Fraction' and al.asname is None for al in n.names)
                       for n in tree.body)
    if not has_fraction:
        bad.add('Fraction')
    return bad


def _attr_stores_elsewhere(cd, attrs, allowed):
    """attributes (among attrs) that a method other than __init__ / the allowed ones assigns"""
    out = set()
    for m in cd.body:
        if isinstance(m, ast.FunctionDef) and m.name != '__init__' and m.name not in allowed:
            for n in ast.walk(m):
                if isinstance(n, ast.Attribute) and isinstance(n.ctx, (ast.Store, ast.Del)) and isinstance(n.value, ast.Name) \
                        and n.value.id == 'self' and n.attr in attrs:
                    out.add(n.attr)
    return out


def _leading_locals(stmts):
    """the plain local assignments (x = e, e not an empty accumulator) among the top-level statements, in order"""
    return [s for s in _strip(stmts) if isinstance(s, ast.Assign) and len(s.targets) == 1 and isinstance(s.targets[0], ast.Name)
            and not (isinstance(s.value, (ast.List, ast.Dict)) and not (getattr(s.value, 'elts', None) or getattr(s.value, 'keys', None)))
            and ast.unparse(s.value) != 'set()']


def _free_locals(fd, node):
    """local variables of fd (names stored anywhere in fd outside `node`) that `node` reads, in order of first occurrence"""
    inside = set(id(n) for n in ast.walk(node))
    stored = {n.id for n in ast.walk(fd) if isinstance(n, ast.Name) and isinstance(n.ctx, ast.Store) and id(n) not in inside}
    own = {n.id for n in ast.walk(node) if isinstance(n, ast.Name) and isinstance(n.ctx, ast.Store)}
    out = []
    reads = sorted((n for n in ast.walk(node) if isinstance(n, ast.Name) and isinstance(n.ctx, ast.Load)),
                   key=lambda n: (n.lineno, n.col_offset))
    for n in reads:
        if n.id in stored and n.id not in own and n.id not in out:
            out.append(n.id)
    return out


def _bind_positional(positional, env, locs, targets, node, free=None):
    """names bound by position, so that renaming a local or a loop variable in the source changes nothing:
       '@localK' = the K-th plain local assigned before the statement, '@targetK' = the K-th loop / comprehension target,
       '@free:NAME' = the local NAME wherever it is assigned, '@freeK' = the K-th distinct local variable of the function (a name
       assigned somewhere in it, not a loop target of the expression) read by the expression, in order of first occurrence"""
    for cn, r, ty in positional:
        if r.startswith('@free:'):
            env[r[len('@free:'):]] = (cn, ty)
        elif r.startswith('@free'):
            k = int(r[len('@free'):])
            if free is None or k >= len(free):
                die(node, 'free local #%d not found in the expression' % k)
            env[free[k]] = (cn, ty)
        elif r.startswith('@local'):
            k = int(r[len('@local'):])
            if k >= len(locs):
                die(node, 'local #%d not found before the statement' % k)
            env[locs[k].targets[0].id] = (cn, ty)
        elif r.startswith('@target'):
            k = int(r[len('@target'):])
            if targets is None or k >= len(targets) or not isinstance(targets[k], ast.Name):
                die(node, 'loop target #%d' % k)
            env[targets[k].id] = (cn, ty)
        else:
            die(node, 'positional reference %s' % r)


def _module_names(tree):
    """how the module binds a name, for the names it binds EXACTLY once anywhere (top level or nested, any binding form):
       'import' (plain `import name` at top level), 'class:<base>' / 'class' / 'def' (top-level definition), else 'other';
       names bound more than once map to 'many'"""
    count, how = {}, {}

    def bind(name, what):
        count[name] = count.get(name, 0) + 1
        how[name] = what
    top = set(id(n) for n in tree.body)
    for n in ast.walk(tree):
        if isinstance(n, ast.Name) and isinstance(n.ctx, (ast.Store, ast.Del)):
            bind(n.id, 'other')
        elif isinstance(n, (ast.FunctionDef, ast.AsyncFunctionDef)):
            bind(n.name, 'def' if id(n) in top and isinstance(n, ast.FunctionDef) else 'other')
            a = n.args
            for x in a.posonlyargs + a.args + a.kwonlyargs + ([a.vararg] if a.vararg else []) + ([a.kwarg] if a.kwarg else []):
                bind(x.arg, 'other')
        elif isinstance(n, ast.ClassDef):
            if id(n) in top and not n.keywords and not n.decorator_list:
                bind(n.name, 'class:' + ast.unparse(n.bases[0]) if len(n.bases) == 1 else 'class')
            else:
                bind(n.name, 'other')
        elif isinstance(n, ast.Import):
            for al in n.names:
                if al.asname:
                    bind(al.asname, 'other')
                else:
                    bind(al.name.split('.')[0], 'import' if id(n) in top and '.' not in al.name else 'other')
        elif isinstance(n, ast.ImportFrom):
            for al in n.names:
                bind(al.asname or al.name, 'other')
        elif isinstance(n, ast.ExceptHandler) and n.name:
            bind(n.name, 'other')
        elif isinstance(n, (ast.Global, ast.Nonlocal)):
            for x in n.names:
                bind(x, 'other')
        elif isinstance(n, (ast.MatchAs, ast.MatchStar)) and n.name:
            bind(n.name, 'other')
        elif isinstance(n, ast.MatchMapping) and n.rest:
            bind(n.rest, 'other')
    return {k: (how[k] if count[k] == 1 else 'many') for k in count}


def translate_typed(path, defs, module, known0=None):
    """defs: list of dict(name, cls|None, fn, kind, params=[(coq name, python reference, type)], ..) - see TYPED_JOBS
       known0: translated functions of OTHER modules, by dotted name (entries carry 'module')"""
    tree = ast.parse(open(path).read())
    classes = {n.name: n for n in tree.body if isinstance(n, ast.ClassDef)}
    funcs = {n.name: n for n in tree.body if isinstance(n, ast.FunctionDef)}
    rebound = _rebound_names(tree)
    module_names = _module_names(tree)
    imports = {al.name for n in tree.body if isinstance(n, ast.Import) for al in n.names if al.asname is None}
    out, status, known, notes = [], {}, dict(known0 or {}), {}
    for d in defs:
        name = d['name']
        try:
            if d.get('cls'):
                cd = classes.get(d['cls'])
                if cd is None:
                    raise Unsupported('class %s not found' % d['cls'])
                fd = {m.name: m for m in cd.body if isinstance(m, ast.FunctionDef)}.get(d['fn'])
                if fd is None:
                    raise Unsupported('method %s.%s not found' % (d['cls'], d['fn']))
                if fd.decorator_list:
                    die(fd, 'decorated method')
                attrs = [r[5:] for _, r, _ in d['params'] if r.startswith('self.')]
                _check_ctor(cd, attrs, d.get('ctor', {}))
                moved = _attr_stores_elsewhere(cd, [a for a in attrs if a not in d.get('ctor', {})], ())
                if moved:
                    die(cd, 'attribute(s) %s assigned outside __init__' % sorted(moved))
                pyparams = [a.arg for a in fd.args.args[1:]]
            else:
                fd = funcs.get(d['fn'])
                if fd is None:
                    raise Unsupported('function %s not found' % d['fn'])
                if fd.decorator_list:
                    die(fd, 'decorated function')
                pyparams = [a.arg for a in fd.args.args]
            if fd.args.vararg or fd.args.kwarg or fd.args.kwonlyargs or fd.args.posonlyargs:
                die(fd, 'parameter list')
            used = {n.id for n in ast.walk(fd) if isinstance(n, ast.Name)} & rebound
            if used:
                die(fd, 'the module rebinds %s, which the translator reads with a fixed meaning' % sorted(used))
            kind = d['kind']
            in_handler = set(id(m) for n in ast.walk(fd) if isinstance(n, ast.ExceptHandler) for m in ast.walk(n))
            raises = kind == 'body' and (bool(d.get('raises')) or any(isinstance(n, ast.Raise) and id(n) not in in_handler for n in ast.walk(fd)))
            tx = TX(known, raises)
            tx.imports, tx.module_names = imports, module_names
            if not d.get('cls') and module_names.get(d['fn']) != 'def':
                die(fd, 'the module binds the name %s more than once' % d['fn'])
            env = {}
            positional = []      # names bound by position (comprehension / loop targets, leading locals): coq name, type
            for cn, r, ty in d['params']:
                if r.startswith('@'):
                    positional.append((cn, r, ty))
                    continue
                if r.startswith('obs:'):
                    env[r] = (cn, ty)          # attribute / zero-argument method of a candidate object, as a function
                    continue
                if not r.startswith('self.') and r not in pyparams:
                    die(fd, 'no parameter %s' % r)
                env[r] = (cn, ty)
            # a method parameter that is not declared is unknown to the translated code (its use stops the translation)
            if kind == 'body':
                if d.get('ret') is not None:
                    tx.ret_type = d['ret']
                final = None
                if d.get('result_attr'):
                    ra = 'self.' + d['result_attr']
                    def final(e2, ra=ra):     # noqa
                        if ra not in e2:
                            die(fd, 'attribute %s is never assigned' % ra)
                        t, ty = e2[ra]
                        if tx.ret_type is not None:
                            t = tx.coerce(t, ty, tx.ret_type, fd)
                        else:
                            tx.ret_type = ty
                        return t
                text = tx.block(fd.body, env, final)
                ret = tx.ret_type
            elif kind in ('comp_if', 'comp'):
                idx, lc = _find_comp(fd, d.get('target'))
                if len(lc.generators) != 1 or len(lc.generators[0].ifs) != 1:
                    die(lc, 'one generator with one condition expected')
                g = lc.generators[0]
                tg = g.target.elts if isinstance(g.target, ast.Tuple) else [g.target]
                _bind_positional(positional, env, _leading_locals(fd.body[:idx]), tg if kind == 'comp_if' else None, lc,
                                 _free_locals(fd, lc))
                if kind == 'comp_if':
                    text, ret = tx.cond(g.ifs[0], env), T_B
                else:
                    text, ret = tx.expr(lc, env)
            elif kind in ('loop_if', 'upto'):
                idx, loop = _find_filter_loop(fd, d['target'])
                if kind == 'loop_if':
                    tg = loop.target.elts if isinstance(loop.target, ast.Tuple) else [loop.target]
                    _bind_positional(positional, env, _leading_locals(fd.body[:idx]), tg, loop)
                    text, ret = tx.cond(_strip(loop.body)[0].test, env), T_B
                else:
                    tgt = d['target']

                    def final(e2, tgt=tgt):     # noqa
                        t, ty = e2[tgt]
                        tx.ret_type = ty
                        return t
                    text = tx.block(fd.body[:idx + 1], env, final)
                    ret = tx.ret_type
            elif kind == 'reach':
                tx.reach = d['target']
                if d.get('target_free_of'):
                    # the local to extract is named by its role: the k-th local read by the comprehension assigned to <name>
                    cname_, k = d['target_free_of']
                    fl = _free_locals(fd, _find_comp(fd, cname_)[1])
                    if k >= len(fl):
                        die(fd, 'free local #%d of the comprehension %s' % (k, cname_))
                    tx.reach = fl[k]
                text = tx.block(fd.body, env, None)
                ret = tx.ret_type
                if ret is None:
                    die(fd, 'local %s is never assigned' % d['target'])
            else:
                raise Unsupported('kind %s' % kind)
            plist = ' '.join('(%s : %s)' % (cn, coq_type(ty)) for cn, r, ty in d['params'])
            rty = coq_type(ret) + (' + pyexn' if tx.raises else '')
            com = ''.join('  (* %s *)\n' % n for n in tx.notes)
            out.append('%sDefinition %s %s : %s :=\n  %s.' % (com, name, plist, rty, text))
            status[name] = 'ok'
            if tx.notes:
                notes[name] = tx.notes
            if kind == 'body' and not d.get('cls'):
                # callable from later definitions of the unit; defaults from the source
                defaults = [None] * (len(fd.args.args) - len(fd.args.defaults)) + list(fd.args.defaults)
                ps = []
                for (cn, r, ty), a, df in zip(d['params'], fd.args.args, defaults):
                    if r != a.arg:
                        die(fd, 'parameters of a callable unit function must be declared in source order')
                    dt = None
                    if df is not None:
                        x = TX({}, False).expr(df, {})
                        dt = TX({}, False).coerce(x[0], x[1], ty, df)
                    ps.append((cn, ty, dt))
                known[d['fn']] = dict(coq=name, params=ps, ret=ret, raises=tx.raises)
        except Unsupported as e:
            status[name] = 'unsupported: %s' % e
    missing = [d['name'] for d in defs if status.get(d['name']) != 'ok']
    translate_typed.last_known = known
    return out, status, missing, notes


TYPED_HEADER = """(* GENERATED by tools/py2v.py from %s -- do not edit. *)
From Coq Require Import String.
From Coq Require Import ZArith QArith List Bool.
From VL Require Import Prelude.PyDict Prelude.PyNum Prelude.PyList Model.GetNBest.
Import ListNotations.
(* votelib.util.sorted_votes(d) is read as [sort_desc Qle_bool d] (Model/GetNBest.v: stable, descending; tied to the code by the
   C09 correspondence); sum(d.values()) as [py_sum_values d]. *)
"""

P_THR = ('threshold', 'self.threshold', T_Q)
P_AE = ('accept_equal', 'self.accept_equal', T_B)
TYPED_JOBS = [
    ('Threshold', 'votelib/evaluate/threshold.py', [
        dict(name='AbsoluteThreshold_accept', cls='AbsoluteThreshold', fn='evaluate', kind='comp_if',
             params=[P_THR, P_AE, ('n_votes', '@target1', T_Q)]),
        dict(name='AbsoluteThreshold_evaluate', cls='AbsoluteThreshold', fn='evaluate', kind='body',
             params=[P_THR, P_AE, ('votes', 'votes', VOTES)]),
        dict(name='RelativeThreshold_accept', cls='RelativeThreshold', fn='evaluate', kind='comp_if',
             params=[P_THR, P_AE, ('total', '@local0', T_Q), ('n_votes', '@target1', T_Q)]),
        dict(name='RelativeThreshold_evaluate', cls='RelativeThreshold', fn='evaluate', kind='body',
             params=[P_THR, P_AE, ('votes', 'votes', VOTES)]),
        dict(name='CoalitionMemberBracketer_evaluate', cls='CoalitionMemberBracketer', fn='evaluate', kind='body',
             params=[('evaluators', 'self.evaluators', TL(TP(T_Z, T_SEL))), ('default', 'self.default', T_SEL),
                     ('is_coalition', 'obs:is_coalition', TFUN([T_C], T_B)),
                     ('get_n_coalition_members', 'obs:get_n_coalition_members', TFUN([T_C], T_Z)), ('votes', 'votes', VOTES)]),
        dict(name='AlternativeThresholds_evaluate', cls='AlternativeThresholds', fn='evaluate', kind='body',
             params=[('partials', 'self.partials', TL(T_SEL)), ('votes', 'votes', VOTES), ('prev_gains', 'prev_gains', T_PG)],
             ret=TS(T_C)),
    ]),
    ('Approval', 'votelib/evaluate/approval.py', [
        dict(name='QuotaSelector_test', cls='QuotaSelector', fn='evaluate', kind='loop_if', target='over_quota',
             params=[P_AE, ('qval', '@local0', T_Q), ('n_votes', '@target1', T_Q)]),
        dict(name='QuotaSelector_over_quota', cls='QuotaSelector', fn='evaluate', kind='upto', target='over_quota',
             ctor={'quota_function': 'votelib.component.quota.construct(quota_function)'},
             params=[('quota_function', 'self.quota_function', TFUN([T_Q, T_Z], T_Q)), P_AE, ('votes', 'votes', VOTES),
                     ('n_seats', 'n_seats', T_Z)]),
            dict(name='QuotaSelector_evaluate', cls='QuotaSelector', fn='evaluate', kind='body',
             ctor={'quota_function': 'votelib.component.quota.construct(quota_function)'},
             params=[('quota_function', 'self.quota_function', TFUN([T_Q, T_Z], T_Q)), P_AE,
                     ('on_more_over_quota', 'self.on_more_over_quota', T_STR), ('votes', 'votes', VOTES), ('n_seats', 'n_seats', T_Z)]),
    ]),
    ('Openlist', 'votelib/evaluate/openlist.py', [
        dict(name='ThresholdOpenList_jump_test', cls='ThresholdOpenList', fn='evaluate', kind='comp_if', target='jumping',
             params=[P_AE, ('threshold', '@free0', T_Q), ('n_votes', '@target1', T_Q)]),
        dict(name='ThresholdOpenList_threshold', cls='ThresholdOpenList', fn='evaluate', kind='reach', target='threshold', target_free_of=('jumping', 0),
             ctor={'quota_function': '*'},
             params=[('jump_fraction', 'self.jump_fraction', TO(T_Q)), ('quota_function', 'self.quota_function', TO(TFUN([T_Q, T_Z], T_Q))),
                     ('take_higher', 'self.take_higher', T_B), ('votes', 'votes', VOTES), ('n_seats', 'n_seats', T_Z)]),
        dict(name='ThresholdOpenList_jumping', cls='ThresholdOpenList', fn='evaluate', kind='comp', target='jumping',
             params=[P_AE, ('threshold', '@free0', T_Q), ('votes', 'votes', VOTES)]),
    ]),
]

# ---- the central selection primitive (unit Core -> Gen/Core.v): util.sorted_votes, core.get_n_best, Plurality.evaluate, translated
# as WHOLE BODIES (the stable sort with the key / reverse arguments the source passes; the guard cascade, the indexing with its
# IndexError, the loop collecting the tied group as a fold, the slices, [Tie(tied)] * n_tie_places).  get_n_best calls the generated
# sorted_votes, Plurality.evaluate the generated get_n_best.  Props/GenTie_Core.v proves them equal to Model/GetNBest.v.
CORE_HEADER = """(* GENERATED by tools/py2v.py from %s -- do not edit. *)
From Coq Require Import String.
From Coq Require Import ZArith QArith List Bool.
From VL Require Import Prelude.PyDict Prelude.PyNum Prelude.PyList Prelude.PySeq Model.GetNBest.
Import ListNotations.
(* Model.GetNBest is imported for the result type only ([res]: Cand c | TieR l); sorted(), enumerate(), l[i] are read by
   Prelude/PySeq.v; an operation that may raise is a match on its optional result, in evaluation order. *)
"""
P_VOTES, P_NSEATS = ('votes', 'votes', VOTES), ('n_seats', 'n_seats', T_Z)
CORE_UTIL = ('votelib/util.py', [
    dict(name='sorted_votes', cls=None, fn='sorted_votes', kind='body', params=[P_VOTES, ('descending', 'descending', T_B)]),
])
CORE_CORE = ('votelib/evaluate/core.py', [
    dict(name='get_n_best', cls=None, fn='get_n_best', kind='body', raises=True, ret=TL(T_RES), params=[P_VOTES, P_NSEATS]),
    dict(name='Plurality_evaluate', cls='Plurality', fn='evaluate', kind='body', raises=True, ret=TL(T_RES), params=[P_VOTES, P_NSEATS]),
])
# approval.QuotaSelector.evaluate once more (unit CoreQsel -> Gen/CoreQsel.v), its closing `return votelib.evaluate.core.get_n_best(..)`
# now handing over to the GENERATED get_n_best (Gen/Approval.v, a unit of C16, reads that call as the model)
COREQSEL_HEADER = """(* GENERATED by tools/py2v.py from %s -- do not edit. *)
From Coq Require Import String.
From Coq Require Import ZArith QArith List Bool.
From VL Require Import Prelude.PyDict Prelude.PyNum Prelude.PyList Prelude.PySeq Model.GetNBest.
From VL Require Gen.Core.
Import ListNotations.
"""
COREQSEL = ('votelib/evaluate/approval.py', [
    dict(name='QuotaSelector_evaluate', cls='QuotaSelector', fn='evaluate', kind='body', ret=TL(T_RES),
         ctor={'quota_function': 'votelib.component.quota.construct(quota_function)'},
         params=[('quota_function', 'self.quota_function', TFUN([T_Q, T_Z], T_Q)), P_AE,
                 ('on_more_over_quota', 'self.on_more_over_quota', T_STR), P_VOTES, P_NSEATS]),
])


def translate_core(repo):
    """-> (Core.v text, Core status, CoreQsel.v text, CoreQsel status)"""
    srcs = '%s, %s' % (CORE_UTIL[0], CORE_CORE[0])
    functions, notes, defs_out, missing = {}, {}, [], []
    known_core = None
    try:
        d1, s1, m1, n1 = translate_typed(os.path.join(repo, CORE_UTIL[0]), CORE_UTIL[1], CORE_UTIL[0])
        functions.update(s1)
        notes.update(n1)
        defs_out += d1
        missing += m1
        k0 = {}
        if not m1:
            k0['votelib.util.sorted_votes'] = dict(translate_typed.last_known['sorted_votes'], module='votelib.util')
        # without a translated sorted_votes the call inside get_n_best is not translated at all (fail closed): the empty entry stops it
        d2, s2, m2, n2 = translate_typed(os.path.join(repo, CORE_CORE[0]), CORE_CORE[1], CORE_CORE[0],
                                         k0 or {'votelib.util.sorted_votes': dict(coq='sorted_votes', params=[], ret=VOTES, raises=False,
                                                                                  module='votelib.util (not translated)')})
        functions.update(s2)
        notes.update(n2)
        defs_out += d2
        missing += m2
        if not m2:
            known_core = dict(translate_typed.last_known['get_n_best'], module='votelib.evaluate.core', coq='Gen.Core.get_n_best')
        st = dict(status='ok' if not missing else 'partial', functions=functions, missing=missing, source=srcs, notes=notes)
        text = (CORE_HEADER % srcs) + '\n' + '\n\n'.join(defs_out) + '\n'
    except (Unsupported, SyntaxError, OSError) as e:
        text = CORE_HEADER % srcs
        st = dict(status='failed', reason=str(e), source=srcs, missing=[d['name'] for d in CORE_UTIL[1] + CORE_CORE[1]])
    qrel = COREQSEL[0]
    qnames = [d['name'] for d in COREQSEL[1]]
    if st['status'] != 'ok' or known_core is None:
        qtext = COREQSEL_HEADER % qrel
        qst = dict(status='failed', reason='unit Core is not translated', source=qrel, missing=qnames)
    else:
        try:
            d3, s3, m3, n3 = translate_typed(os.path.join(repo, qrel), COREQSEL[1], qrel, {'votelib.evaluate.core.get_n_best': known_core})
            qtext = (COREQSEL_HEADER % qrel) + '\n' + '\n\n'.join(d3) + '\n'
            qst = dict(status='ok' if not m3 else 'partial', functions=s3, missing=m3, source=qrel, notes=n3)
        except (Unsupported, SyntaxError, OSError) as e:
            qtext = COREQSEL_HEADER % qrel
            qst = dict(status='failed', reason=str(e), source=qrel, missing=qnames)
    return text, st, qtext, qst


RANK_TYPED = [
    dict(name='select_padded', cls=None, fn='select_padded', kind='body',
         params=[('sequence', 'sequence', TL(T_Q)), ('n', 'n', T_Z), ('pad_with', 'pad_with', T_Q)]),
    dict(name='Borda_set_n_candidates', cls='Borda', fn='set_n_candidates', kind='body', result_attr='_scores',
         params=[('base', 'self.base', T_Z), ('n_candidates', 'n_candidates', T_Z)]),
    dict(name='Borda_scores', cls='Borda', fn='scores', kind='body',
         ctor={'n_candidates': 'None', '_scores': 'None'},
         params=[('n_candidates', 'self.n_candidates', T_Z), ('stored_scores', 'self._scores', TL(T_Q)), ('n_ranked', 'n_ranked', T_Z)]),
    dict(name='SequenceBased_scores', cls='SequenceBased', fn='scores', kind='body',
         params=[('sequence', 'self.sequence', TL(T_Q)), ('n_ranked', 'n_ranked', T_Z)]),
]


# ---------------------------------------------------------------- part 5: class / signature tables (Gen/Signatures.v)
# For EVERY class of votelib/**/*.py (no typing needed, nothing is rejected: what the analysis cannot read as a verbatim store is
# recorded as Transformed with its source line, so the table fails closed on the side of the proofs that consume it):
#   how to_dict comes about (the @simple_serialization decorator on the class itself / inherited from a decorated base / written by
#   hand / none) and which keys it emits (serialize_params, else the parameter names of the __init__ the DECORATED class resolves to -
#   what inspect.signature(class_.__init__) sees at decoration time);
#   the constructor parameters (of the __init__ the class itself resolves to) in order, with kind and default, and for each how
#   __init__ stores it:  Stored        exactly one store `self.p = p`, an unconditional top-level statement of __init__ (or of the base
#                                      __init__ it is handed to verbatim by the one top-level super().__init__ call), p never rebound,
#                                      self.p / p never updated in place inside __init__, no setattr / vars / __dict__ / escaping self
#                        StoredAs q    the same under another attribute name
#                        NotStored     the parameter is never read by __init__
#                        Transformed   anything else (line and text of the first statement that breaks the pattern);
#   the methods other than __init__ that write self.<attr> (assignment, deletion, augmented assignment, subscript store, a call of a
#   mutating container method) - the mutation sites;  the accepts_seats class attribute;  the parameter lists of evaluate / convert /
#   validate (first definition along the MRO).
# Plus, for every function and method of the package, the default arguments that are dict / list / set displays (or comprehensions /
# dict() list() set() calls) - the shared mutable defaults.
# Base classes are resolved by name through the module's imports; the MRO is the C3 linearisation over the votelib bases (a base
# outside votelib is recorded by name and otherwise treated as `object`, except that a constructor inherited from it is 'external').
SIG_METHODS = ('evaluate', 'convert', 'validate')
SIG_MUTATORS = ('append', 'extend', 'insert', 'remove', 'pop', 'clear', 'sort', 'reverse', 'update', 'setdefault', 'popitem', 'add',
                'discard', 'difference_update', 'intersection_update', 'symmetric_difference_update', 'appendleft', 'popleft',
                'subtract', '__setitem__', '__delitem__')
SIG_DECORATOR = 'votelib.persist.simple_serialization'


def _sig_scan(repo):
    """{module name: dict(rel, tree, src, classes {name: ClassDef}, imports {local name: dotted target})}"""
    mods = {}
    root = os.path.join(repo, 'votelib')
    for dp, dn, files in os.walk(root):
        dn.sort()
        for f in sorted(files):
            if not f.endswith('.py'):
                continue
            path = os.path.join(dp, f)
            rel = os.path.relpath(path, repo)
            name = rel[:-3].replace(os.sep, '.')
            pkg = name
            if name.endswith('.__init__'):
                name = name[:-9]
                pkg = name
            else:
                pkg = name.rsplit('.', 1)[0]
            src = open(path).read()
            tree = ast.parse(src)
            imports = {}
            for n in tree.body:
                if isinstance(n, ast.Import):
                    for al in n.names:
                        if al.asname:
                            imports[al.asname] = al.name
                        else:
                            imports[al.name.split('.')[0]] = al.name.split('.')[0]
                elif isinstance(n, ast.ImportFrom):
                    base = n.module or ''
                    if n.level:
                        up = pkg.split('.')
                        up = up[:len(up) - (n.level - 1)] if n.level > 1 else up
                        base = '.'.join(up + ([n.module] if n.module else []))
                    for al in n.names:
                        imports[al.asname or al.name] = base + '.' + al.name
            mods[name] = dict(rel=rel, tree=tree, src=src, imports=imports,
                              classes={n.name: n for n in tree.body if isinstance(n, ast.ClassDef)})
    return mods


def _sig_dotted(e):
    """a.b.c as a list of names, or None"""
    parts = []
    while isinstance(e, ast.Attribute):
        parts.append(e.attr)
        e = e.value
    if isinstance(e, ast.Name):
        parts.append(e.id)
        return parts[::-1]
    return None


def collections_counter(it):
    import collections
    return collections.Counter(it)


class SigTables:
    def __init__(self, repo):
        self.mods = _sig_scan(repo)
        self.keys = [(m, c) for m in self.mods for c in self.mods[m]['classes']]
        self._mro, self._meth = {}, {}
        # module of every function definition; module-level names bound exactly once, by a plain assignment at top level
        self.fn_mod, self.consts = {}, {}
        for m, info in self.mods.items():
            for n in ast.walk(info['tree']):
                if isinstance(n, (ast.FunctionDef, ast.AsyncFunctionDef)):
                    self.fn_mod[id(n)] = m
            bound = collections_counter(x.id for x in ast.walk(info['tree']) if isinstance(x, ast.Name) and isinstance(x.ctx, (ast.Store, ast.Del)))
            cs = {}
            for st_ in info['tree'].body:
                tg, val = None, None
                if isinstance(st_, ast.Assign) and len(st_.targets) == 1 and isinstance(st_.targets[0], ast.Name):
                    tg, val = st_.targets[0].id, st_.value
                elif isinstance(st_, ast.AnnAssign) and isinstance(st_.target, ast.Name) and st_.value is not None:
                    tg, val = st_.target.id, st_.value
                if tg is not None and bound[tg] == 1:
                    cs[tg] = val
            self.consts[m] = cs

    def node(self, key):
        return self.mods[key[0]]['classes'][key[1]]

    def resolve(self, mod, e):
        """dotted name an expression of module `mod` refers to"""
        parts = _sig_dotted(e)
        if parts is None:
            return None
        m = self.mods[mod]
        head = parts[0]
        if head in m['classes'] and len(parts) == 1:
            return mod + '.' + head
        if head in m['imports']:
            return '.'.join([m['imports'][head]] + parts[1:])
        return '.'.join(parts)

    def class_key(self, dotted):
        if dotted and '.' in dotted:
            m, c = dotted.rsplit('.', 1)
            if m in self.mods and c in self.mods[m]['classes']:
                return (m, c)
        return None

    def bases(self, key):
        """(votelib base keys in order, names of the other bases)"""
        inside, outside = [], []
        for b in self.node(key).bases:
            d = self.resolve(key[0], b)
            k = self.class_key(d)
            if k is not None:
                inside.append(k)
            else:
                outside.append(d or ast.unparse(b))
        return inside, outside

    def mro(self, key):
        if key in self._mro:
            return self._mro[key]
        self._mro[key] = [key]          # guard against cycles
        seqs = [list(self.mro(b)) for b in self.bases(key)[0]] + [list(self.bases(key)[0])]
        out = [key]
        while any(seqs):
            seqs = [s for s in seqs if s]
            for s in seqs:
                h = s[0]
                if not any(h in t[1:] for t in seqs):
                    break
            else:
                raise Unsupported('inconsistent class hierarchy at %s.%s' % key)
            out.append(h)
            for s in seqs:
                if s and s[0] == h:
                    del s[0]
        self._mro[key] = out
        return out

    def methods(self, key):
        if key not in self._meth:
            self._meth[key] = {m.name: m for m in self.node(key).body if isinstance(m, (ast.FunctionDef, ast.AsyncFunctionDef))}
        return self._meth[key]

    def find_method(self, key, name, after=None):
        """(owner key, FunctionDef) of the first definition along the MRO (after the class `after`, for super())"""
        mro = self.mro(key)
        if after is not None:
            mro = mro[mro.index(after) + 1:] if after in mro else []
        for k in mro:
            if name in self.methods(k):
                return k, self.methods(k)[name]
        return None, None

    def external_bases(self, key):
        out = []
        for k in self.mro(key):
            for o in self.bases(k)[1]:
                if o not in out and o != 'object':
                    out.append(o)
        return out

    def decorated(self, key):
        decs = [self.resolve(key[0], d) for d in self.node(key).decorator_list]
        return SIG_DECORATOR in decs, [d or '?' for d in decs if d != SIG_DECORATOR]

    def class_attr(self, key, name):
        """the constant assigned to the class attribute `name` by the first class of the MRO that assigns it: (found, value node)"""
        for k in self.mro(key):
            for s in self.node(k).body:
                tg = s.targets if isinstance(s, ast.Assign) else [s.target] if isinstance(s, ast.AnnAssign) and s.value is not None else []
                if any(isinstance(t, ast.Name) and t.id == name for t in tg):
                    return True, s.value
            if name in self.methods(k):
                return True, None
        return False, None

    # ---- parameters
    def default_of(self, d, mod=None):
        """(tag, payload); a default that names a module-level constant (bound once, at top level) is read as that constant's value"""
        if d is None:
            return ('DReq', None)
        if isinstance(d, ast.Name) and mod is not None and d.id in self.consts.get(mod, {}):
            inner = self.consts[mod][d.id]
            if not isinstance(inner, ast.Name):
                return self.default_of(inner, None)
        if isinstance(d, ast.Constant):
            if d.value is None:
                return ('DNone', None)
            if isinstance(d.value, bool):
                return ('DBool', d.value)
            if isinstance(d.value, int):
                return ('DInt', d.value)
            if isinstance(d.value, str):
                return ('DStr', d.value)
        if isinstance(d, ast.UnaryOp) and isinstance(d.op, ast.USub) and isinstance(d.operand, ast.Constant) \
                and isinstance(d.operand.value, int) and not isinstance(d.operand.value, bool):
            return ('DInt', -d.operand.value)
        if isinstance(d, ast.Dict) and not d.keys:
            return ('DEmptyDict', None)
        if isinstance(d, ast.List) and not d.elts:
            return ('DEmptyList', None)
        if isinstance(d, ast.Call) and isinstance(d.func, ast.Name) and d.func.id in ('dict', 'list') and not d.args and not d.keywords:
            return ('DEmptyDict' if d.func.id == 'dict' else 'DEmptyList', None)      # dict() / list(): the same fresh empty container
        if _sig_mutable_default(d):
            return ('DMutable', ast.unparse(d))
        return ('DOther', ast.unparse(d))

    def params(self, fd, skip_first=True):
        """[(name, kind, default)] of a function definition (without self)"""
        a = fd.args
        mod = self.fn_mod.get(id(fd))
        pos = a.posonlyargs + a.args
        dfl = [None] * (len(pos) - len(a.defaults)) + list(a.defaults)
        out = [(x.arg, 'PPosOnly' if i < len(a.posonlyargs) else 'PPos', self.default_of(d, mod)) for i, (x, d) in enumerate(zip(pos, dfl))]
        if skip_first and out:
            out = out[1:]
        if a.vararg:
            out.append((a.vararg.arg, 'PVarPos', ('DReq', None)))
        for x, d in zip(a.kwonlyargs, a.kw_defaults):
            out.append((x.arg, 'PKwOnly', self.default_of(d, mod)))
        if a.kwarg:
            out.append((a.kwarg.arg, 'PVarKw', ('DReq', None)))
        return out

    # ---- writes to self.<attr>
    @staticmethod
    def self_name(fd):
        a = fd.args.posonlyargs + fd.args.args
        return a[0].arg if a else None

    def writes(self, fd):
        """[(attr, kind 'assign'|'inplace', node)] for every write to <self>.<attr> inside fd"""
        me = self.self_name(fd)
        out = []
        if me is None:
            return out

        def attr_of(t):
            if isinstance(t, ast.Attribute) and isinstance(t.value, ast.Name) and t.value.id == me:
                return t.attr
            return None

        def targets(t):
            if isinstance(t, (ast.Tuple, ast.List)):
                for x in t.elts:
                    yield from targets(x)
            elif isinstance(t, ast.Starred):
                yield from targets(t.value)
            else:
                yield t
        for n in ast.walk(fd):
            tg = []
            if isinstance(n, ast.Assign):
                tg = [x for t in n.targets for x in targets(t)]
            elif isinstance(n, (ast.AugAssign, ast.AnnAssign)):
                tg = [n.target]
            elif isinstance(n, (ast.For, ast.AsyncFor)):
                tg = list(targets(n.target))
            elif isinstance(n, (ast.With, ast.AsyncWith)):
                tg = [x for it in n.items if it.optional_vars is not None for x in targets(it.optional_vars)]
            elif isinstance(n, ast.Delete):
                tg = [x for t in n.targets for x in targets(t)]
            elif isinstance(n, ast.comprehension):
                tg = list(targets(n.target))
            for t in tg:
                a = attr_of(t)
                if a is not None:
                    out.append((a, 'assign', n))
                elif isinstance(t, ast.Subscript):
                    b = t.value
                    while isinstance(b, ast.Subscript):
                        b = b.value
                    if attr_of(b) is not None:
                        out.append((attr_of(b), 'inplace', n))
            if isinstance(n, ast.Call) and isinstance(n.func, ast.Attribute) and n.func.attr in SIG_MUTATORS:
                b = n.func.value
                while isinstance(b, ast.Subscript):
                    b = b.value
                if attr_of(b) is not None:
                    out.append((attr_of(b), 'inplace', n))
        return out

    @staticmethod
    def stored_value(n, attr, me):
        """the plain name a top-level statement `n` stores into <me>.<attr> (each target of n paired with its value), or None"""
        def is_attr(t):
            return isinstance(t, ast.Attribute) and isinstance(t.value, ast.Name) and t.value.id == me and t.attr == attr
        pairs = []
        if isinstance(n, ast.AnnAssign) and n.value is not None:
            pairs = [(n.target, n.value)]
        elif isinstance(n, ast.Assign):
            for t in n.targets:
                if isinstance(t, (ast.Tuple, ast.List)) and isinstance(n.value, (ast.Tuple, ast.List)) and len(t.elts) == len(n.value.elts) \
                        and not any(isinstance(x, ast.Starred) for x in list(t.elts) + list(n.value.elts)):
                    pairs += list(zip(t.elts, n.value.elts))
                else:
                    pairs.append((t, n.value))
        got = [v for t, v in pairs if is_attr(t)]
        if len(got) == 1 and isinstance(got[0], ast.Name):
            return got[0].id
        return None

    def dynamic(self, fd):
        """first node through which fd may write attributes the analysis cannot see: setattr / vars / __dict__ / self handed to a call"""
        me = self.self_name(fd)
        for n in ast.walk(fd):
            if isinstance(n, ast.Call):
                f = n.func
                if isinstance(f, ast.Name) and f.id in ('setattr', 'delattr', 'vars', 'exec', 'eval'):
                    return n
                is_super_init = (isinstance(f, ast.Attribute) and f.attr == '__init__' and isinstance(f.value, ast.Call)
                                 and isinstance(f.value.func, ast.Name) and f.value.func.id == 'super')
                for x in list(n.args) + [k.value for k in n.keywords]:
                    if isinstance(x, ast.Starred):
                        x = x.value
                    if isinstance(x, ast.Name) and x.id == me and not (isinstance(f, ast.Name) and f.id in ('getattr', 'hasattr', 'isinstance', 'type', 'id')):
                        return n
                if isinstance(f, ast.Attribute) and f.attr == '__init__' and not is_super_init:
                    return n
            if isinstance(n, ast.Attribute) and n.attr == '__dict__':
                return n
        return None

    def init_stores(self, key, owner, fd, depth=0):
        """{param name: (tag, payload)} for the __init__ `fd` (defined in `owner`) run on an instance of `key`"""
        ps = self.params(fd)
        me = self.self_name(fd)
        lines = self.mods[owner[0]]['src'].split('\n')

        def trans(node):
            ln = getattr(node, 'lineno', fd.lineno)
            return ('Transformed', (ln, '%s:%d: %s' % (self.mods[owner[0]]['rel'], ln, ' '.join(lines[ln - 1].split()))))
        dyn = self.dynamic(fd)
        if dyn is not None or me is None or depth > 8:
            return {p: trans(dyn if dyn is not None else fd) for p, _, _ in ps}
        for hook in ('__setattr__', '__getattribute__', '__getattr__', '__delattr__'):
            ho, hfd = self.find_method(key, hook)
            if hfd is not None:
                return {p: trans(fd) for p, _, _ in ps}        # attribute access is intercepted: nothing is known to be verbatim
        if self.class_attr(key, '__slots__')[0]:
            return {p: trans(fd) for p, _, _ in ps}
        top = {id(s): i for i, s in enumerate(fd.body)}
        writes = self.writes(fd)
        # attribute writes of the methods __init__ calls on self (self.m(..)): they count as further, non-verbatim writes
        called = []
        for n in ast.walk(fd):
            if isinstance(n, ast.Call) and isinstance(n.func, ast.Attribute) and isinstance(n.func.value, ast.Name) and n.func.value.id == me:
                ok_, m = self.find_method(key, n.func.attr)
                if m is not None:
                    called += [(a, 'inplace', n) for a, _, _ in self.writes(m)]
                    if self.dynamic(m) is not None:
                        return {p: trans(n) for p, _, _ in ps}
                else:
                    return {p: trans(n) for p, _, _ in ps}       # an attribute that is called: unknown code
        by_attr = {}
        for a, kind, n in writes + called:
            by_attr.setdefault(a, []).append((kind, n))
        rebound = {}
        for n in ast.walk(fd):
            if isinstance(n, ast.Name) and isinstance(n.ctx, (ast.Store, ast.Del)):
                rebound.setdefault(n.id, n)
            if isinstance(n, ast.NamedExpr) and isinstance(n.target, ast.Name):
                rebound.setdefault(n.target.id, n)
        # the parameter object itself updated in place
        touched = {}
        for n in ast.walk(fd):
            b = None
            if isinstance(n, ast.Call) and isinstance(n.func, ast.Attribute) and n.func.attr in SIG_MUTATORS:
                b = n.func.value
            elif isinstance(n, ast.Subscript) and isinstance(n.ctx, (ast.Store, ast.Del)):
                b = n.value
            elif isinstance(n, ast.AugAssign):
                b = n.target
            while isinstance(b, ast.Subscript):
                b = b.value
            if isinstance(b, ast.Name):
                touched.setdefault(b.id, n)
        # the one top-level super().__init__(..) call
        sup = [s for s in fd.body if isinstance(s, ast.Expr) and isinstance(s.value, ast.Call) and isinstance(s.value.func, ast.Attribute)
               and s.value.func.attr == '__init__' and isinstance(s.value.func.value, ast.Call)
               and isinstance(s.value.func.value.func, ast.Name) and s.value.func.value.func.id == 'super' and not s.value.func.value.args]
        all_sup = [n for n in ast.walk(fd) if isinstance(n, ast.Call) and isinstance(n.func, ast.Attribute) and n.func.attr == '__init__'
                   and isinstance(n.func.value, ast.Call) and isinstance(n.func.value.func, ast.Name) and n.func.value.func.id == 'super']
        handed, base_writes = {}, set()
        if all_sup:
            if len(sup) != 1 or len(all_sup) != 1:
                return {p: trans(all_sup[0]) for p, _, _ in ps}
            call = sup[0].value
            bo, bfd = self.find_method(key, '__init__', after=owner)
            if bfd is None:
                if self.external_bases(key):
                    return {p: trans(call) for p, _, _ in ps}
                bst, bps = {}, []
            else:
                bst = self.init_stores(key, bo, bfd, depth + 1)
                bps = self.params(bfd)
                for a, _, _ in self.writes(bfd):
                    base_writes.add(a)
                sub = bfd
                seen_ = 0
                while sub is not None and seen_ < 8:      # attributes written further up the chain
                    seen_ += 1
                    o2, f2 = self.find_method(key, '__init__', after=bo)
                    if f2 is None or not any(isinstance(n, ast.Call) and isinstance(n.func, ast.Attribute) and n.func.attr == '__init__' for n in ast.walk(sub)):
                        break
                    for a, _, _ in self.writes(f2):
                        base_writes.add(a)
                    bo, sub = o2, f2
            if any(isinstance(x, ast.Starred) for x in call.args) or any(k.arg is None for k in call.keywords):
                return {p: trans(call) for p, _, _ in ps}
            posn = [b for b in bps if b[1] in ('PPos', 'PPosOnly')]
            for i, x in enumerate(call.args):
                if isinstance(x, ast.Name) and i < len(posn):
                    handed.setdefault(x.id, []).append(posn[i][0])
            for k in call.keywords:
                if isinstance(k.value, ast.Name) and any(b[0] == k.arg and b[1] in ('PPos', 'PKwOnly') for b in bps):
                    handed.setdefault(k.value.id, []).append(k.arg)
        out = {}
        for p, kind, _ in ps:
            if kind in ('PVarPos', 'PVarKw'):
                reads = [n for n in ast.walk(fd) if isinstance(n, ast.Name) and n.id == p and isinstance(n.ctx, ast.Load)]
                out[p] = trans(min(reads, key=lambda n: (n.lineno, n.col_offset))) if reads else ('NotStored', None)
                continue
            reads = sorted((n for n in ast.walk(fd) if isinstance(n, ast.Name) and n.id == p and isinstance(n.ctx, ast.Load)),
                           key=lambda n: (n.lineno, n.col_offset))
            if p in rebound:
                out[p] = trans(rebound[p])
                continue
            if p in touched:
                out[p] = trans(touched[p])
                continue
            # verbatim stores of p: top-level `self.a = p` (also `self.a: T = p`, `self.a, self.b = p, q`, `self.a = self.b = p`)
            verb = [(a, n) for a, lst in by_attr.items() for kind_, n in lst
                    if kind_ == 'assign' and id(n) in top and self.stored_value(n, a, me) == p]
            own = by_attr.get(p, [])
            if own and self.find_method(key, p)[1] is not None:
                out[p] = trans(self.find_method(key, p)[1])       # the class defines p as a method / property: the store goes through it
                continue
            if own:
                if len(own) == 1 and any(a == p and n is own[0][1] for a, n in verb) and p not in base_writes:
                    out[p] = ('Stored', None)
                else:
                    bad = [n for kind_, n in own if not any(a == p and n is m for a, m in verb)]
                    out[p] = trans(bad[0] if bad else own[-1][1])
                continue
            if p in handed and len(handed[p]) == 1:
                q = handed[p][0]
                tag, pay = bst.get(q, ('NotStored', None))
                target = q if tag == 'Stored' else pay if tag == 'StoredAs' else None
                if target is not None and target not in by_attr:
                    out[p] = ('Stored', None) if target == p else ('StoredAs', target)
                    continue
                out[p] = trans(sup[0])
                continue
            others = [(a, n) for a, n in verb if a != p]
            if len(others) == 1 and len(by_attr[others[0][0]]) == 1 and others[0][0] not in base_writes:
                out[p] = ('StoredAs', others[0][0])
                continue
            out[p] = trans(reads[0]) if reads else ('NotStored', None)
        return out

    # ---- one class
    def describe(self, key):
        node = self.node(key)
        mod = self.mods[key[0]]
        dec, other_decs = self.decorated(key)
        info = dict(name=key[0] + '.' + key[1], module=key[0], short=key[1], line=node.lineno, source=mod['rel'],
                    bases=[a + '.' + b for a, b in self.bases(key)[0]], external_bases=self.external_bases(key),
                    other_decorators=other_decs)
        # to_dict
        kind, frm, keys_owner = 'TDNone', '', None
        for k in self.mro(key):
            d, od = self.decorated(k)
            hand = 'to_dict' in self.methods(k) or 'from_dict' in self.methods(k)
            if d:
                kind, frm, keys_owner = ('TDDecorated' if k == key else 'TDInherited'), k[0] + '.' + k[1], k
                break
            if hand:
                kind, frm = ('TDHand' if k == key else 'TDHandInherited'), k[0] + '.' + k[1]
                break
            if od:
                kind, frm = 'TDUnknown', k[0] + '.' + k[1]      # a decorator the analysis does not know may add anything
                break
        info['todict'], info['todict_from'] = kind, frm
        info['from_dict'] = self.find_method(key, 'from_dict')[1] is not None
        keys, keys_note = [], ''
        if keys_owner is not None:
            found, val = self.class_attr(keys_owner, 'serialize_params')
            if found:
                if isinstance(val, (ast.List, ast.Tuple)) and all(isinstance(x, ast.Constant) and isinstance(x.value, str) for x in val.elts):
                    keys, keys_note = [x.value for x in val.elts], 'serialize_params'
                else:
                    keys, keys_note, info['todict'] = [], 'serialize_params is not a list of string literals', 'TDUnknown'
            else:
                io, ifd = self.find_method(keys_owner, '__init__')
                if ifd is None:
                    if self.external_bases(keys_owner):
                        keys, keys_note, info['todict'] = [], 'constructor inherited from outside votelib', 'TDUnknown'
                    else:
                        keys, keys_note = [], 'object.__init__'
                else:
                    keys = [p for p, _, _ in self.params(ifd, skip_first=False) if p != 'self']
                    keys_note = '__init__ of %s.%s' % io
        info['keys'], info['keys_from'] = keys, keys_note
        # constructor
        io, ifd = self.find_method(key, '__init__')
        if ifd is None:
            info['init_from'] = '<external>' if self.external_bases(key) else ''
            info['params'] = []
        else:
            info['init_from'] = io[0] + '.' + io[1]
            st = self.init_stores(key, io, ifd)
            info['params'] = [dict(name=p, kind=k, default=list(d), store=list(st[p])) for p, k, d in self.params(ifd)]
        # mutation sites: the definition of each method that an instance of the class sees
        muts, seen = [], set()
        for k in self.mro(key):
            for mname, m in self.methods(k).items():
                if mname in seen:
                    continue
                seen.add(mname)
                if mname == '__init__' or any(isinstance(d, ast.Name) and d.id in ('staticmethod', 'classmethod') for d in m.decorator_list):
                    continue
                for a, wkind, n in self.writes(m):
                    e = (mname, a, wkind)
                    if e not in muts:
                        muts.append(e)
        info['mutations'] = [list(e) for e in muts]
        found, val = self.class_attr(key, 'accepts_seats')
        info['accepts_seats_attr'] = (val.value if found and isinstance(val, ast.Constant) and isinstance(val.value, bool) else
                                      'other' if found else None)
        info['methods'] = []
        for mname in SIG_METHODS:
            mo, m = self.find_method(key, mname)
            if m is not None:
                info['methods'].append(dict(name=mname, owner=mo[0] + '.' + mo[1],
                                            params=[dict(name=p, kind=k, default=list(d)) for p, k, d in self.params(m)]))
        return info

    def mutable_defaults(self):
        """every function / method of the package: default arguments that are mutable displays"""
        out = []
        for mname in self.mods:
            m = self.mods[mname]

            def visit(node, prefix):
                for ch in ast.iter_child_nodes(node):
                    if isinstance(ch, ast.ClassDef):
                        visit(ch, prefix + [ch.name])
                    elif isinstance(ch, (ast.FunctionDef, ast.AsyncFunctionDef)):
                        a = ch.args
                        pos = a.posonlyargs + a.args
                        pairs = list(zip(pos[len(pos) - len(a.defaults):], a.defaults)) + \
                            [(k, d) for k, d in zip(a.kwonlyargs, a.kw_defaults) if d is not None]
                        for arg, d in pairs:
                            via = None
                            if isinstance(d, ast.Name) and d.id in self.consts.get(mname, {}):
                                via, d = d.id, self.consts[mname][d.id]       # a module-level constant used as the default
                            if _sig_mutable_default(d):
                                out.append(dict(module=mname, qualname='.'.join(prefix + [ch.name]), param=arg.arg,
                                                source=ast.unparse(d), line=d.lineno, local='<locals>' in '.'.join(prefix), via=via))
                        visit(ch, prefix + [ch.name + '.<locals>'])
            visit(m['tree'], [])
        return out


def _sig_mutable_default(d):
    return isinstance(d, (ast.Dict, ast.List, ast.Set, ast.ListComp, ast.DictComp, ast.SetComp)) or (
        isinstance(d, ast.Call) and isinstance(d.func, ast.Name)
        and d.func.id in ('dict', 'list', 'set', 'defaultdict', 'Counter', 'OrderedDict', 'bytearray', 'deque'))


def _coq_str(s):
    s = ''.join(c if 32 <= ord(c) < 127 else '?' for c in str(s))
    return '"%s"' % s.replace('"', '""')


def _coq_default(d):
    tag, pay = d
    if tag in ('DReq', 'DNone', 'DEmptyDict', 'DEmptyList'):
        return tag
    if tag == 'DBool':
        return '(DBool %s)' % ('true' if pay else 'false')
    if tag == 'DInt':
        return '(DInt (%d))' % pay
    return '(%s %s)' % (tag, _coq_str(pay))


def _coq_store(s):
    tag, pay = s
    if tag in ('Stored', 'NotStored'):
        return tag
    if tag == 'StoredAs':
        return '(StoredAs %s)' % _coq_str(pay)
    return '(Transformed (%d) %s)' % (pay[0], _coq_str(pay[1]))


def _coq_list(items, indent='    '):
    items = list(items)
    if not items:
        return '[]'
    return '[' + (';\n' + indent + ' ').join(items) + ']'


SIG_HEADER = """(* GENERATED by tools/py2v.py (part 5) from votelib/**/*.py -- do not edit.
   One record per class: how to_dict comes about and which keys it emits, the constructor parameters with the way __init__ stores
   each of them, the methods that write attributes after construction, the accepts_seats class attribute, the parameter lists of
   evaluate / convert / validate; and the list of shared mutable default arguments of the whole package.  The reading rules are in
   the comment above class SigTables in tools/py2v.py; what is not recognised as a verbatim store is Transformed. *)
From Coq Require Import ZArith List String Bool.
Import ListNotations.
Open Scope string_scope.

Inductive store := Stored | StoredAs (attr : string) | Transformed (line : Z) (src : string) | NotStored.
Inductive pkind := PPosOnly | PPos | PVarPos | PKwOnly | PVarKw.
Inductive dflt := DReq | DNone | DBool (b : bool) | DInt (z : Z) | DStr (s : string) | DEmptyDict | DEmptyList
                | DMutable (src : string) | DOther (src : string).
Inductive tdkind := TDDecorated | TDInherited | TDHand | TDHandInherited | TDUnknown | TDNone.
Record param := { p_name : string; p_kind : pkind; p_default : dflt; p_store : store }.
Record mparam := { mp_name : string; mp_kind : pkind; mp_default : dflt }.
Record msig := { m_name : string; m_owner : string; m_params : list mparam }.
Record cls := {
  c_name : string;                     (* module.Class, as persist.scoped_class_name gives it *)
  c_module : string;
  c_todict : tdkind;
  c_todict_from : string;              (* the decorated class / the class defining to_dict *)
  c_from_dict : bool;                  (* the class (or a base) defines from_dict: persist.deserialize_class calls it instead of the constructor *)
  c_keys : list string;                (* keys of to_dict besides 'class' (decorated classes) *)
  c_init_from : string;                (* the class whose __init__ runs; "" = object.__init__ *)
  c_params : list param;               (* without self *)
  c_mutations : list (string * string * bool);   (* (method, attribute, in place?) written after construction *)
  c_accepts_seats : option bool;       (* class attribute read by core.accepts_seats *)
  c_methods : list msig                (* evaluate / convert / validate as the class resolves them (without self) *)
}.
"""


def generate_signatures(repo):
    tb = SigTables(repo)
    infos = [tb.describe(k) for k in tb.keys]
    muts = tb.mutable_defaults()
    recs = []
    for c in infos:
        ps = _coq_list(('{| p_name := %s; p_kind := %s; p_default := %s; p_store := %s |}'
                        % (_coq_str(p['name']), p['kind'], _coq_default(p['default']), _coq_store(p['store'])) for p in c['params']), '       ')
        ms = _coq_list(('{| m_name := %s; m_owner := %s; m_params := %s |}' % (
            _coq_str(m['name']), _coq_str(m['owner']),
            _coq_list(('{| mp_name := %s; mp_kind := %s; mp_default := %s |}' % (_coq_str(p['name']), p['kind'], _coq_default(p['default']))
                       for p in m['params']), '          ')) for m in c['methods']), '       ')
        acc = c['accepts_seats_attr']
        recs.append('  {| c_name := %s; c_module := %s; c_todict := %s; c_todict_from := %s; c_from_dict := %s;\n     c_keys := %s;\n     c_init_from := %s;\n'
                    '     c_params := %s;\n     c_mutations := %s;\n     c_accepts_seats := %s;\n     c_methods := %s |}'
                    % (_coq_str(c['name']), _coq_str(c['module']), c['todict'], _coq_str(c['todict_from']), 'true' if c['from_dict'] else 'false',
                       _coq_list((_coq_str(k) for k in c['keys']), '       '), _coq_str(c['init_from']), ps,
                       _coq_list(('(%s, %s, %s)' % (_coq_str(m), _coq_str(a), 'true' if w == 'inplace' else 'false') for m, a, w in c['mutations']), '       '),
                       'Some true' if acc is True else 'Some false' if acc is False else 'None', ms))
    text = SIG_HEADER + '\nDefinition classes : list cls := [\n' + ';\n'.join(recs) + '\n].\n\n'
    text += ('(* (module, qualified name, parameter, source of the default) of every default argument of the package that is a mutable\n'
             '   display; functions nested in functions carry <locals> in the name *)\n'
             'Definition mutable_defaults : list (string * string * string * string) := %s.\n'
             % _coq_list(('(%s, %s, %s, %s)' % (_coq_str(e['module']), _coq_str(e['qualname']), _coq_str(e['param']), _coq_str(e['source']))
                          for e in muts), '  '))
    return text, infos, muts


# ---------------------------------------------------------------- part 6: validation code over dynamically typed objects (Gen/Validate.v)
# vote.py VoteMagnitudeChecker / DefaultedCheckers / the five validators, candidate.py nominators, convert.InvalidVoteEliminator.convert,
# translated as WHOLE METHOD BODIES.  A ballot is an arbitrary object (Model.Validate.pyobj); every operation on it is dynamic and read
# by Prelude/PyObj.v (py_len, py_iter, py_getitem, py_unpack2, py_set_add, py_sum, py_ge ..: the value, or the exception CPython
# raises).  An instance of a translated class is represented by its attributes (VAL_CLASSES: one parameter per attribute, in the
# declared order); a checker VALUE is a Model.Validate.bounds pair, a DefaultedCheckers value a keyed_bounds pair, a nominator a
# Model.Validate.nominator whose constructor selects the class (Nominator_validate dispatches on it), a validator a function.
# Exceptions are results: a method declared raising returns  T + pyvexn ; `raise X(..)` is  inr PyX  (arguments of the exception are
# not evaluated: they are messages); a raising operation is hoisted in evaluation order as
#    match <op> with inl v => <the statement and what follows> | inr e => inr e end
# Accepted subset (anything else: Unsupported -> the unit is marked failed, fail closed):
#    stmt ::= x = e | x += e | x = set() | x = [] | x = x.copy() | return e | raise X(..) | e.m(..) | s.add(e) | s.update(e) | l.append(e)
#           | del d[e] | if c: .. [elif/else: ..]  (a branch that falls through hands on the variables it assigns as a tuple)
#           | for x in e: .. | for a, b in e: .. | for i, x in enumerate(e): ..   (-> py_for over the items, state = the variables assigned)
#           | try: e.m(..) except <VoteError>: ..   (-> a test of the exception constructor against the subclasses of VoteError in vote.py)
#    e ::= int | name | self.a | self.m(..) | super().m(..) | e.m(..) for a translated class | d.get(k, e) | e[i] | e + e | e - e
#        | len(e) | sum(g) | frozenset(g) | bool(e) | any(bounds) | round(e, k) | isinstance(e, T) | not e | e and e | e or e (short circuit kept when an operand may raise)
#        | e (<|<=|>|>=|==|!=) e | e is [not] None | e [not] in l | e.candidacy_for (boolean context)
#    g ::= e for x in e | e for a, b in e          isinstance(e, T): T a class of candidate.py, str, frozenset, tuple, list, collections.abc.Set|Sequence, or a
#    tuple of these -> a test of the constructor of the object, the candidate kinds (str, Person, PoliticalParty, Coalition, blank
#    options) placed by the class hierarchy READ FROM candidate.py.
VAL_HEADER = """(* GENERATED by tools/py2v.py (part 6) from votelib/vote.py, votelib/candidate.py, votelib/convert.py -- do not edit. *)
From Coq Require Import ZArith QArith List Bool.
From VL Require Import Model.Validate Prelude.PyObj.
Import ListNotations.
(* Model.Validate is imported for the object grammar (pyobj, nominator, bounds, keyed_bounds) only; the operations on objects are
   read by Prelude/PyObj.v; an operation that may raise is a match on its result, in evaluation order. *)
"""

VAL_COQ = {'obj': 'pyobj', 'int': 'Z', 'bool': 'bool', 'optnum': 'option Q', 'set': 'list pyobj', 'list': 'list pyobj', 'unit': 'unit',
           'nom': 'nominator', 'validator': '(pyobj -> unit + pyvexn)', 'votes': 'list (pyobj * Z)', 'zdict': 'list (Z * bounds)',
           'bounds': 'bounds', 'kbounds': 'keyed_bounds'}
VAL_REP = {'bounds': 'VoteMagnitudeChecker', 'kbounds': 'DefaultedCheckers'}      # value type -> the class it is an instance of

_V = ('validate', [('vote', 'obj')], 'unit', True)
_NV = ('validate', [('candidate', 'obj')], 'unit', True)
VAL_CLASSES = [
    dict(file='vote', name='VoteMagnitudeChecker', fields=[('min_value', 'optnum'), ('max_value', 'optnum')], derived=['_active'],
         methods=[('__bool__', [], 'bool', False), ('is_valid', [('value', 'obj')], 'bool', True), ('check', [('value', 'obj')], 'unit', True)]),
    dict(file='vote', name='DefaultedCheckers', fields=[('checkers', 'zdict'), ('default', 'bounds')],
         methods=[('__getitem__', [('key', 'int')], 'bounds', False)]),
    dict(file='candidate', name='BasicNominator', ctor='NBasic', fields=[('allow_blank', 'bool')], methods=[_NV]),
    dict(file='candidate', name='PersonNominator', ctor='NPerson', fields=[('allow_independents', 'bool'), ('allow_blank', 'bool')], methods=[_NV]),
    dict(file='candidate', name='PartyNominator', ctor='NParty', fields=[('allow_coalitions', 'bool'), ('allow_blank', 'bool')], methods=[_NV]),
    dict(file='vote', name='SimpleVoteValidator', fields=[('nominator', 'nom')], methods=[_V]),
    dict(file='vote', name='ApprovalVoteValidator', fields=[('nominator', 'nom'), ('count_checker', 'bounds')], methods=[_V]),
    dict(file='vote', name='RankedVoteValidator', fields=[('nominator', 'nom'), ('total_count_checker', 'bounds'),
                                                          ('rank_vote_count_checkers', 'kbounds')], methods=[_V]),
    dict(file='vote', name='ScoreVoteValidator', fields=[('nominator', 'nom'), ('n_scorings_checker', 'bounds'), ('sum_checkers', 'kbounds')],
         methods=[_V]),
    dict(file='vote', name='EnumScoreVoteValidator', fields=[('nominator', 'nom'), ('n_scorings_checker', 'bounds'), ('sum_checkers', 'kbounds'),
                                                             ('score_levels', 'list')], methods=[_V]),
    dict(file='vote', name='RangeVoteValidator', fields=[('nominator', 'nom'), ('n_scorings_checker', 'bounds'), ('sum_checkers', 'kbounds'),
                                                         ('range_checker', 'bounds')], methods=[_V]),
    dict(file='convert', name='InvalidVoteEliminator', fields=[('validator', 'validator')],
         methods=[('convert', [('votes', 'votes')], 'votes', True)]),
]
VAL_FILES = {'vote': 'votelib/vote.py', 'candidate': 'votelib/candidate.py', 'convert': 'votelib/convert.py'}
# the concrete class of every candidate kind of the grammar (harness/props/c20.py pyobj builds exactly these)
VAL_KINDS = [('OCand KStr _', ['str']), ('OCand (KPerson _) _', ['Person']), ('OCand KParty _', ['PoliticalParty']),
             ('OCand KCoalition _', ['Coalition']), ('OCand KBlank _', ['NoneOfTheAbove', 'ReopenNominations'])]
VAL_BUILTIN = {'str': {'str', 'collections.abc.Sequence'}, 'tuple': {'tuple', 'collections.abc.Sequence'},
               'list': {'list', 'collections.abc.Sequence'}, 'frozenset': {'frozenset', 'collections.abc.Set'}}
VAL_EXC = ['VoteError', 'VoteTypeError', 'VoteMagnitudeError', 'VoteValueError', 'CandidateError']


def _v_dotted(e):
    if isinstance(e, ast.Name):
        return e.id
    if isinstance(e, ast.Attribute):
        b = _v_dotted(e.value)
        return None if b is None else b + '.' + e.attr
    return None


def _v_stores(stmts):
    out = []
    for s in stmts:
        for n in ast.walk(s):
            if isinstance(n, ast.Name) and isinstance(n.ctx, ast.Store):
                out.append(n.id)
            elif isinstance(n, ast.Call) and isinstance(n.func, ast.Attribute) and isinstance(n.func.value, ast.Name) \
                    and n.func.attr in ('add', 'update', 'append'):
                out.append(n.func.value.id)
            elif isinstance(n, ast.Delete):
                for t in n.targets:
                    if isinstance(t, ast.Subscript) and isinstance(t.value, ast.Name):
                        out.append(t.value.id)
    seen = []
    for x in out:
        if x not in seen:
            seen.append(x)
    return seen


class VX:
    def __init__(self, trees):
        self.trees = trees
        self.classes = {c['name']: c for c in VAL_CLASSES}
        self.defs = {}           # (class, method) -> (params, ret, raising)
        self.n = 0
        self.hs = []
        self.bases = {}          # class name -> base names, over the three files
        for t in trees.values():
            for cd in t.body:
                if isinstance(cd, ast.ClassDef):
                    self.bases[cd.name] = [_v_dotted(b) for b in cd.bases if _v_dotted(b)]

    # ---- class hierarchy
    def ancestors(self, name):
        out, todo = set(), [name]
        while todo:
            c = todo.pop()
            if c in out:
                continue
            out.add(c)
            todo.extend(b.split('.')[-1] for b in self.bases.get(c, []))
        return out

    def classdef(self, cname):
        t = self.trees[self.classes[cname]['file']]
        for cd in t.body:
            if isinstance(cd, ast.ClassDef) and cd.name == cname:
                return cd
        raise Unsupported('class %s not found' % cname)

    def method(self, cname, mname):
        for fd in self.classdef(cname).body:
            if isinstance(fd, ast.FunctionDef) and fd.name == mname:
                return fd
        return None

    def parent(self, cname):
        bs = [b.split('.')[-1] for b in self.bases.get(cname, []) if b.split('.')[-1] in self.classes]
        if len(bs) != 1:
            raise Unsupported('no translated base class of %s' % cname)
        return bs[0]

    def isinstance_term(self, x, tnode):
        ts = tnode.elts if isinstance(tnode, ast.Tuple) else [tnode]
        names = []
        for t in ts:
            d = _v_dotted(t)
            if d is None:
                die(tnode, 'isinstance against a computed class')
            if not (d in self.bases or any(d in v for v in VAL_BUILTIN.values())):
                die(tnode, 'isinstance against a class the object grammar does not place')
            names.append(d)
        arms = []
        for pat, concrete in VAL_KINDS:
            verdicts = set()
            for c in concrete:
                if c in VAL_BUILTIN:
                    verdicts.add(any(n in VAL_BUILTIN[c] for n in names))
                else:
                    if c not in self.bases:
                        raise Unsupported('candidate class %s not found' % c)
                    verdicts.add(any(n in self.ancestors(c) for n in names))
            if len(verdicts) != 1:
                die(tnode, 'the classes of one candidate kind disagree')
            arms.append('%s => %s' % (pat, 'true' if verdicts.pop() else 'false'))
        arms.append('ONum _ _ => false | ONone => false')
        for pat, c in (('OTuple _', 'tuple'), ('OFrozen _', 'frozenset'), ('OList _', 'list')):
            arms.append('%s => %s' % (pat, 'true' if any(n in VAL_BUILTIN[c] for n in names) else 'false'))
        return '(match %s with %s end)' % (x, ' | '.join(arms))

    # ---- plumbing
    def fresh(self, p):
        self.n += 1
        return "%s'%d" % (p, self.n)

    def hoist(self, term, p='h'):
        v = self.fresh(p)
        self.hs.append((v, term))
        return v

    def scoped(self, fn):
        old, self.hs = self.hs, []
        try:
            r = fn()
            hs = self.hs
        finally:
            self.hs = old
        return r, hs

    def wrap(self, hs, body):
        for v, t in reversed(hs):
            e = self.fresh('e')
            body = '(match %s with inl %s => %s | inr %s => inr %s end)' % (t, v, body, e, e)
        return body

    def coerce(self, term, ty, want, node):
        if ty == want:
            return term
        if ty == 'int' and want == 'obj':
            return '(py_int %s)' % term
        die(node, 'a value of type %s where %s is expected' % (ty, want))

    def tup(self, names, env):
        if not names:
            return 'tt'
        if len(names) == 1:
            return env[names[0]][0]
        return '(%s)' % ', '.join(env[n][0] for n in names)

    def untup(self, names, var):
        if not names:
            return ''
        if len(names) == 1:
            return 'let %s := %s in ' % (names[0], var)
        return "let '(%s) := %s in " % (', '.join(names), var)

    # ---- calls of translated methods
    def self_args(self, cname, env):
        return [env['self.' + f][0] for f, _ in self.classes[cname]['fields']]

    def call_method(self, cname, mname, selfargs, argnodes, env, node):
        if (cname, mname) not in self.defs:
            die(node, 'method %s.%s is not translated (yet)' % (cname, mname))
        params, ret, raising = self.defs[(cname, mname)]
        if len(argnodes) != len(params):
            die(node, 'argument count')
        args = []
        for a, (_, pty) in zip(argnodes, params):
            t, ty = self.ex(a, env)
            args.append(self.coerce(t, ty, pty, a))
        term = '(%s_%s %s)' % (cname, mname, ' '.join(selfargs + args))
        if raising:
            return self.hoist(term), ret
        return term, ret

    def call(self, n, env):
        f = n.func
        if n.keywords:
            die(n, 'keyword arguments')
        recv = f.value
        if isinstance(recv, ast.Call) and isinstance(recv.func, ast.Name) and recv.func.id == 'super' and not recv.args:
            p = self.parent(self.cur)
            return self.call_method(p, f.attr, self.self_args(p, env), n.args, env, n)
        if isinstance(recv, ast.Name) and recv.id == 'self':
            return self.call_method(self.cur, f.attr, self.self_args(self.cur, env), n.args, env, n)
        v, t = self.ex(recv, env)
        if t in VAL_REP:
            return self.call_method(VAL_REP[t], f.attr, ['(fst %s)' % v, '(snd %s)' % v], n.args, env, n)
        if t == 'nom':
            if ('Nominator', f.attr) not in self.defs:
                die(n, 'nominator method')
            return self.call_method('Nominator', f.attr, [v], n.args, env, n)
        if t == 'validator' and f.attr == 'validate' and len(n.args) == 1:
            a, at = self.ex(n.args[0], env)
            return self.hoist('(%s %s)' % (v, self.coerce(a, at, 'obj', n))), 'unit'
        if t == 'zdict' and f.attr == 'get' and len(n.args) == 2:
            k, kt = self.ex(n.args[0], env)
            d, dt = self.ex(n.args[1], env)
            if kt != 'int' or dt != 'bounds':
                die(n, 'dict.get types')
            return '(py_zget %s %s %s)' % (v, k, d), 'bounds'
        if t == 'votes' and f.attr == 'keys' and not n.args:
            return '(map fst %s)' % v, 'list'
        if t == 'votes' and f.attr == 'copy' and not n.args:
            return v, 'votes'
        die(n, 'method call on a value of type %s' % (t,))

    # ---- expressions
    def ex(self, n, env):
        if isinstance(n, ast.Name):
            if n.id in env:
                return env[n.id]
            die(n, 'unknown name')
        if isinstance(n, ast.Constant):
            if isinstance(n.value, bool):
                return ('true' if n.value else 'false'), 'bool'
            if isinstance(n.value, int):
                return '(%d)%%Z' % n.value, 'int'
            die(n, 'constant')
        if isinstance(n, ast.Attribute):
            if isinstance(n.value, ast.Name) and n.value.id == 'self':
                if 'self.' + n.attr in env:
                    return env['self.' + n.attr]
                if n.attr in self.classes[self.cur].get('derived', []) and (self.cur, n.attr) in self.defs:
                    return '(%s_%s %s)' % (self.cur, n.attr, ' '.join(self.self_args(self.cur, env))), 'bool'
            die(n, 'attribute')
        if isinstance(n, ast.Call):
            f = n.func
            if isinstance(f, ast.Attribute):
                return self.call(n, env)
            if not isinstance(f, ast.Name) or n.keywords:
                die(n, 'call')
            if f.id == 'len' and len(n.args) == 1:
                v, t = self.ex(n.args[0], env)
                if t in ('set', 'list', 'votes'):
                    return '(py_len_items %s)' % v, 'int'
                if t == 'obj':
                    return self.hoist('(py_len %s)' % v), 'int'
                die(n, 'len of %s' % (t,))
            if f.id == 'isinstance' and len(n.args) == 2:
                v, t = self.ex(n.args[0], env)
                if t != 'obj':
                    die(n, 'isinstance of a non-object')
                return self.isinstance_term(v, n.args[1]), 'bool'
            if f.id in ('sum', 'frozenset') and len(n.args) == 1 and isinstance(n.args[0], ast.GeneratorExp):
                lst = self.genexp(n.args[0], env)
                if f.id == 'sum':
                    return self.hoist('(py_sum %s)' % lst), 'obj'
                return self.hoist('(py_frozenset %s)' % lst), 'set'
            if f.id == 'bool' and len(n.args) == 1:
                return self.truthy(n.args[0], env), 'bool'
            if f.id == 'set' and not n.args:
                return '([] : list pyobj)', 'set'
            if f.id == 'any' and len(n.args) == 1:
                v, t = self.ex(n.args[0], env)
                if t == 'optpair':
                    return '(orb (py_truthy_optnum (fst %s)) (py_truthy_optnum (snd %s)))' % (v, v), 'bool'
                die(n, 'any of %s' % (t,))
            if f.id == 'round' and len(n.args) == 2 and isinstance(n.args[1], ast.Constant) and isinstance(n.args[1].value, int) \
                    and not isinstance(n.args[1].value, bool) and n.args[1].value >= 0:
                v, t = self.ex(n.args[0], env)
                return self.hoist('(py_round %s (%d)%%Z)' % (self.coerce(v, t, 'obj', n), n.args[1].value)), 'obj'
            die(n, 'call of %s' % f.id)
        if isinstance(n, ast.List) and not n.elts:
            return '([] : list pyobj)', 'list'
        if isinstance(n, ast.Subscript):
            v, t = self.ex(n.value, env)
            if t == 'obj' and isinstance(n.slice, ast.Constant) and isinstance(n.slice.value, int) and not isinstance(n.slice.value, bool):
                return self.hoist('(py_getitem %s (%d)%%Z)' % (v, n.slice.value)), 'obj'
            if t in VAL_REP:
                return self.call_method(VAL_REP[t], '__getitem__', ['(fst %s)' % v, '(snd %s)' % v], [n.slice], env, n)
            die(n, 'subscript of %s' % (t,))
        if isinstance(n, ast.BinOp) and isinstance(n.op, (ast.Add, ast.Sub)):
            a, at = self.ex(n.left, env)
            b, bt = self.ex(n.right, env)
            if at == bt == 'int':
                return '(%s %s %s)%%Z' % (a, '+' if isinstance(n.op, ast.Add) else '-', b), 'int'
            die(n, 'arithmetic on %s, %s' % (at, bt))
        if isinstance(n, ast.Compare) and len(n.ops) == 1:
            return self.compare(n, env), 'bool'
        if isinstance(n, ast.BoolOp) or (isinstance(n, ast.UnaryOp) and isinstance(n.op, ast.Not)):
            return self.truthy(n, env, strict=isinstance(n, ast.BoolOp)), 'bool'
        die(n, 'expression')

    def compare(self, n, env):
        op, rn = n.ops[0], n.comparators[0]
        if isinstance(op, (ast.Is, ast.IsNot)):
            if not (isinstance(rn, ast.Constant) and rn.value is None):
                die(n, 'identity test')
            l, lt = self.ex(n.left, env)
            if lt != 'optnum':
                die(n, 'is None of %s' % (lt,))
            t = '(py_is_none %s)' % l
            return t if isinstance(op, ast.Is) else '(negb %s)' % t
        l, lt = self.ex(n.left, env)
        r, rt = self.ex(rn, env)
        if isinstance(op, (ast.In, ast.NotIn)):
            if lt != 'obj' or rt != 'list':
                die(n, 'membership in %s' % (rt,))
            t = '(py_in_list %s %s)' % (l, r)
            return t if isinstance(op, ast.In) else '(negb %s)' % t
        if lt == rt == 'int':
            t = {ast.Lt: '(%s <? %s)%%Z', ast.LtE: '(%s <=? %s)%%Z', ast.Eq: '(%s =? %s)%%Z', ast.NotEq: '(negb (%s =? %s)%%Z)'}.get(type(op))
            if t:
                return t % (l, r)
            t = {ast.Gt: '(%s <? %s)%%Z', ast.GtE: '(%s <=? %s)%%Z'}.get(type(op))
            if t:
                return t % (r, l)
            die(n, 'comparison')
        if lt in ('obj', 'int') and rt == 'optnum':
            f = {ast.GtE: 'py_ge', ast.LtE: 'py_le', ast.Gt: 'py_gt', ast.Lt: 'py_lt'}.get(type(op))
            if f:
                return self.hoist('(%s %s %s)' % (f, self.coerce(l, lt, 'obj', n), r))
        die(n, 'comparison of %s with %s' % (lt, rt))

    def truthy(self, n, env, strict=False):
        if isinstance(n, ast.BoolOp):
            acc = self.truthy(n.values[0], env, strict)
            for vn in n.values[1:]:
                t, hs = self.scoped(lambda: self.truthy(vn, env, strict))
                if not hs:
                    acc = '(%s %s %s)' % ('orb' if isinstance(n.op, ast.Or) else 'andb', acc, t)
                elif isinstance(n.op, ast.Or):
                    acc = self.hoist('(if %s then inl true else %s)' % (acc, self.wrap(hs, 'inl %s' % t)), 'b')
                else:
                    acc = self.hoist('(if %s then %s else inl false)' % (acc, self.wrap(hs, 'inl %s' % t)), 'b')
            return acc
        if isinstance(n, ast.UnaryOp) and isinstance(n.op, ast.Not):
            return '(negb %s)' % self.truthy(n.operand, env)
        if isinstance(n, ast.Attribute) and n.attr == 'candidacy_for' and not strict:
            v, t = self.ex(n.value, env)
            if t != 'obj':
                die(n, 'candidacy_for of %s' % (t,))
            return self.hoist('(py_candidacy_for_truthy %s)' % v, 'b')
        if isinstance(n, ast.Call) and isinstance(n.func, ast.Name) and n.func.id == 'bool' and len(n.args) == 1:
            return self.truthy(n.args[0], env)
        v, t = self.ex(n, env)
        if t == 'bool':
            return v
        if strict:
            die(n, 'and / or over non-boolean values outside a boolean context')
        if t == 'optnum':
            return '(py_truthy_optnum %s)' % v
        if t in VAL_REP and (VAL_REP[t], '__bool__') in self.defs:
            return '(%s___bool__ (fst %s) (snd %s))' % (VAL_REP[t], v, v)
        if t in ('set', 'list', 'votes'):
            return '(negb (py_len_items %s =? 0)%%Z)' % v
        die(n, 'truth value of %s' % (t,))

    def iter_items(self, it, env):
        """the items of an iterable as a Coq list, and the type of an item"""
        if isinstance(it, ast.Call) and isinstance(it.func, ast.Name) and it.func.id == 'enumerate' and len(it.args) == 1 and not it.keywords:
            l, _ = self.iter_items(it.args[0], env)
            return '(py_enumerate %s)' % l, 'pair'
        v, t = self.ex(it, env)
        if t == 'obj':
            return self.hoist('(py_iter %s)' % v, 'items'), 'obj'
        if t in ('set', 'list'):
            return v, 'obj'
        die(it, 'iteration over %s' % (t,))

    def genexp(self, g, env):
        if len(g.generators) != 1 or g.generators[0].ifs or g.generators[0].is_async:
            die(g, 'generator expression')
        tg = g.generators[0].target
        items, ity = self.iter_items(g.generators[0].iter, env)
        if ity != 'obj':
            die(g, 'generator over pairs')
        env2 = dict(env)
        if isinstance(tg, ast.Name):
            x, bind = tg.id, '%s'
            env2[x] = (x, 'obj')
        elif isinstance(tg, ast.Tuple) and len(tg.elts) == 2 and all(isinstance(e, ast.Name) for e in tg.elts):
            x, pr, e = self.fresh('it'), self.fresh('pr'), self.fresh('e')
            a, b = (e_.id for e_ in tg.elts)
            bind = '(match py_unpack2 %s with inl %s => let %s := fst %s in let %s := snd %s in %%s | inr %s => inr %s end)' % (
                x, pr, a, pr, b, pr, e, e)
            env2[a], env2[b] = (a, 'obj'), (b, 'obj')
        else:
            die(g, 'generator target')
        (t, ty), hs = self.scoped(lambda: self.ex(g.elt, env2))
        if ty != 'obj':
            die(g, 'generator of %s' % (ty,))
        if hs or bind != '%s':
            return self.hoist('(py_mapM (fun %s => %s) %s)' % (x, bind % self.wrap(hs, 'inl %s' % t), items), 'l')
        return '(map (fun %s => %s) %s)' % (x, t, items)

    # ---- statements.  k(env) is the term of what follows the block (called exactly once per fall-through path)
    def blk(self, stmts, env, k):
        if not stmts:
            return k(env)
        s, rest = stmts[0], stmts[1:]

        def cont(env2):
            return self.blk(rest, env2, k)

        def stmt(fn):
            """translate one statement: fn() -> body term given after hoists"""
            body, hs = self.scoped(fn)
            return self.wrap(hs, body)
        if isinstance(s, ast.Expr) and isinstance(s.value, ast.Constant) and isinstance(s.value.value, str):
            return cont(env)
        if isinstance(s, ast.Raise):
            if rest:
                die(s, 'code after raise')
            return 'inr %s' % self.exc_ctor(s.exc)
        if isinstance(s, ast.Return):
            if rest or s.value is None:
                die(s, 'return')

            def f():
                t, ty = self.ex(s.value, env)
                return 'inl %s' % self.coerce(t, ty, self.ret, s)
            return stmt(f)
        if isinstance(s, ast.Assign) and len(s.targets) == 1 and isinstance(s.targets[0], ast.Name):
            x = s.targets[0].id

            def f():
                t, ty = self.ex(s.value, env)
                env2 = dict(env)
                env2[x] = (x, ty)
                return 'let %s := %s in %s' % (x, t, cont(env2))
            return stmt(f)
        if isinstance(s, ast.AugAssign) and isinstance(s.target, ast.Name) and isinstance(s.op, ast.Add):
            x = s.target.id

            def f():
                if x not in env or env[x][1] != 'int':
                    die(s, 'augmented assignment')
                t, ty = self.ex(s.value, env)
                if ty != 'int':
                    die(s, 'augmented assignment of %s' % (ty,))
                return 'let %s := (%s + %s)%%Z in %s' % (x, env[x][0], t, cont(env))
            return stmt(f)
        if isinstance(s, ast.Delete) and len(s.targets) == 1 and isinstance(s.targets[0], ast.Subscript) \
                and isinstance(s.targets[0].value, ast.Name):
            d = s.targets[0].value.id

            def f():
                if d not in env or env[d][1] != 'votes':
                    die(s, 'del')
                kt, kty = self.ex(s.targets[0].slice, env)
                if kty != 'obj':
                    die(s, 'del key')
                v = self.hoist('(py_dict_del %s %s)' % (env[d][0], kt), 'd')
                return 'let %s := %s in %s' % (d, v, cont(env))
            return stmt(f)
        if isinstance(s, ast.Expr) and isinstance(s.value, ast.Call) and isinstance(s.value.func, ast.Attribute):
            c = s.value
            recv = c.func.value
            if isinstance(recv, ast.Name) and recv.id in env and env[recv.id][1] in ('set', 'list') and len(c.args) == 1 and not c.keywords:
                x, xt = recv.id, env[recv.id][1]
                m = c.func.attr

                def f():
                    a, at = self.ex(c.args[0], env)
                    if at != 'obj':
                        die(s, 'container of %s' % (at,))
                    if xt == 'set' and m in ('add', 'update'):
                        v = self.hoist('(py_set_%s %s %s)' % (m, env[x][0], a), 's')
                    elif xt == 'list' and m == 'append':
                        v = '(%s ++ [%s])' % (env[x][0], a)
                    else:
                        die(s, 'container method')
                    return 'let %s := %s in %s' % (x, v, cont(env))
                return stmt(f)

            def f():
                t, ty = self.call(c, env)
                if ty != 'unit':
                    die(s, 'call statement returning %s' % (ty,))
                return cont(env)
            return stmt(f)
        if isinstance(s, ast.If):
            def f():
                c = self.truthy(s.test, env)
                if not s.orelse and self.terminates(s.body):
                    return '(if %s then %s else %s)' % (c, self.blk(s.body, env, self.no_fall(s)), cont(env))
                names = [x for x in _v_stores(s.body + s.orelse) if x in env]
                st = self.fresh('st')
                e = self.fresh('e')

                def leave(env2):
                    return 'inl %s' % self.tup(names, env2)
                a = self.blk(s.body, env, leave)
                b = self.blk(s.orelse, env, leave)
                return '(match (if %s then %s else %s) with inl %s => %s%s | inr %s => inr %s end)' % (
                    c, a, b, st, self.untup(names, st), cont(env), e, e)
            return stmt(f)
        if isinstance(s, ast.For) and not s.orelse:
            def f():
                items, ity = self.iter_items(s.iter, env)
                it = self.fresh('it')
                env2 = dict(env)
                if isinstance(s.target, ast.Name) and ity == 'obj':
                    bind = 'let %s := %s in %%s' % (s.target.id, it)
                    env2[s.target.id] = (s.target.id, 'obj')
                    tnames = [s.target.id]
                elif isinstance(s.target, ast.Tuple) and len(s.target.elts) == 2 and all(isinstance(x, ast.Name) for x in s.target.elts):
                    a, b = (x.id for x in s.target.elts)
                    tnames = [a, b]
                    if ity == 'pair':
                        bind = 'let %s := fst %s in let %s := snd %s in %%s' % (a, it, b, it)
                        env2[a], env2[b] = (a, 'int'), (b, 'obj')
                    else:
                        pr, e = self.fresh('pr'), self.fresh('e')
                        bind = '(match py_unpack2 %s with inl %s => let %s := fst %s in let %s := snd %s in %%s | inr %s => inr %s end)' % (
                            it, pr, a, pr, b, pr, e, e)
                        env2[a], env2[b] = (a, 'obj'), (b, 'obj')
                else:
                    die(s, 'loop target')
                names = [x for x in _v_stores(s.body) if x in env and x not in tnames]
                if any(x in env for x in tnames):
                    die(s, 'loop variable shadows a live name')
                st, st2, e = self.fresh('st'), self.fresh('st'), self.fresh('e')
                body = self.blk(s.body, env2, lambda env3: 'inl %s' % self.tup(names, env3))
                fun = '(fun %s %s => %s%s)' % (st, it, self.untup(names, st), bind % body)
                return '(match py_for %s %s %s with inl %s => %s%s | inr %s => inr %s end)' % (
                    items, fun, self.tup(names, env), st2, self.untup(names, st2), cont(env), e, e)
            return stmt(f)
        if isinstance(s, ast.Try) and len(s.body) == 1 and len(s.handlers) == 1 and not s.orelse and not s.finalbody \
                and isinstance(s.body[0], ast.Expr) and isinstance(s.body[0].value, ast.Call) and s.handlers[0].name is None:
            h = s.handlers[0]
            caught = self.caught(h.type)
            names = [x for x in _v_stores(h.body) if x in env]
            (t, ty), hs = self.scoped(lambda: self.ex(s.body[0].value, env))
            if ty != 'unit' or len(hs) != 1 or hs[0][0] != t:
                die(s, 'try body')
            e, st, e2 = self.fresh('e'), self.fresh('st'), self.fresh('e')
            test = '(match %s with %s => true | _ => false end)' % (e, ' | '.join(caught))
            handler = self.blk(h.body, env, lambda env2: 'inl %s' % self.tup(names, env2))
            return '(match (match %s with inl _ => inl %s | inr %s => if %s then %s else inr %s end) with inl %s => %s%s | inr %s => inr %s end)' % (
                hs[0][1], self.tup(names, env), e, test, handler, e, st, self.untup(names, st), cont(env), e2, e2)
        die(s, 'statement')

    def terminates(self, stmts):
        if not stmts:
            return False
        s = stmts[-1]
        if isinstance(s, (ast.Raise, ast.Return)):
            return True
        if isinstance(s, ast.If) and s.orelse:
            return self.terminates(s.body) and self.terminates(s.orelse)
        return False

    def no_fall(self, s):
        def k(env):
            die(s, 'internal: a terminating block fell through')
        return k

    def exc_ctor(self, e):
        name = _v_dotted(e.func if isinstance(e, ast.Call) else e)
        name = (name or '').split('.')[-1]
        if name not in VAL_EXC or name not in self.bases:
            die(e, 'exception class')
        return 'Py' + name

    def caught(self, tnode):
        name = (_v_dotted(tnode) or '').split('.')[-1]
        if name not in VAL_EXC:
            die(tnode, 'except clause')
        out = ['Py' + x for x in VAL_EXC if x in self.bases and name in self.ancestors(x)]
        if not out:
            die(tnode, 'except clause catches nothing')
        return out

    # ---- definitions
    def check_fields(self, c):
        """every declared attribute is stored by __init__ of the class or of a base; nominator flags verbatim"""
        chain = [c['name']]
        while True:
            try:
                chain.append(self.parent(chain[-1]))
            except Unsupported:
                break
        stored = {}
        for cn in chain:
            fd = self.method(cn, '__init__')
            if fd is None:
                continue
            for n in ast.walk(fd):
                if isinstance(n, ast.Assign):
                    for t in n.targets:
                        for tt in (t.elts if isinstance(t, ast.Tuple) else [t]):
                            if isinstance(tt, ast.Attribute) and isinstance(tt.value, ast.Name) and tt.value.id == 'self':
                                stored.setdefault(tt.attr, []).append((n, t))
        for f, ty in c['fields']:
            if f not in stored:
                raise Unsupported('%s.__init__ does not store self.%s' % (c['name'], f))
            if ty == 'bool':
                n, t = stored[f][0]
                if len(stored[f]) != 1 or not (isinstance(n.value, ast.Name) and n.value.id == f and isinstance(t, ast.Attribute)):
                    raise Unsupported('%s.__init__ does not store %s verbatim' % (c['name'], f))
        if c['name'] == 'VoteMagnitudeChecker':
            ok = any(isinstance(t, ast.Tuple) and [getattr(x, 'attr', None) for x in t.elts] == ['min_value', 'max_value']
                     and isinstance(n.value, ast.Name) and n.value.id == 'bounds' for n, t in stored.get('min_value', []))
            if not ok or len(stored['min_value']) != 1 or len(stored['max_value']) != 1:
                raise Unsupported('VoteMagnitudeChecker.__init__ does not unpack bounds into min_value, max_value')
        return stored

    def define(self, c, out):
        cname = c['name']
        self.cur = cname
        stored = self.check_fields(c)
        fparams = ' '.join('(%s : %s)' % (f, VAL_COQ[t]) for f, t in c['fields'])
        env0 = {'self.' + f: (f, t) for f, t in c['fields']}
        for d in c.get('derived', []):
            if len(stored.get(d, [])) != 1 or not isinstance(stored[d][0][1], ast.Attribute):
                raise Unsupported('%s.%s is not set once' % (cname, d))
            self.ret = 'bool'
            envd = dict(env0)
            if cname == 'VoteMagnitudeChecker':      # the constructor argument that check_fields saw unpacked into the two attributes
                envd['bounds'] = ('(min_value, max_value)', 'optpair')
            (t, ty), hs = self.scoped(lambda: self.ex(stored[d][0][0].value, envd))
            if hs or ty != 'bool':
                raise Unsupported('%s.%s is not a plain boolean' % (cname, d))
            out.append('Definition %s_%s %s : bool :=\n  %s.' % (cname, d, fparams, t))
            self.defs[(cname, d)] = ([], 'bool', False)
        for mname, params, ret, raising in c['methods']:
            fd = self.method(cname, mname)
            if fd is None:
                raise Unsupported('%s.%s not found' % (cname, mname))
            a = fd.args
            if [x.arg for x in a.args] != ['self'] + [p for p, _ in params] or a.vararg or a.kwarg or a.kwonlyargs or a.defaults \
                    or fd.decorator_list:
                die(fd, 'signature of %s.%s' % (cname, mname))
            env = dict(env0)
            for p, t in params:
                env[p] = (p, t)
            self.ret = ret
            pparams = ' '.join('(%s : %s)' % (p, VAL_COQ[t]) for p, t in params)
            if raising:
                body = self.blk(fd.body, env, lambda env2: 'inl tt' if ret == 'unit' else die(fd, 'falls off the end'))
                out.append('Definition %s_%s %s %s : %s + pyvexn :=\n  %s.' % (cname, mname, fparams, pparams, VAL_COQ[ret], body))
            else:
                ss = [s for s in fd.body if not (isinstance(s, ast.Expr) and isinstance(s.value, ast.Constant))]
                if len(ss) != 1 or not isinstance(ss[0], ast.Return) or ss[0].value is None:
                    die(fd, 'a method declared pure is one return')
                (t, ty), hs = self.scoped(lambda: self.ex(ss[0].value, env))
                if hs or ty != ret:
                    die(fd, 'a method declared pure raises / has type %s' % (ty,))
                out.append('Definition %s_%s %s %s : %s :=\n  %s.' % (cname, mname, fparams, pparams, VAL_COQ[ret], t))
            self.defs[(cname, mname)] = (params, ret, raising)


def translate_validate(repo):
    status, missing = {}, []
    allnames = ['%s.%s' % (c['name'], m[0]) for c in VAL_CLASSES for m in c['methods']] + ['Nominator.validate']
    try:
        trees = {k: ast.parse(open(os.path.join(repo, rel)).read()) for k, rel in VAL_FILES.items()}
        vx = VX(trees)
        out = []
        for c in VAL_CLASSES:
            vx.define(c, out)
            if c['name'] == 'PartyNominator':
                noms = [x for x in VAL_CLASSES if 'ctor' in x]
                arms = []
                for x in noms:
                    vs = ['f%d' % i for i in range(len(x['fields']))]
                    arms.append('%s %s => %s_validate %s candidate' % (x['ctor'], ' '.join(vs), x['name'], ' '.join(vs)))
                    if 'Nominator' not in vx.ancestors(x['name']):
                        raise Unsupported('%s is not a Nominator' % x['name'])
                out.append('Definition Nominator_validate (nm : nominator) (candidate : pyobj) : unit + pyvexn :=\n  match nm with %s end.'
                           % ' | '.join(arms))
                vx.defs[('Nominator', 'validate')] = ([('candidate', 'obj')], 'unit', True)
        for nme in allnames:
            status[nme] = 'ok'
        text = VAL_HEADER + '\n' + '\n\n'.join(out) + '\n'
    except (Unsupported, SyntaxError, OSError, KeyError, RecursionError) as e:
        text = VAL_HEADER
        return text, dict(status='failed', reason='unsupported: %s' % e, source=', '.join(VAL_FILES.values()), missing=allnames, functions={})
    return text, dict(status='ok', functions=status, missing=missing, source=', '.join(VAL_FILES.values()),
                      note='whole method bodies over the object grammar of Model/Validate.v; the constructors (__init__: bounds -> checkers) '
                           'are tied by correspondence')
# ---------------------------------------------------------------- part 6: alias-and-mutation scan (Gen/Mutation.v)
# The scan itself lives in tools/mutscan.py (reading rules, abstract domain and call classification are documented at its head).
# The result is cached under the hash of the package sources and of the scanner, so that an unchanged tree costs nothing.
def generate_mutation(repo, outdir, st):
    import hashlib
    sys.path.insert(0, os.path.dirname(os.path.abspath(__file__)))
    dst, jdst, cdst = (os.path.join(outdir, n) for n in ('Mutation.v', 'Mutation.json', '.mutation_cache.json'))
    try:
        import mutscan
        h = hashlib.sha256()
        h.update(open(mutscan.__file__.replace('.pyc', '.py'), 'rb').read())
        for dp, dn, files in os.walk(os.path.join(repo, 'votelib')):
            dn.sort()
            for f in sorted(files):
                if f.endswith('.py'):
                    h.update(os.path.relpath(os.path.join(dp, f), repo).encode())
                    h.update(open(os.path.join(dp, f), 'rb').read())
        key, res = h.hexdigest(), None
        if os.path.exists(cdst):
            try:
                c = json.load(open(cdst))
                if c.get('key') == key:
                    res = c['result']
            except ValueError:
                res = None
        if res is None:
            res = mutscan.scan(repo)
            json.dump(dict(key=key, result=res), open(cdst, 'w'))
        text = mutscan.coq_text(res)
        jtext = json.dumps(res, indent=1, sort_keys=True)
        rows = res['rows']
        st['Mutation'] = dict(status='ok', source='votelib/**/*.py', functions={}, missing=[], n_functions=res['functions'], rows=len(rows),
                              classes={k: sum(1 for r in rows if r['cls'] == k) for k in ('Untouched', 'CopiedFirst', 'MayMutate')},
                              public_rows=sum(1 for r in rows if r['public']), mutable_default_rows=sum(1 for r in rows if r['mutable_default']),
                              rejected=['%s.%s' % (r['module'], r['qualname']) for r in res['rejected']],
                              callable_sites=len(res['callable_sites']), unknown_callees=res['unknown'])
    except Exception as e:     # noqa - Unreadable, SyntaxError, an internal error of the scan: the table is withheld, C18 falls back to the sweep
        import mutscan as _m
        text = _m.MUT_HEADER + ('\nDefinition mutation_table : list mrow := [].\nDefinition rejected_functions : list (string * string * Z * string) := [].\n'
                                'Definition callable_sites : list (string * string * Z * string) := [].\n'
                                'Definition not_propagated : list (string * string * string) := [].\n')
        jtext = json.dumps(dict(rows=[], failed='%s: %s' % (type(e).__name__, e)))
        st['Mutation'] = dict(status='failed', reason='%s: %s' % (type(e).__name__, e), source='votelib/**/*.py', missing=['mutation_table'])
    for path_, t_ in ((dst, text), (jdst, jtext)):
        old = open(path_).read() if os.path.exists(path_) else None
        if old != t_:
            open(path_, 'w').write(t_)
# ---------------------------------------------------------------- part 6: accumulating converters (Gen/Convert.v)
# votelib/convert.py: the BODY of convert() of the converters that loop over the ballots and accumulate into a dictionary, and
# votelib/util.py add_dict_to_dict.  A separate, small statement translator (class CV): every local the code mutates is threaded
# through the term, a `for` loop - nested loops too - is a fold_left over the iterable whose state is the tuple of the locals its
# body changes (a single local: the local itself), a conditional that updates locals is the conditional of the updated tuples.
# Accepted subset (everything else raises Unsupported naming the node, the unit then falls back to the correspondence streams):
#    stmt ::= x = collections.defaultdict(int) | x = {} | x = set() | x = e
#           | d[k] += e (d a defaultdict(int) built here) | d[k] = e (d a dictionary built here or the declared in-out parameter)
#           | s.add(e) | s.update(e) (s a set built here) | f(d, e) for a translated function that updates its first argument
#           | if c: .. [else: ..] | if isinstance(x, collections.abc.Set): .. else: .. (x an item of a ranked ballot: a match)
#           | if l: .. (l a list: a match that makes l[0] available) | for t in e: .. | return e (last statement only)
#    e    ::= int | name | self.a | e (+|-|*) e | -e | not e | e and e | e or e (as tests) | e (<|<=|>|>=|==|!=) e | e [not] in s
#           | Fraction(e, e) | len(e) | l[0] (after `if l:`) | l[:e] | frozenset(e) | frozenset(e for .. in .. [if ..] ..)
#           | d.get(k, e) | dict(d) | {k: e for t in e} | d.items() | d.values() | a dictionary as an iterable (its keys)
#    in a definition declared raising (RankedToCondorcetVotes.convert: dynamically typed code) also
#           x = [] .. x.append(e) | x.extend(e) | x = isinstance(e, collections.abc.Set) | x = (e,) | l[i] | l[a:] | enumerate(l)
#           | iterating an item / an item-or-tuple | if c: x = e (x used later: UnboundLocalError when not bound) | a call of a declared
#           external function (a function parameter of the generated definition)
#    there an operation that may raise sets the exception flag threaded through every loop state (Prelude/PyConv.v py_try / py_val)
#    dictionary keys: a candidate, a frozenset of candidates, an item, a tuple of two of these, or an opaque key - encoded as wire
#    values (Prelude/PyConv.v)
T_I, T_K = 'item', 'key'


def TD(k, v):
    return ('D', k, v)        # a dictionary: association list in insertion order; iterating it gives its keys


def TM(t):
    return ('M', t)           # a set under construction (set() .. add / update): the list of what was added


T_V = 'pyv'                  # an item or a tuple of items (Prelude/PyConv.v pyv)


class TyVar:
    """the item type of a list that starts as [] : fixed by the first append / extend"""
    count = 0

    live = []

    def __init__(self):
        TyVar.count += 1
        self.id, self.val = TyVar.count, None
        TyVar.live.append(self)


CV_DICT = TD(T_K, T_Q)
CV_APPROVAL = TD(TS(T_C), T_Q)
CV_RANKED = TD(TL(T_I), T_Q)
CV_SCORE = TD(TS(TP(T_C, T_Q)), T_Q)
CV_NESTED = TD(T_K, CV_DICT)


def cv_type(t):
    if isinstance(t, TyVar):
        return cv_type(t.val) if t.val is not None else '@@TV%d@@' % t.id
    if t == T_V:
        return 'pyv'
    if isinstance(t, tuple) and t[0] == 'O':
        return 'option (%s)' % cv_type(t[1])
    if t == T_I:
        return 'item'
    if t == T_K:
        return 'sx'
    if isinstance(t, tuple) and t[0] == 'D':
        return 'list (%s * %s)' % (cv_type(t[1]), cv_type(t[2]))
    if isinstance(t, tuple) and t[0] in ('L', 'S', 'M'):
        return 'list (%s)' % cv_type(t[1])
    if isinstance(t, tuple) and t[0] == 'P':
        return '(%s * %s)' % (cv_type(t[1]), cv_type(t[2]))
    if isinstance(t, tuple) and t[0] == 'F':
        return '(%s)' % ' -> '.join([cv_type(a) for a in t[1]] + [cv_type(t[2])])
    return coq_type(t)


CV_RESERVED = {'item', 'kc', 'kset', 'kitem', 'sx', 'A', 'L', 'IP', 'IS', 'members', 'canon_set', 'gadd', 'gset', 'gget', 'pydict',
               'ranked', 'sballot', 'flatten', 'set_diff', 'scorer', 'conv', 'dconv', 'oconv', 'insert_c', 'st', 'it', 'hd',
               'exn', 'pyv', 'VI', 'VT', 'cvexn', 'skipn'}


class CV:
    def __init__(self, known, module_names, imports, mutable_params=(), raises=False, ext=None):
        self.raises = raises                # the definition answers value + cvexn; the flag exn' is part of every loop state
        self.ext = ext or {}                # dotted python name -> (coq parameter, [argument types], result type, module)
        self.pending = [] if raises else None
        self.nh = 0
        self.known = known                  # dotted / plain python name -> dict(coq, params=[types], mutates=0|None, ret, module)
        self.module_names, self.imports = module_names, imports
        self.dd = set()                     # locals bound to a collections.defaultdict(int)
        self.mutable = set(mutable_params)  # dictionaries / sets this function may change: built here, or the declared in-out parameter
        self.notes = []
        self.depth = 0
        self.n = 0
        self._idt = TX({}, False)

    # ---- names
    def ident(self, name):
        nm = self._idt.ident(name)
        if nm in CV_RESERVED or re.fullmatch(r'(st|it)\d+_?\'?', nm):
            nm += "'"
        return nm

    def need_collections(self, node, env):
        if 'collections' in env or self.module_names.get('collections') != 'import':
            die(node, 'the name collections is not the plain import of the collections module')

    def builtin(self, name, node, env):
        if name in env or self.module_names.get(name) is not None:
            die(node, 'the name %s is bound by the source, the translator reads it as the builtin' % name)

    def ref(self, e):
        if isinstance(e, ast.Name):
            return e.id
        if isinstance(e, ast.Attribute) and isinstance(e.value, ast.Name) and e.value.id == 'self':
            return 'self.' + e.attr
        return None

    def res(self, t):
        if isinstance(t, TyVar):
            return self.res(t.val) if t.val is not None else t
        if isinstance(t, tuple):
            return tuple(self.res(x) if isinstance(x, (tuple, TyVar)) else x for x in t)
        return t

    def lookup(self, e, env):
        r = self.ref(e)
        if r is None or r not in env:
            die(e, 'unknown name')
        t, ty = env[r]
        ty = self.res(ty)
        if t is not None and isinstance(ty, tuple) and ty[0] == 'O':
            # a local bound on one path of an earlier conditional only: UnboundLocalError where it is not bound
            return self.partial(t, 'CvUnboundLocalError', ty[1], e)
        return t, ty

    def quiet(self, f):
        saved, self.pending = self.pending, None
        try:
            return f()
        finally:
            self.pending = saved

    def filler(self, ty, node):
        ty = self.res(ty)
        if ty == T_B:
            return 'false'
        if ty == T_Z:
            return '0%Z'
        if ty == T_Q:
            return '0%Q'
        if ty == T_C:
            return 'xH'
        if ty == T_I:
            return '(IP xH)'
        if ty == T_V:
            return '(VT [])'
        if isinstance(ty, tuple) and ty[0] in ('L', 'S', 'M', 'D'):
            return '[]'
        if isinstance(ty, tuple) and ty[0] == 'P':
            return '(%s, %s)' % (self.filler(ty[1], node), self.filler(ty[2], node))
        die(node, 'no filler value of type %s' % (ty,))

    def partial(self, term, exn, ty, node):
        """an operation that may raise: hoisted in front of the statement (in evaluation order); sets the flag"""
        if not self.raises:
            die(node, 'operation that may raise %s in a definition that is not declared raising' % exn)
        if self.pending is None:
            die(node, 'operation that may raise %s inside a conditionally / repeatedly evaluated expression' % exn)
        self.nh += 1
        var = "e'h%d" % self.nh
        self.pending.append((var, term, exn, self.filler(ty, node)))
        return var, ty

    def flush(self):
        """the lets of the operations hoisted by the expressions just translated"""
        hs, out = (self.pending or []), ''
        if self.pending is not None:
            self.pending = []
        for var, term, exn, fl in hs:
            out += "let exn' := (py_try exn' %s %s) in let %s := (py_val %s %s) in\n  " % (term, exn, var, term, fl)
        return out

    # ---- coercions
    def num(self, x, want, node):
        t, ty = x
        if ty == want:
            return t
        if ty == T_Z and want == T_Q:
            return '(inject_Z %s)' % t
        die(node, 'type %s where %s is expected' % (ty, want))

    def key(self, e, env):
        """the wire value of e used as a dictionary key"""
        if isinstance(e, ast.Tuple):
            if len(e.elts) != 2:
                die(e, 'tuple key of %d components' % len(e.elts))
            return '(py_key_tuple2 %s %s)' % (self.key(e.elts[0], env), self.key(e.elts[1], env))
        t, ty = self.expr(e, env)
        if ty == T_C:
            return '(kc %s)' % t
        if ty == TS(T_C):
            return '(kset %s)' % t
        if ty == T_I:
            return '(kitem %s)' % t
        if ty == TS(T_I):
            return '(py_key_itemset %s)' % t
        if ty == T_K:
            return t
        die(e, 'dictionary key of type %s' % (ty,))

    # ---- expressions
    def cond(self, e, env):
        if isinstance(e, ast.BoolOp):
            op = ' && ' if isinstance(e.op, ast.And) else ' || '
            return '(%s)' % op.join([self.cond(e.values[0], env)] + [self.quiet(lambda v=v: self.cond(v, env)) for v in e.values[1:]])
        if isinstance(e, ast.UnaryOp) and isinstance(e.op, ast.Not):
            return '(negb %s)' % self.cond(e.operand, env)
        t, ty = self.expr(e, env)
        if ty == T_B:
            return t
        if isinstance(ty, tuple) and ty[0] in ('L', 'S') and ty != TS(T_I):
            return '(0 <? py_len %s)%%Z' % t       # truth value of a list / frozenset: non-empty
        die(e, 'truth value of a %s' % (ty,))

    def expr(self, e, env):
        if isinstance(e, ast.Constant):
            if isinstance(e.value, bool):
                return ('true' if e.value else 'false'), T_B
            if isinstance(e.value, int):
                return '(%d)%%Z' % e.value, T_Z
            die(e, 'constant')
        if self.ref(e) is not None:
            t, ty = self.lookup(e, env)
            if t is None:
                die(e, 'name %s cannot be used here' % self.ref(e))
            return t, ty
        if isinstance(e, ast.UnaryOp) and isinstance(e.op, ast.USub):
            a = self.expr(e.operand, env)
            if a[1] in (T_Z, T_Q):
                return '(- %s)%%%s' % (a[0], a[1]), a[1]
            die(e, 'unary minus of a %s' % (a[1],))
        if isinstance(e, ast.UnaryOp) and isinstance(e.op, ast.Not):
            return self.cond(e, env), T_B
        if isinstance(e, ast.BinOp):
            ops = {ast.Add: '+', ast.Sub: '-', ast.Mult: '*'}
            a, b = self.expr(e.left, env), self.expr(e.right, env)
            if type(e.op) in ops and a[1] in (T_Z, T_Q) and b[1] in (T_Z, T_Q):
                ty = T_Z if (a[1], b[1]) == (T_Z, T_Z) else T_Q
                return '(%s %s %s)%%%s' % (self.num(a, ty, e), ops[type(e.op)], self.num(b, ty, e), ty), ty
            die(e, 'operator %s on %s / %s' % (type(e.op).__name__, a[1], b[1]))
        if isinstance(e, ast.Compare):
            if len(e.ops) != 1:
                die(e, 'chained comparison')
            op = e.ops[0]
            a, b = self.expr(e.left, env), self.expr(e.comparators[0], env)
            if isinstance(op, (ast.In, ast.NotIn)):
                if a[1] == T_C and isinstance(b[1], tuple) and b[1][0] in ('L', 'S', 'M') and b[1][1] == T_C:
                    t = '(cmem %s %s)' % (a[0], b[0])
                    return (t if isinstance(op, ast.In) else '(negb %s)' % t), T_B
                die(e, 'membership test on %s / %s' % (a[1], b[1]))
            if a[1] not in (T_Z, T_Q) or b[1] not in (T_Z, T_Q):
                die(e, 'comparison of %s / %s' % (a[1], b[1]))
            ta, tb = self.num(a, T_Q, e), self.num(b, T_Q, e)
            forms = {ast.Gt: '(py_gt %s %s)', ast.GtE: '(py_ge %s %s)', ast.Lt: '(py_lt %s %s)', ast.LtE: '(py_le %s %s)',
                     ast.Eq: '(py_eq %s %s)', ast.NotEq: '(negb (py_eq %s %s))'}
            if type(op) not in forms:
                die(e, 'comparison operator')
            return forms[type(op)] % (ta, tb), T_B
        if isinstance(e, ast.Subscript):
            sl = e.slice
            r = self.ref(e.value)
            if isinstance(sl, ast.Constant) and sl.value == 0 and not isinstance(sl.value, bool) and r is not None:
                hd = env.get(('head', r))
                if hd is None:
                    die(e, '%s[0] outside an `if %s:` (IndexError on an empty list)' % (r, r))
                return hd
            if isinstance(sl, ast.Slice) and sl.lower is None and sl.step is None and sl.upper is not None:
                a, n = self.expr(e.value, env), self.expr(sl.upper, env)
                if isinstance(a[1], tuple) and a[1][0] == 'L' and n[1] == T_Z:
                    return '(py_slice_to %s %s)' % (a[0], n[0]), a[1]
            if isinstance(sl, ast.Slice) and sl.upper is None and sl.step is None and sl.lower is not None:
                a, n = self.expr(e.value, env), self.expr(sl.lower, env)
                if isinstance(a[1], tuple) and a[1][0] == 'L' and n[1] == T_Z:
                    return '(py_slice_from %s %s)' % (a[0], n[0]), a[1]
            if not isinstance(sl, ast.Slice):
                a, n = self.expr(e.value, env), self.expr(sl, env)
                if isinstance(a[1], tuple) and a[1][0] == 'L' and not isinstance(a[1][1], TyVar) and n[1] == T_Z:
                    return self.partial('(py_index %s %s)' % (a[0], n[0]), 'CvIndexError', a[1][1], e)      # l[i]: IndexError out of range
            die(e, 'subscript')
        if isinstance(e, ast.Tuple) and len(e.elts) == 1 and not isinstance(e.elts[0], ast.Starred):
            a = self.expr(e.elts[0], env)
            return '[%s]' % a[0], TL(a[1])               # (x,): a tuple is carried as the list of its components
        if isinstance(e, ast.DictComp):
            if len(e.generators) != 1 or e.generators[0].ifs or e.generators[0].is_async:
                die(e, 'dictionary comprehension form')
            g = e.generators[0]
            it, ety = self.iterable(g.iter, env)
            env2, pre = self.quiet(lambda: self.bind_target(g.target, 'itd_', ety, env, e))
            k = self.quiet(lambda: self.key(e.key, env2))
            v = self.quiet(lambda: self.num(self.expr(e.value, env2), T_Q, e))
            return '(py_dict_of (map (fun itd_ => %s(%s, %s)) %s))' % (pre, k, v, it), CV_DICT
        if isinstance(e, ast.Call):
            return self.call(e, env)
        die(e, 'expression')

    def comp(self, elt, generators, env, node, depth=0):
        g = generators[0]
        if g.is_async:
            die(node, 'async comprehension')
        it, ety = self.iterable(g.iter, env)
        var = 'it%d_' % depth if depth else 'it_'
        env2, pre = self.bind_target(g.target, var, ety, env, node)
        src = it
        if g.ifs:
            c = ' && '.join(self.cond(x, env2) for x in g.ifs)
            src = '(filter (fun %s => %s%s) %s)' % (var, pre, c if len(g.ifs) == 1 else '(%s)' % c, it)
        if len(generators) == 1:
            t, ty = self.expr(elt, env2)
            return '(map (fun %s => %s%s) %s)' % (var, pre, t, src), ty
        inner, ty = self.comp(elt, generators[1:], env2, node, depth + 1)
        return '(flat_map (fun %s => %s%s) %s)' % (var, pre, inner, src), ty

    def call(self, e, env):
        fn = e.func
        name = ast.unparse(fn)
        args = e.args
        if e.keywords or any(isinstance(a, ast.Starred) for a in args):
            die(e, 'argument list')
        if name == 'Fraction' and len(args) == 2:
            a, b = self.expr(args[0], env), self.expr(args[1], env)
            return '(py_frac %s %s)' % (self.num(a, T_Q, e), self.num(b, T_Q, e)), T_Q
        if name == 'len' and len(args) == 1:
            a = self.expr(args[0], env)
            if isinstance(a[1], tuple) and a[1][0] in ('L', 'S') and a[1] != TS(T_I):
                return '(py_len %s)' % a[0], T_Z
            die(e, 'len of a %s' % (a[1],))
        if name == 'frozenset' and len(args) == 1:
            if isinstance(args[0], ast.GeneratorExp):
                t, ty = self.quiet(lambda: self.comp(args[0].elt, args[0].generators, env, e))
            else:
                t, ty0 = self.expr(args[0], env)
                if not (isinstance(ty0, tuple) and ty0[0] in ('L', 'S', 'M')):
                    die(e, 'frozenset of a %s' % (ty0,))
                ty = ty0[1]
            if ty == T_I and not isinstance(args[0], ast.GeneratorExp):
                return t, TS(T_I)       # a frozenset of items: carried as the list it is built from, only usable as a dictionary key
            if ty != T_C:
                die(e, 'frozenset of items of type %s' % (ty,))
            return '(py_frozenset %s)' % t, TS(T_C)
        if name == 'dict' and len(args) == 1:
            self.builtin('dict', e, env)
            a = self.expr(args[0], env)
            if a[1] == CV_DICT:
                return a          # dict(d): a copy (a defaultdict becomes a plain dictionary with the same items)
            die(e, 'dict of a %s' % (a[1],))
        if isinstance(fn, ast.Attribute) and fn.attr == 'get' and len(args) == 2:
            d = self.expr(fn.value, env)
            if d[1] != CV_DICT:
                die(e, 'get on a %s' % (d[1],))
            return '(py_dict_get %s %s %s)' % (d[0], self.key(args[0], env), self.num(self.expr(args[1], env), T_Q, e)), T_Q
        if isinstance(fn, ast.Attribute) and fn.attr == 'difference' and len(args) == 1:
            a, b = self.expr(fn.value, env), self.expr(args[0], env)
            if a[1] == TS(T_C) and isinstance(b[1], tuple) and b[1][0] in ('L', 'S', 'M') and b[1][1] == T_C:
                return '(py_set_difference %s %s)' % (a[0], b[0]), TS(T_C)
            if a[1] == TS(T_C) and b[1] == TL(T_I):
                return '(py_set_difference_items %s %s)' % (a[0], b[0]), TS(T_C)
            die(e, 'difference of %s / %s' % (a[1], b[1]))
        if name == 'isinstance' and len(args) == 2 and ast.unparse(args[1]) == 'collections.abc.Set':
            self.builtin('isinstance', e, env)
            self.need_collections(e, env)
            a = self.expr(args[0], env)
            if a[1] == T_I:
                return '(py_is_set %s)' % a[0], T_B
            die(e, 'isinstance test on a %s' % (a[1],))
        if name in self.ext:
            cn, ptys, rty, module = self.ext[name]
            if module not in self.imports or name.split('.')[0] in env:
                die(e, 'the source does not reach %s through a plain `import %s`' % (name, module))
            if len(args) != len(ptys):
                die(e, 'argument list of %s' % name)
            out = []
            for a, pt in zip(args, ptys):
                x = self.expr(a, env)
                if x[1] != pt:
                    die(e, 'argument of type %s where %s is expected' % (x[1], pt))
                out.append(x[0])
            return '(%s %s)' % (cn, ' '.join(out)), rty
        die(e, 'call')

    def iterable(self, e, env):
        if isinstance(e, ast.Call) and isinstance(e.func, ast.Attribute) and e.func.attr in ('items', 'values') and not e.args and not e.keywords:
            t, ty = self.expr(e.func.value, env)
            if isinstance(ty, tuple) and ty[0] == 'D':
                if e.func.attr == 'items':
                    return t, TP(ty[1], ty[2])
                return '(map snd %s)' % t, ty[2]
            die(e, '.%s() of a %s' % (e.func.attr, ty))
        if isinstance(e, ast.Call) and isinstance(e.func, ast.Name) and e.func.id == 'enumerate' and len(e.args) == 1 and not e.keywords \
                and not isinstance(e.args[0], ast.Starred):
            self.builtin('enumerate', e, env)
            t, ty = self.expr(e.args[0], env)
            if isinstance(ty, tuple) and ty[0] == 'L' and not isinstance(ty[1], TyVar):
                return '(py_enumerate %s)' % t, TP(T_Z, ty[1])
            die(e, 'enumerate of a %s' % (ty,))
        t, ty = self.expr(e, env)
        if isinstance(ty, tuple) and ty[0] in ('L', 'S') and not isinstance(ty[1], TyVar) and ty != TS(T_I):
            return t, ty[1]
        if isinstance(ty, tuple) and ty[0] == 'D':
            return '(map fst %s)' % t, ty[1]       # iterating a dictionary: its keys
        if ty == T_I:
            return self.partial('(py_item_iter %s)' % t, 'CvTypeError', TL(T_I), e)[0], T_I      # a plain candidate is not iterable
        if ty == T_V:
            return self.partial('(py_iter_v %s)' % t, 'CvTypeError', TL(T_I), e)[0], T_I
        die(e, 'iteration over a %s' % (ty,))

    def bind_target(self, target, var, ety, env, node):
        env = dict(env)
        if isinstance(target, ast.Name):
            nm = self.ident(target.id)
            env[target.id] = (nm, ety)
            env.pop(('head', target.id), None)
            return env, 'let %s := %s in ' % (nm, var)
        if isinstance(target, ast.Tuple) and len(target.elts) == 2 and isinstance(ety, tuple) and ety[0] == 'P':
            pre = ''
            for x, proj, ty in ((target.elts[0], 'fst', ety[1]), (target.elts[1], 'snd', ety[2])):
                env, p2 = self.bind_target(x, '(%s %s)' % (proj, var), ty, env, node)
                pre += p2
            return env, pre
        if isinstance(target, ast.Tuple) and len(target.elts) == 3 and isinstance(ety, tuple) and ety[0] == 'P' \
                and isinstance(ety[2], tuple) and ety[2][0] == 'P':
            # a triple is carried as (a, (b, c))
            env, p1 = self.bind_target(target.elts[0], '(fst %s)' % var, ety[1], env, node)
            env, p2 = self.bind_target(ast.Tuple(elts=target.elts[1:], ctx=ast.Store()), '(snd %s)' % var, ety[2], env, node)
            return env, p1 + p2
        die(node, 'loop target')

    # ---- statements
    def assigned(self, stmts, out=None):
        """the locals the statements (re)bind or change in place, in order of first occurrence"""
        out = [] if out is None else out

        def add(r):
            if r is None or r.startswith('self.'):
                die(s, 'assignment target')
            if r not in out:
                out.append(r)
        for s in _strip(stmts):
            if isinstance(s, ast.Assign) and len(s.targets) == 1:
                tg = s.targets[0]
                add(self.ref(tg.value) if isinstance(tg, ast.Subscript) else self.ref(tg))
            elif isinstance(s, ast.AugAssign):
                tg = s.target
                add(self.ref(tg.value) if isinstance(tg, ast.Subscript) else self.ref(tg))
            elif isinstance(s, ast.Expr) and isinstance(s.value, ast.Call):
                c = s.value
                if isinstance(c.func, ast.Attribute) and c.func.attr in ('add', 'update', 'append', 'extend') and isinstance(c.func.value, ast.Name):
                    add(c.func.value.id)
                elif ast.unparse(c.func) in self.known and self.known[ast.unparse(c.func)].get('mutates') == 0 and c.args \
                        and isinstance(c.args[0], ast.Name):
                    add(c.args[0].id)
                else:
                    die(s, 'statement')
            elif isinstance(s, ast.If):
                self.assigned(s.body, out)
                self.assigned(s.orelse, out)
            elif isinstance(s, ast.For):
                tnames = {n.id for n in ast.walk(s.target) if isinstance(n, ast.Name)}
                inner = self.assigned(s.body, [])
                for r in inner:
                    if r not in tnames and r not in out:
                        out.append(r)
            else:
                die(s, 'statement')
        return out

    def assigned_x(self, stmts):
        out = self.assigned(stmts)
        return out + ['#exn'] if self.raises else out

    @staticmethod
    def tuple_of(parts):
        return parts[0] if len(parts) == 1 else '(%s, %s)' % (parts[0], CV.tuple_of(parts[1:]))

    @staticmethod
    def projections(var, n):
        out, cur = [], var
        for i in range(n):
            if i == n - 1:
                out.append(cur)
            else:
                out.append('(fst %s)' % cur)
                cur = '(snd %s)' % cur
        return out

    def state_fin(self, state, env0, node, want=None):
        """want: local -> the type it leaves the block with (default: the type it enters with)"""
        def fin(e2):
            parts = []
            for r in state:
                w = self.res((want or {}).get(r, env0[r][1] if r in env0 else None))
                if isinstance(w, tuple) and w[0] == 'O' and (r not in env0 or env0[r][0] is None):
                    # a local bound on some paths only
                    if r in e2 and e2[r][0] is not None:
                        if self.res(e2[r][1]) != w[1]:
                            die(node, 'local %s is bound with different types' % r)
                        parts.append('(Some %s)' % e2[r][0])
                    else:
                        parts.append('None')
                    continue
                if r not in e2 or e2[r][0] is None:
                    die(node, 'local %s has no value at the end of the block' % r)
                have = self.res(e2[r][1])
                if have == w:
                    parts.append(e2[r][0])
                elif w == T_V and have == T_I:
                    parts.append('(VI %s)' % e2[r][0])
                elif w == T_V and have == TL(T_I):
                    parts.append('(VT %s)' % e2[r][0])
                else:
                    die(node, 'local %s changes its type (%s -> %s)' % (r, w, have))
            return self.tuple_of(parts)
        return fin

    def rebind(self, state, text, env, k, node, want=None):
        """let <state> := text in <k>"""
        env = dict(env)
        for r, ty in (want or {}).items():
            if r in state:
                nm = env[r][0] if r in env and env[r][0] is not None else self.ident(r)
                env[r] = (nm, ty)
        for key_ in [x for x in env if isinstance(x, tuple) and x[0] == 'head' and x[1] in state]:
            del env[key_]
        if len(state) == 1:
            return 'let %s := %s in\n  %s' % (env[state[0]][0], text, k(env))
        # several locals: a destructuring let (a match on the tuple: nothing is duplicated when the term is unfolded)
        return "let '%s := %s in\n  %s" % (self.tuple_of([env[r][0] for r in state]), text, k(env))

    def drop_locals(self, env, names):
        env = dict(env)
        for r in names:
            env[r] = (None, 'DEAD')      # bound on some paths / in the last iteration only
        return env

    def block(self, stmts, env, fin):
        stmts = _strip(stmts)
        if not stmts:
            if fin is None:
                die(ast.Pass(), 'control falls off the end of the function')
            return fin(env)
        s, rest = stmts[0], stmts[1:]

        def k(env2):
            return self.block(rest, env2, fin)
        if isinstance(s, ast.Return):
            if rest or s.value is None or self.depth or fin is not None:
                die(s, 'return form (only as the last statement of the function)')
            t, ty = self.expr(s.value, env)
            if ty != CV_DICT:
                die(s, 'result of type %s' % (ty,))
            if self.raises:
                return self.flush() + "(py_result exn' %s)" % t
            return t
        if self.raises and isinstance(s, (ast.Assign, ast.AugAssign, ast.Expr)):
            # the operations hoisted by the expressions of this statement go in front of it
            done = {}

            def k2(env2):
                done['pre'] = self.flush()
                return k(env2)
            text = self.stmt(s, env, k2)
            return done['pre'] + text
        return self.stmt(s, env, k)

    def stmt(self, s, env, k):
        if isinstance(s, ast.Assign):
            if len(s.targets) != 1:
                die(s, 'multiple assignment')
            tg, v = s.targets[0], s.value
            if isinstance(tg, ast.Subscript):
                d = self.ref(tg.value)
                if d is None or d not in env or env[d][1] != CV_DICT or d not in self.mutable or isinstance(tg.slice, ast.Slice):
                    die(s, 'item assignment to something that is not a dictionary built here')
                key_ = self.key(tg.slice, env)
                val = self.num(self.expr(v, env), T_Q, s)
                return 'let %s := (py_dict_set %s %s %s) in\n  %s' % (env[d][0], env[d][0], key_, val, k(env))
            if not isinstance(tg, ast.Name):
                die(s, 'assignment target')
            r = tg.id
            env2 = dict(env)
            env2.pop(('head', r), None)
            nm = self.ident(r)
            self.dd.discard(r)
            self.mutable.discard(r)
            src = ast.unparse(v)
            if src == 'collections.defaultdict(int)':
                self.need_collections(v, env)
                self.builtin('int', v, env)
                env2[r] = (nm, CV_DICT)
                self.dd.add(r)
                self.mutable.add(r)
                return 'let %s := ([] : pydict) in\n  %s' % (nm, k(env2))
            if isinstance(v, ast.Dict) and not v.keys:
                env2[r] = (nm, CV_DICT)
                self.mutable.add(r)
                return 'let %s := ([] : pydict) in\n  %s' % (nm, k(env2))
            if src == 'set()':
                self.builtin('set', v, env)
                env2[r] = (nm, TM(T_C))
                self.mutable.add(r)
                return 'let %s := ([] : list C) in\n  %s' % (nm, k(env2))
            if isinstance(v, ast.List) and not v.elts:
                tv = TyVar()
                env2[r] = (nm, TL(tv))
                self.mutable.add(r)
                return 'let %s := ([] : list (%s)) in\n  %s' % (nm, cv_type(tv), k(env2))
            if isinstance(v, ast.Name) and (v.id in self.mutable or v.id in self.dd):
                die(s, 'a second name for a dictionary / set / list this function changes in place')
            t, ty = self.expr(v, env)
            env2[r] = (nm, ty)
            return 'let %s := %s in\n  %s' % (nm, t, k(env2))
        if isinstance(s, ast.AugAssign):
            tg = s.target
            if isinstance(tg, ast.Subscript) and isinstance(s.op, ast.Add) and not isinstance(tg.slice, ast.Slice):
                d = self.ref(tg.value)
                if d is None or d not in env or env[d][1] != CV_DICT or d not in self.dd:
                    die(s, '+= on an item of something that is not a defaultdict(int) built here (KeyError on a missing key)')
                key_ = self.key(tg.slice, env)
                val = self.num(self.expr(s.value, env), T_Q, s)
                return 'let %s := (py_dd_add %s %s %s) in\n  %s' % (env[d][0], env[d][0], key_, val, k(env))
            die(s, 'augmented assignment')
        if isinstance(s, ast.Expr) and isinstance(s.value, ast.Call):
            c = s.value
            if c.keywords or any(isinstance(a, ast.Starred) for a in c.args):
                die(s, 'argument list')
            if isinstance(c.func, ast.Attribute) and c.func.attr in ('add', 'update') and isinstance(c.func.value, ast.Name) and len(c.args) == 1:
                r = c.func.value.id
                if r not in env or env[r][1] != TM(T_C) or r not in self.mutable:
                    die(s, '%s on something that is not a set built here' % c.func.attr)
                a = self.expr(c.args[0], env)
                if c.func.attr == 'add':
                    if a[1] != T_C:
                        die(s, 'add of a %s' % (a[1],))
                    return 'let %s := (%s ++ [%s]) in\n  %s' % (env[r][0], env[r][0], a[0], k(env))
                if not (isinstance(a[1], tuple) and a[1][0] in ('L', 'S') and a[1][1] == T_C):
                    die(s, 'update by a %s' % (a[1],))
                return 'let %s := (%s ++ %s) in\n  %s' % (env[r][0], env[r][0], a[0], k(env))
            if isinstance(c.func, ast.Attribute) and c.func.attr in ('append', 'extend') and isinstance(c.func.value, ast.Name) and len(c.args) == 1:
                r = c.func.value.id
                if r not in env or env[r][0] is None or not (isinstance(env[r][1], tuple) and env[r][1][0] == 'L') or r not in self.mutable:
                    die(s, '%s on something that is not a list built here' % c.func.attr)
                tv = env[r][1][1]
                if c.func.attr == 'append':
                    a = self.expr(c.args[0], env)
                    add, ety = '[%s]' % a[0], a[1]
                else:
                    it, ety = self.iterable(c.args[0], env)
                    add = it
                if isinstance(tv, TyVar) and tv.val is None:
                    if isinstance(ety, TyVar) or ety in ('DEAD', 'EXN'):
                        die(s, 'item type')
                    tv.val = ety
                if self.res(tv) != self.res(ety):
                    die(s, '%s of a %s to a list of %s' % (c.func.attr, ety, self.res(tv)))
                return 'let %s := (%s ++ %s) in\n  %s' % (env[r][0], env[r][0], add, k(env))
            name = ast.unparse(c.func)
            kn = self.known.get(name)
            if kn is not None and kn.get('mutates') == 0 and len(c.args) == len(kn['params']) and isinstance(c.args[0], ast.Name):
                if kn.get('module') is not None and (kn['module'] not in self.imports or name.split('.')[0] in env):
                    die(s, 'the source does not reach %s through a plain `import %s`' % (name, kn['module']))
                r = c.args[0].id
                if r not in env or env[r][1] != kn['params'][0] or r not in self.mutable:
                    die(s, 'first argument of %s is not a dictionary built here' % name)
                out = [env[r][0]]
                for a, pt in zip(c.args[1:], kn['params'][1:]):
                    x = self.expr(a, env)
                    if x[1] != pt:
                        die(s, 'argument of type %s where %s is expected' % (x[1], pt))
                    out.append(x[0])
                return 'let %s := (%s %s) in\n  %s' % (env[r][0], kn['coq'], ' '.join(out), k(env))
            die(s, 'call statement')
        if isinstance(s, ast.If):
            return self.if_stmt(s, env, k)
        if isinstance(s, ast.For):
            return self.for_stmt(s, env, k)
        die(s, 'statement')

    def if_stmt(self, s, env, k):
        assigned = self.assigned_x(list(s.body) + list(s.orelse))
        state = [r for r in assigned if r in env and env[r][0] is not None]
        local = [r for r in assigned if r not in state]
        if not state and not local:
            die(s, 'conditional without an effect on the translated locals')
        test, swap = s.test, False
        if isinstance(test, ast.UnaryOp) and isinstance(test.op, ast.Not) and isinstance(test.operand, ast.Call) \
                and ast.unparse(test.operand.func) == 'isinstance':
            test, swap = test.operand, True
        et, ee = dict(env), dict(env)
        if isinstance(test, ast.Call) and ast.unparse(test.func) == 'isinstance' and len(test.args) == 2 and not test.keywords \
                and isinstance(test.args[0], ast.Name) and test.args[0].id in env and env[test.args[0].id][1] == T_I \
                and test.args[0].id not in assigned:
            self.builtin('isinstance', test, env)
            if ast.unparse(test.args[1]) != 'collections.abc.Set':
                die(test, 'isinstance test')
            self.need_collections(test, env)
            x = test.args[0].id
            nm = env[x][0].rstrip("'")
            ns, nc = nm + "'s", nm + "'c"
            et[x], ee[x] = (ns, TS(T_C)), (nc, T_C)
            if swap:
                et, ee = ee, et

            def mk(a, b):
                if swap:
                    a, b = b, a
                return '(match %s with IS %s => %s | IP %s => %s end)' % (env[x][0], ns, a, nc, b)
        elif isinstance(s.test, ast.Name) and s.test.id in env and env[s.test.id][0] is not None and isinstance(self.res(env[s.test.id][1]), tuple) \
                and self.res(env[s.test.id][1])[0] == 'L' and not isinstance(self.res(env[s.test.id][1])[1], TyVar) and s.test.id not in assigned:
            x = s.test.id
            hd = env[x][0].rstrip("'") + "'hd"
            et[('head', x)] = (hd, self.res(env[x][1])[1])

            def mk(a, b):
                return '(match %s with %s :: _ => %s | [] => %s end)' % (env[x][0], hd, a, b)
        else:
            c = self.cond(s.test, env)

            def mk(a, b):
                return '(if %s then %s else %s)' % (c, a, b)
        pre = self.flush()
        self.depth += 1
        # dry run: the types the locals leave the two paths with
        seen = []

        def probe(e2):
            seen.append({r: ((self.res(e2[r][1]) if e2[r][0] is not None else None) if r in e2 else None) for r in state + local})
            return '?'
        snap = (set(self.dd), set(self.mutable), list(self.pending) if self.pending is not None else None, self.nh)
        self.block(s.body, et, probe)
        self.dd, self.mutable, self.pending, self.nh = set(snap[0]), set(snap[1]), (list(snap[2]) if snap[2] is not None else None), snap[3]
        if _strip(s.orelse):
            self.block(s.orelse, ee, probe)
        else:
            probe(ee)
        self.dd, self.mutable, self.pending, self.nh = set(snap[0]), set(snap[1]), (list(snap[2]) if snap[2] is not None else None), snap[3]
        want, keep = {}, []
        for r in state + local:
            ta, tb = seen[0][r], seen[1][r]
            if r in state:
                if ta is None or tb is None:
                    die(s, 'local %s has no value at the end of a path' % r)
                if ta == tb:
                    want[r] = ta
                elif {ta, tb} == {T_I, TL(T_I)} or (T_V in (ta, tb) and {ta, tb} <= {T_V, T_I, TL(T_I)}):
                    want[r] = T_V
                else:
                    die(s, 'local %s leaves the two paths as %s / %s' % (r, ta, tb))
                keep.append(r)
            elif ta is not None and tb is not None and ta == tb and ta not in ('DEAD', 'EXN'):
                want[r] = ta            # bound on both paths
                keep.append(r)
            elif (ta is None) != (tb is None) and (ta or tb) not in ('DEAD', 'EXN') and self.raises:
                want[r] = TO(ta or tb)  # bound on one path only: its later use may raise UnboundLocalError
                keep.append(r)
        if not keep:
            die(s, 'conditional without an effect on the translated locals')
        fin = self.state_fin(keep, env, s, want)
        dd0, mut0 = set(self.dd), set(self.mutable)
        a = self.block(s.body, et, fin)
        dd1, mut1 = set(self.dd), set(self.mutable)
        self.dd, self.mutable = set(dd0), set(mut0)
        b = self.block(s.orelse, ee, fin) if _strip(s.orelse) else fin(ee)
        self.dd, self.mutable = self.dd & dd1, self.mutable & mut1
        self.depth -= 1
        return pre + self.rebind(keep, mk(a, b), self.drop_locals(env, [r for r in local if r not in keep]), k, s, want)

    def for_stmt(self, s, env, k):
        if s.orelse:
            die(s, 'for-else')
        for st_ in s.body:
            for n in ast.walk(st_):
                if isinstance(n, (ast.Return, ast.Raise, ast.Break, ast.Continue, ast.While, ast.AsyncFor, ast.Try, ast.With,
                                  ast.FunctionDef, ast.AsyncFunctionDef, ast.ClassDef, ast.Lambda, ast.Yield, ast.YieldFrom, ast.Await,
                                  ast.Global, ast.Nonlocal, ast.Delete, ast.NamedExpr)):
                    die(n, 'loop body form (%s)' % type(n).__name__)
        it, ety = self.iterable(s.iter, env)
        pre0 = self.flush()
        targets = [n.id for n in ast.walk(s.target) if isinstance(n, ast.Name)]
        if any(t in env and env[t][1] != 'DEAD' for t in targets):
            die(s, 'loop target rebinds a local')
        assigned = self.assigned_x(s.body)
        state = [r for r in assigned if r in env and env[r][0] is not None and r not in targets]
        local = [r for r in assigned if r not in state]
        if not state:
            die(s, 'loop without an effect on the translated locals')
        for r in state:
            if _mentions(s.iter, r):
                die(s, 'loop over a value its own body changes')
        self.depth += 1
        d = self.depth
        stv, itv = 'st%d_' % d, 'it%d_' % d
        env2, pre = self.bind_target(s.target, itv, ety, env, s)
        fin = self.state_fin(state, env, s)
        dd0, mut0 = set(self.dd), set(self.mutable)
        body = self.block(s.body, env2, fin)
        self.dd, self.mutable = self.dd & dd0, self.mutable & mut0
        self.depth -= 1
        if len(state) == 1:
            head = 'fun %s %s => ' % (env[state[0]][0], itv)
        else:
            head = "fun %s %s => let '%s := %s in " % (stv, itv, self.tuple_of([env[r][0] for r in state]), stv)
        init = self.tuple_of([env[r][0] for r in state])
        text = '(fold_left (%s%s%s) %s %s)' % (head, pre, body, it, init)
        return pre0 + self.rebind(state, text, self.drop_locals(env, local + targets), k, s)


CONVERT_HEADER = """(* GENERATED by tools/py2v.py (part 6) from %s -- do not edit. *)
From Coq Require Import ZArith QArith List Bool.
From VL Require Import Prelude.Sx Prelude.PyDict Prelude.GDict Prelude.PyNum Prelude.PyList Prelude.PySeq Prelude.PyConv Model.GetNBest Model.Convert.
Import ListNotations.
(* Model.Convert is imported for the value representation only ([item], the wire keys kc / kset / kitem, canon_set); dictionaries,
   sets and their operations are read by Prelude/PyConv.v.  A loop is a fold_left over what it iterates, its state the locals its
   body changes. *)
"""
# unit -> [(source file, [definition])]; a definition: name, cls | None, fn, params=[(coq name, python reference, type)],
#   static (a @staticmethod), mutates (index of the parameter the function updates in place: its final value is the result)
CONVERT_UNITS = [
    ('Convert', [
        ('votelib/util.py', [
            dict(name='add_dict_to_dict', cls=None, fn='add_dict_to_dict', mutates=0,
                 params=[('dict1', 'dict1', CV_DICT), ('dict2', 'dict2', CV_DICT)]),
        ]),
        ('votelib/convert.py', [
            dict(name='ApprovalToSimpleVotes_convert', cls='ApprovalToSimpleVotes', fn='convert',
                 params=[('split', 'self.split', T_B), ('votes', 'votes', CV_APPROVAL)]),
            dict(name='RankedToFirstPreference_convert', cls='RankedToFirstPreference', fn='convert',
                 params=[('votes', 'votes', CV_RANKED)]),
            dict(name='RankedToApprovalVotes_convert', cls='RankedToApprovalVotes', fn='convert',
                 params=[('votes', 'votes', CV_RANKED)]),
            dict(name='ScoreToApprovalVotesThreshold_convert', cls='ScoreToApprovalVotesThreshold', fn='convert',
                 params=[('threshold', 'self.threshold', T_Q), ('votes', 'votes', CV_SCORE)]),
            dict(name='InvertedSimpleVotes_convert', cls='InvertedSimpleVotes', fn='convert', static=True,
                 params=[('votes', 'votes', CV_DICT)]),
            dict(name='VoteTotals_convert', cls='VoteTotals', fn='convert',
                 params=[('votes', 'votes', CV_NESTED)]),
            dict(name='InvertedApprovalVotes_convert', cls='InvertedApprovalVotes', fn='convert', static=True,
                 params=[('votes', 'votes', CV_APPROVAL)]),
            dict(name='RankedToFirstNPreferences_convert', cls='RankedToFirstNPreferences', fn='convert',
                 params=[('n_first', 'self.n_first', T_Z), ('votes', 'votes', CV_RANKED)]),
            # votelib.util.all_rankings is a generator with a while loop: not translated, a function parameter (candidate, (rank, count))
            dict(name='RankedToPresenceCounts_convert', cls='RankedToPresenceCounts', fn='convert',
                 ext={'votelib.util.all_rankings': ('all_rankings', [CV_RANKED], TL(TP(T_C, TP(T_Z, T_Q))), 'votelib.util')},
                 params=[('votes', 'votes', CV_RANKED)]),
        ]),
    ]),
    # dynamically typed, nested loops over the ranks: its own unit, so that a rewrite the translator refuses leaves the unit above alone
    ('ConvertPairs', [
        ('votelib/convert.py', [
            dict(name='RankedToCondorcetVotes_convert', cls='RankedToCondorcetVotes', fn='convert', raises=True,
                 ext={'votelib.util.all_ranked_candidates': ('all_ranked_candidates', [CV_RANKED], TL(T_C), 'votelib.util')},
                 params=[('unranked_at_bottom', 'self.unranked_at_bottom', T_B), ('votes', 'votes', CV_RANKED)]),
        ]),
    ]),
]


def translate_convert_unit(repo, files):
    """-> (text, status dict)"""
    srcs = ', '.join(rel for rel, _ in files)
    out, functions, notes, known = [], {}, {}, {}
    allnames = [d['name'] for _, defs in files for d in defs]
    try:
        for rel, defs in files:
            tree = ast.parse(open(os.path.join(repo, rel)).read())
            classes = {n.name: n for n in tree.body if isinstance(n, ast.ClassDef)}
            funcs = {n.name: n for n in tree.body if isinstance(n, ast.FunctionDef)}
            rebound = _rebound_names(tree)
            module_names = _module_names(tree)
            imports = {al.name for n in tree.body if isinstance(n, ast.Import) for al in n.names if al.asname is None}
            module = rel[:-3].replace('/', '.')
            for d in defs:
                name = d['name']
                try:
                    if d.get('cls'):
                        cd = classes.get(d['cls'])
                        if cd is None:
                            raise Unsupported('class %s not found' % d['cls'])
                        if len([n for n in tree.body if isinstance(n, ast.ClassDef) and n.name == d['cls']]) != 1:
                            raise Unsupported('class %s defined more than once' % d['cls'])
                        meths = [m for m in cd.body if isinstance(m, (ast.FunctionDef, ast.AsyncFunctionDef)) and m.name == d['fn']]
                        if len(meths) != 1 or not isinstance(meths[0], ast.FunctionDef):
                            raise Unsupported('method %s.%s not found exactly once' % (d['cls'], d['fn']))
                        fd = meths[0]
                        decos = [ast.unparse(x) for x in fd.decorator_list]
                        if decos != (['staticmethod'] if d.get('static') else []):
                            die(fd, 'decorators %s' % decos)
                        attrs = [r[5:] for _, r, _ in d['params'] if r.startswith('self.')]
                        _check_ctor(cd, attrs, {})
                        moved = _attr_stores_elsewhere(cd, attrs, ())
                        if moved:
                            die(cd, 'attribute(s) %s assigned outside __init__' % sorted(moved))
                        pyparams = [a.arg for a in fd.args.args[(0 if d.get('static') else 1):]]
                        if not d.get('static') and (not fd.args.args or fd.args.args[0].arg != 'self'):
                            die(fd, 'first parameter is not self')
                    else:
                        fd = funcs.get(d['fn'])
                        if fd is None or module_names.get(d['fn']) != 'def':
                            raise Unsupported('function %s not found exactly once' % d['fn'])
                        if fd.decorator_list:
                            die(fd, 'decorated function')
                        pyparams = [a.arg for a in fd.args.args]
                    if fd.args.vararg or fd.args.kwarg or fd.args.kwonlyargs or fd.args.posonlyargs or fd.args.defaults:
                        die(fd, 'parameter list')
                    used = {n.id for n in ast.walk(fd) if isinstance(n, ast.Name)} & rebound
                    if used:
                        die(fd, 'the module rebinds %s, which the translator reads with a fixed meaning' % sorted(used))
                    env = {}
                    declared = [r for _, r, _ in d['params'] if not r.startswith('self.')]
                    if declared != pyparams:
                        die(fd, 'parameters %s where %s are declared' % (pyparams, declared))
                    mut = d.get('mutates')
                    ext = d.get('ext') or {}
                    cv = CV(known, module_names, imports, [declared[mut]] if mut is not None else [], bool(d.get('raises')), ext)
                    for cn, r, ty in d['params']:
                        env[r] = (cn, ty)
                    if d.get('raises'):
                        env['#exn'] = ("exn'", 'EXN')
                    if mut is None:
                        text = cv.block(fd.body, env, None)
                    else:
                        if any(isinstance(n, ast.Return) for n in ast.walk(fd)) or d.get('raises'):
                            die(fd, 'return in a function that is read through the argument it updates')
                        text = cv.block(fd.body, env, lambda e2, r=declared[mut]: e2[r][0])
                    if d.get('raises'):
                        text = "let exn' := (None : option cvexn) in\n  " + text

                    def tv_sub(m):
                        tv = [t for t in TyVar.live if t.id == int(m.group(1))]
                        if not tv or cv.res(tv[0]) is tv[0]:
                            raise Unsupported('a list that starts as [] never gets an item of a known type')
                        return cv_type(cv.res(tv[0]))
                    text = re.sub(r'@@TV(\d+)@@', tv_sub, text)
                    eparams = ['(%s : %s)' % (cn, cv_type(TFUN(ptys, rty))) for cn, ptys, rty, _ in ext.values()]
                    plist = ' '.join(eparams + ['(%s : %s)' % (cn, cv_type(ty)) for cn, r, ty in d['params']])
                    out.append('Definition %s %s : %s :=\n  %s.' % (name, plist, 'pydict + cvexn' if d.get('raises') else 'pydict', text))
                    functions[name] = 'ok'
                    if not d.get('cls'):
                        known['%s.%s' % (module, d['fn'])] = dict(coq=name, params=[ty for _, _, ty in d['params']], mutates=mut, module=module)
                except Unsupported as e:
                    functions[name] = 'unsupported: %s' % e
        missing = [n for n in allnames if functions.get(n) != 'ok']
        st = dict(status='ok' if not missing else 'partial', functions=functions, missing=missing, source=srcs, notes=notes)
        text = (CONVERT_HEADER % srcs) + '\n' + '\n\n'.join(out) + '\n'
    except (Unsupported, SyntaxError, OSError, RecursionError) as e:
        text = CONVERT_HEADER % srcs
        st = dict(status='failed', reason=str(e), source=srcs, missing=allnames)
    return text, st



def main():
    repo, outdir = sys.argv[1], sys.argv[2]
    os.makedirs(outdir, exist_ok=True)
    st = {}
    jobs = [
        ('Divisor', 'votelib/component/divisor.py',
         ['d_hondt', 'sainte_lague', 'imperiali', 'danish', 'macau', 'modified_first_coef'], {'huntington_hill'}),
        ('Quota', 'votelib/component/quota.py',
         ['hare', 'hare_rounded', 'droop', 'hagenbach_bischoff', 'hagenbach_bischoff_ceil',
          'hagenbach_bischoff_rounded', 'imperiali', '_round_half_up'], set()),
    ]
    for unit, rel, wanted, skip in jobs:
        dst = os.path.join(outdir, unit + '.v')
        try:
            text, status, missing = translate_file(os.path.join(repo, rel), wanted, skip, rel)
            st[unit] = dict(status='ok' if not missing else 'partial', functions=status, missing=missing, source=rel)
        except (Unsupported, SyntaxError, OSError) as e:
            text = HEADER % rel
            st[unit] = dict(status='failed', reason=str(e), source=rel, missing=wanted)
        old = open(dst).read() if os.path.exists(dst) else None
        if old != text:          # keep timestamps stable for make
            open(dst, 'w').write(text)
    # pairwise win scorers
    rel = 'votelib/component/pairwin_scorer.py'
    wanted = ['winning_votes', 'margins', 'pairwise_opposition']
    dst = os.path.join(outdir, 'Pairwin.v')
    try:
        text, status, missing = translate_pairwin(os.path.join(repo, rel), wanted, rel)
        st['Pairwin'] = dict(status='ok' if not missing else 'partial', functions=status, missing=missing, source=rel)
    except (Unsupported, SyntaxError, OSError) as e:
        text = PW_HEADER % rel
        st['Pairwin'] = dict(status='failed', reason=str(e), source=rel, missing=wanted)
    old = open(dst).read() if os.path.exists(dst) else None
    if old != text:
        open(dst, 'w').write(text)
    # rank scorers: per-rank score expressions (Dowdall ..) + typed translation of select_padded / Borda / SequenceBased
    rel = 'votelib/component/rankscore.py'
    wanted = ['Dowdall', 'Geometric', 'ModifiedBorda', 'FixedTop']
    dst = os.path.join(outdir, 'Rankscore.v')
    try:
        text, status, missing = translate_rankscore(os.path.join(repo, rel), wanted, rel)
        text = text.replace(HEADER % rel, RANK_HEADER % rel)
        tdefs, tstatus, tmissing, tnotes = translate_typed(os.path.join(repo, rel), RANK_TYPED, rel)
        text += '\n' + '\n\n'.join(tdefs) + '\n'
        status.update(tstatus)
        missing = missing + tmissing
        st['Rankscore'] = dict(status='ok' if not missing else 'partial', functions=status, missing=missing, source=rel,
                               note='Borda: set_n_candidates and scores are translated for the initialised state (n_candidates, _scores set); '
                                    'the RuntimeError of an uninitialised scorer is tied by correspondence (C18)', notes=tnotes)
    except (Unsupported, SyntaxError, OSError) as e:
        text = RANK_HEADER % rel
        st['Rankscore'] = dict(status='failed', reason=str(e), source=rel, missing=wanted + [d['name'] for d in RANK_TYPED])
    old = open(dst).read() if os.path.exists(dst) else None
    if old != text:
        open(dst, 'w').write(text)
    # typed units: thresholds, quota selector test, open-list jump test
    for unit, rel, defs in TYPED_JOBS:
        dst = os.path.join(outdir, unit + '.v')
        try:
            tdefs, status, missing, tnotes = translate_typed(os.path.join(repo, rel), defs, rel)
            text = (TYPED_HEADER % rel) + '\n' + '\n\n'.join(tdefs) + '\n'
            st[unit] = dict(status='ok' if not missing else 'partial', functions=status, missing=missing, source=rel, notes=tnotes)
        except (Unsupported, SyntaxError, OSError) as e:
            text = TYPED_HEADER % rel
            st[unit] = dict(status='failed', reason=str(e), source=rel, missing=[d['name'] for d in defs])
        old = open(dst).read() if os.path.exists(dst) else None
        if old != text:
            open(dst, 'w').write(text)
    # the selection primitive: util.sorted_votes, core.get_n_best, Plurality.evaluate (+ QuotaSelector.evaluate on top of it)
    ctext, st['Core'], qtext, st['CoreQsel'] = translate_core(repo)
    for path_, t_ in ((os.path.join(outdir, 'Core.v'), ctext), (os.path.join(outdir, 'CoreQsel.v'), qtext)):
        old = open(path_).read() if os.path.exists(path_) else None
        if old != t_:
            open(path_, 'w').write(t_)
    # part 6: accumulating converters (statement translator CV)
    for unit, files in CONVERT_UNITS:
        ctext_, st[unit] = translate_convert_unit(repo, files)
        path_ = os.path.join(outdir, unit + '.v')
        old = open(path_).read() if os.path.exists(path_) else None
        if old != ctext_:
            open(path_, 'w').write(ctext_)
    # part 5: class / signature tables of the whole package
    dst = os.path.join(outdir, 'Signatures.v')
    jdst = os.path.join(outdir, 'Signatures.json')
    try:
        text, infos, muts = generate_signatures(repo)
        ser = [c for c in infos if c['todict'] != 'TDNone']
        st['Signatures'] = dict(status='ok', source='votelib/**/*.py', functions={}, missing=[], classes=len(infos), serialisable=len(ser),
                                parameters=sum(len(c['params']) for c in ser),
                                stores={k: sum(1 for c in ser for p_ in c['params'] if p_['store'][0] == k)
                                        for k in ('Stored', 'StoredAs', 'Transformed', 'NotStored')},
                                mutable_defaults=len(muts))
        jtext = json.dumps(dict(classes=infos, mutable_defaults=muts), indent=1, sort_keys=True)
    except (Unsupported, SyntaxError, OSError, RecursionError) as e:
        text = SIG_HEADER + '\nDefinition classes : list cls := [].\nDefinition mutable_defaults : list (string * string * string * string) := [].\n'
        jtext = json.dumps(dict(classes=[], mutable_defaults=[], failed=str(e)))
        st['Signatures'] = dict(status='failed', reason=str(e), source='votelib/**/*.py', missing=['classes'])
    for path_, t_ in ((dst, text), (jdst, jtext)):
        old = open(path_).read() if os.path.exists(path_) else None
        if old != t_:
            open(path_, 'w').write(t_)
    st.update(write_c16_units(repo, outdir))     # part 6: units OpenlistEval, TieBreak (C16)
    # part 6: validation code (vote.py validators, candidate.py nominators, convert.InvalidVoteEliminator) -> Gen/Validate.v
    vtext, st['Validate'] = translate_validate(repo)
    vdst = os.path.join(outdir, 'Validate.v')
    if (open(vdst).read() if os.path.exists(vdst) else None) != vtext:
        open(vdst, 'w').write(vtext)
    # part 6: alias-and-mutation scan of every function of the package (tools/mutscan.py) -> Gen/Mutation.v, Gen/Mutation.json
    generate_mutation(repo, outdir, st)
    json.dump(st, open(os.path.join(outdir, 'STATUS.json'), 'w'), indent=1)
    print(json.dumps(st, indent=1))


# ---------------------------------------------------------------- part 6 (C16, wave 7): whole bodies of openlist.ThresholdOpenList.evaluate,
# core.Tie.any / Tie.break_by_list and openlist.ListOrderTieBreaker.evaluate (units OpenlistEval -> Gen/OpenlistEval.v, TieBreak ->
# Gen/TieBreak.v; primitives read by Prelude/PyTie.v).  TX7 extends the typed method translator (TX) by
#    stmt ::= x.sort(key=l.index | d.get [, reverse=b])     x a list built by the function; the exception of the key function (ValueError /
#                                                           TypeError on None keys) is hoisted like l[i]
#           | y = x                                          x a list built by the function and never mentioned again: y takes its place
#           | for t in e: body                               body may contain `break` and operations that raise: a fold whose state is
#                                                           (stopped?, locals) [+ pyexn]; an iteration after a break / an exception is the identity
#           | if isinstance(x, Tie): A else: B               x an item of a selection: match x with TieR x => A | Cand x => B end
#           | D = {} .. D[k] = e | del D[k]                  a dictionary keyed by ties (frozensets compared as sets); del of a missing key: KeyError
#           | return f(..) for a translated raising function returning candidates where selection items are expected
#    e ::= D[k] (KeyError hoisted) | k in D | l[n:] | sorted(S, key=l.index) (S a list or a set of candidates: the key is injective, so the
#          result does not depend on the iteration order of S; ValueError hoisted) | any(isinstance(x, Tie) for x in l)
#        | p.evaluate(a, ..) for a function-typed attribute p
#  Everything else is TX; any other node stops the definition (fail closed).
T_TIE = TS(T_C)


def TD(k, v):
    return ('D', k, v)


def coq_type7(t):
    if isinstance(t, tuple) and t[0] == 'D':
        return 'list (%s * %s)' % (coq_type7(t[1]), coq_type7(t[2]))
    return coq_type(t)


def _pos(n):
    return (n.lineno, n.col_offset)


class TX7(TX):
    def __init__(self, known, raises, fd):
        super().__init__(known, raises)
        self.fd = fd
        self.brk = None          # inside a loop that contains `break`: env -> the state of the loop with the stop flag set
        self.loops = [n for n in ast.walk(fd) if isinstance(n, (ast.For, ast.While, ast.AsyncFor))]

    # ---- helpers
    method_only = ()             # names the module binds only as methods (class attributes: invisible from inside a function body)

    def builtin(self, name, node, env):
        if name in env or (self.module_names.get(name) is not None and name not in self.method_only):
            die(node, 'the name %s is bound by the source, the translator reads it as the builtin' % name)

    def is_tie_class(self, node, env):
        return (isinstance(node, ast.Name) and node.id == 'Tie' and 'Tie' not in env and self.module_names.get('Tie') == 'class:frozenset') or (
            ast.unparse(node) == 'votelib.evaluate.core.Tie' and 'votelib' not in env and 'votelib.evaluate.core' in self.imports)

    def tie_test(self, test, env):
        """isinstance(x, Tie) on a local x that is an item of a selection -> the reference of x, else None"""
        if (isinstance(test, ast.Call) and isinstance(test.func, ast.Name) and test.func.id == 'isinstance' and len(test.args) == 2
                and not test.keywords and isinstance(test.args[0], ast.Name) and self.is_tie_class(test.args[1], env)):
            self.builtin('isinstance', test, env)
            r = test.args[0].id
            if r in env and env[r][1] == T_RES:
                return r
        return None

    def method_key(self, kn, env):
        """key=l.index / key=d.get -> (coq key function, order on keys, exception of the sort, sort function)"""
        if isinstance(kn, ast.Attribute) and self.ref(kn.value) is not None and self.ref(kn.value) in env:
            text, ty = env[self.ref(kn.value)]
            if kn.attr == 'index' and ty == TL(T_C):
                return '(py_list_index %s)' % text, 'Z.leb', 'PyValueError', 'py_sort_optkey'
            if kn.attr == 'get' and ty == VOTES:
                return '(py_dict_get %s)' % text, 'Qle_bool', 'PyTypeError', 'py_sort_nonekey'
        return None

    def sort_term(self, node, kw, subject, env):
        if set(kw) - {'key', 'reverse'} or 'key' not in kw:
            die(node, 'sort arguments')
        mk = self.method_key(kw['key'], env)
        if mk is None:
            die(node, 'sort key')
        rv = 'false'
        if 'reverse' in kw:
            t, ty = self.expr(kw['reverse'], env)
            if ty != T_B:
                die(node, 'reverse= of type %s' % (ty,))
            rv = t
        return '(%s %s %s %s %s)' % (mk[3], mk[0], mk[1], subject, rv), mk[2]

    def mentioned_after(self, name, s):
        end = (s.end_lineno, s.end_col_offset)
        return any(isinstance(n, ast.Name) and n.id == name and _pos(n) >= end for n in ast.walk(self.fd))

    def inside_loop(self, s):
        return any(s is n for lp in self.loops for n in ast.walk(lp))

    # ---- expressions
    def expr(self, e, env):
        if isinstance(e, ast.Subscript) and not isinstance(e.slice, ast.Slice):
            r = self.ref(e.value)
            if r is not None and r in env and isinstance(env[r][1], tuple) and env[r][1][0] == 'D':
                k = self.expr(e.slice, env)
                if k[1] != env[r][1][1]:
                    die(e, 'key of type %s' % (k[1],))
                return self.hoist('(py_tdict_get %s %s)' % (env[r][0], k[0]), 'PyKeyError', env[r][1][2], e)
        if isinstance(e, ast.Subscript) and isinstance(e.slice, ast.Slice) and e.slice.upper is None and e.slice.step is None \
                and e.slice.lower is not None:
            a, n = self.expr(e.value, env), self.expr(e.slice.lower, env)
            if a[1][0] == 'L' and n[1] == T_Z:
                return '(py_slice_from %s %s)' % (a[0], n[0]), a[1]
            die(e, 'slice of a %s from a %s' % (a[1], n[1]))
        if isinstance(e, ast.Compare) and len(e.ops) == 1 and isinstance(e.ops[0], (ast.In, ast.NotIn)):
            r = self.ref(e.comparators[0])
            if r is not None and r in env and isinstance(env[r][1], tuple) and env[r][1][0] == 'D':
                k = self.expr(e.left, env)
                if k[1] != env[r][1][1]:
                    die(e, 'key of type %s' % (k[1],))
                t = '(py_tdict_mem %s %s)' % (env[r][0], k[0])
                return (t if isinstance(e.ops[0], ast.In) else '(negb %s)' % t), T_B
        return super().expr(e, env)

    def call(self, e, env):
        fn, name = e.func, ast.unparse(e.func)
        kw = {k.arg: k.value for k in e.keywords}
        args = e.args
        if None not in kw and not any(isinstance(a, ast.Starred) for a in args):
            if name == 'sorted' and len(args) == 1 and 'key' in kw and self.method_key(kw['key'], env) is not None:
                self.builtin('sorted', e, env)
                a = self.expr(args[0], env)
                if a[1] not in (TL(T_C), TS(T_C)):
                    die(e, 'sorted (by a method key) of a %s' % (a[1],))
                if a[1] == TS(T_C) and self.method_key(kw['key'], env)[3] != 'py_sort_optkey':
                    die(e, 'sorted of a set by a key that is not injective')
                term, exn = self.sort_term(e, kw, a[0], env)
                return self.hoist(term, exn, TL(T_C), e)
            if name == 'any' and len(args) == 1 and not kw and isinstance(args[0], ast.GeneratorExp) and len(args[0].generators) == 1:
                g = args[0].generators[0]
                if not g.ifs and not g.is_async and isinstance(g.target, ast.Name):
                    self.builtin('any', e, env)
                    it, ety = self.iterable(g.iter, env)
                    env2 = dict(env)
                    env2[g.target.id] = ('it_', ety)
                    if self.tie_test(args[0].elt, env2) == g.target.id:
                        return '(existsb (fun it_ => match it_ with TieR _ => true | Cand _ => false end) %s)' % it, T_B
                die(e, 'any(..) form')
            if isinstance(fn, ast.Attribute) and fn.attr == 'evaluate' and not kw and self.ref(fn.value) is not None \
                    and self.ref(fn.value) in env and env[self.ref(fn.value)][1][0] == 'F' and env[self.ref(fn.value)][1] != T_SEL:
                f = env[self.ref(fn.value)]
                if len(f[1][1]) != len(args):
                    die(e, 'evaluate call')
                out = []
                for a, pt in zip(args, f[1][1]):
                    x = self.expr(a, env)
                    out.append(self.coerce(x[0], x[1], pt, e))
                return '(%s %s)' % (f[0], ' '.join(out)), f[1][2]
        return super().call(e, env)

    # ---- statements
    def sort_stmt(self, s):
        if (isinstance(s, ast.Expr) and isinstance(s.value, ast.Call) and isinstance(s.value.func, ast.Attribute)
                and s.value.func.attr == 'sort' and self.ref(s.value.func.value) is not None and not s.value.args
                and all(k.arg is not None for k in s.value.keywords)):
            return self.ref(s.value.func.value)
        return None

    def block(self, stmts, env, final):
        stmts = _strip(stmts)
        if not stmts:
            return super().block(stmts, env, final)
        s, rest = stmts[0], stmts[1:]
        if isinstance(s, ast.Break):
            if self.brk is None:
                die(s, 'break outside a translated loop')
            return self.brk(env)          # whatever follows in the iteration is skipped
        r = self.sort_stmt(s)
        if r is not None:
            if r not in env or r not in self.fresh or env[r][1] != TL(T_C):
                die(s, 'in-place sort of a list that may be shared with the caller (or is not a list of candidates)')
            term, exn = self.sort_term(s, {k.arg: k.value for k in s.value.keywords}, env[r][0], env)
            var, ty = self.hoist(term, exn, TL(T_C), s)
            hs = self.take()
            env = dict(env)
            nm = self.newname(env, r)
            env[r] = (nm, ty)
            return self.wraph(hs, 'let %s := %s in\n  %s' % (nm, var, self.block(rest, env, final)))
        if isinstance(s, ast.Assign) and len(s.targets) == 1 and isinstance(s.targets[0], ast.Name) and isinstance(s.value, ast.Name) \
                and s.value.id in env and s.value.id in self.fresh and s.value.id != s.targets[0].id \
                and isinstance(env[s.value.id][1], tuple) and env[s.value.id][1][0] == 'L':
            # y = x: two names of ONE list; translated only when x is never mentioned again (then y simply takes its place)
            x, y = s.value.id, s.targets[0].id
            if self.inside_loop(s) or self.mentioned_after(x, s):
                die(s, 'second name for a list that is still used under its first name')
            env = dict(env)
            cur = env[x]
            env[x] = (None, 'DEAD')
            nm = self.newname(env, y)
            env[y] = (nm, cur[1])
            self.fresh.discard(x)
            self.fresh.add(y)
            return 'let %s := %s in\n  %s' % (nm, cur[0], self.block(rest, env, final))
        if isinstance(s, ast.Assign) and len(s.targets) == 1 and isinstance(s.targets[0], ast.Subscript) \
                and not isinstance(s.targets[0].slice, ast.Slice) and self.ref(s.targets[0].value) in env:
            r = self.ref(s.targets[0].value)
            dty = env[r][1]
            if dty == 'EMPTYDICT' or (isinstance(dty, tuple) and dty[0] == 'D'):
                v = self.expr(s.value, env)               # the value is evaluated before the key
                k = self.expr(s.targets[0].slice, env)
                hs = self.take()
                env = self.refined(env)
                if dty == 'EMPTYDICT':
                    if k[1] != T_TIE:
                        die(s, 'dictionary keyed by a %s' % (k[1],))
                    dty, cur = TD(k[1], v[1]), '[]'
                else:
                    cur = env[r][0]
                    if (k[1], v[1]) != (dty[1], dty[2]):
                        die(s, 'item %s: %s stored in a %s' % (k[1], v[1], dty))
                env = dict(env)
                nm = self.newname(env, r)
                env[r] = (nm, dty)
                return self.wraph(hs, 'let %s := (py_tdict_set %s %s %s) in\n  %s' % (nm, cur, k[0], v[0], self.block(rest, env, final)))
        if isinstance(s, ast.Delete) and len(s.targets) == 1 and isinstance(s.targets[0], ast.Subscript) \
                and not isinstance(s.targets[0].slice, ast.Slice) and self.ref(s.targets[0].value) in env:
            r = self.ref(s.targets[0].value)
            dty = env[r][1]
            if isinstance(dty, tuple) and dty[0] == 'D':
                k = self.expr(s.targets[0].slice, env)
                if k[1] != dty[1]:
                    die(s, 'key of type %s' % (k[1],))
                var, _ = self.hoist('(py_tdict_del %s %s)' % (env[r][0], k[0]), 'PyKeyError', dty, s)
                hs = self.take()
                env = dict(self.refined(env))
                nm = self.newname(env, r)
                env[r] = (nm, dty)
                return self.wraph(hs, 'let %s := %s in\n  %s' % (nm, var, self.block(rest, env, final)))
        if isinstance(s, ast.If):
            r = self.tie_test(s.test, env)
            if r is not None:
                et, ee = dict(env), dict(env)
                nt, ne = self.newname(env, r), self.newname(env, r)
                et[r], ee[r] = (nt, T_TIE), (ne, T_C)
                fresh0 = set(self.fresh)
                a = self.block(list(s.body) + rest, et, final)
                self.fresh = set(fresh0)
                b = self.block(list(s.orelse) + rest, ee, final)
                return '(match %s with TieR %s => %s | Cand %s => %s end)' % (env[r][0], nt, a, ne, b)
        if isinstance(s, ast.For) and self.needs7(s):
            return self.for_fold7(s, rest, env, final)
        if isinstance(s, ast.Return) and not rest and s.value is not None and self.reach is None and not self.in_fold:
            k = self.tail_call(s.value)
            if k is not None and k.get('module') is not None and self.ret_type == TL(T_RES) and k['ret'] == TL(T_C):
                if k['module'] not in self.imports or ast.unparse(s.value.func).split('.')[0] in env:
                    die(s, 'the source does not reach %s through a plain import' % ast.unparse(s.value.func))
                t, _ = self.known_call(k, s.value, env, True)
                return self.wraph(self.take(), '(match %s with inl r_ => inl (map (@Cand C) r_) | inr e_ => inr e_ end)' % t)
        return super().block(stmts, env, final)

    # ---- loops with break / exceptions / dictionary updates
    def needs7(self, s):
        for n in ast.walk(s):
            if isinstance(n, (ast.Break, ast.Delete)):
                return True
            if isinstance(n, ast.Subscript) and (isinstance(n.ctx, ast.Store) or not isinstance(n.slice, ast.Slice)):
                return True
            if isinstance(n, ast.Call) and ast.unparse(n.func) in ('isinstance', 'sorted'):
                return True
            if isinstance(n, ast.Attribute) and n.attr == 'sort':
                return True
        return False

    def loop_assigned7(self, stmts, out):
        for s in _strip(stmts):
            if isinstance(s, ast.Break):
                continue
            if isinstance(s, ast.If):
                self.loop_assigned7(s.body, out)
                self.loop_assigned7(s.orelse, out)
                continue
            if self.sort_stmt(s) is not None:
                refs = [self.sort_stmt(s)]
            elif isinstance(s, ast.Assign) and len(s.targets) == 1 and isinstance(s.targets[0], ast.Subscript) \
                    and self.ref(s.targets[0].value) is not None:
                refs = [self.ref(s.targets[0].value)]
            elif isinstance(s, ast.Delete) and len(s.targets) == 1 and isinstance(s.targets[0], ast.Subscript) \
                    and self.ref(s.targets[0].value) is not None:
                refs = [self.ref(s.targets[0].value)]
            else:
                refs = self.loop_assigned([s], [])
            for r in refs:
                if r not in out:
                    out.append(r)
        return out

    def infer7(self, stmts, env, untyped):
        """types of the loop variables that start as [] / {} / None: from the appends / stores in the body that can be typed, iterated
           (the type of one may be needed for the other)"""
        found = {}
        saved = (self.pending, list(self.notes), set(self.fresh), self.nhoist, list(self.refine), self.brk)
        try:
            for _ in range(4):
                before = dict(found)
                self.pending, self.refine = ([] if self.raises else None), []
                self.infer7_block(stmts, dict(env), untyped, found)
                if found == before:
                    break
        finally:
            self.pending, self.notes, self.fresh, self.nhoist, self.refine, self.brk = saved
        return found

    def infer7_block(self, stmts, env, untyped, found):
        for s in _strip(stmts):
            for r, ty in found.items():
                env[r] = (self.ident(r), ty)
            if self.pending is not None:
                self.pending = []
            try:
                ap = self.append_stmt(s)
                if ap is not None:
                    if untyped.get(ap[0]) == 'EMPTYLIST' and ap[0] not in found:
                        found[ap[0]] = TL(self.expr(ap[1], env)[1])
                elif isinstance(s, ast.Assign) and len(s.targets) == 1:
                    tg = s.targets[0]
                    if isinstance(tg, ast.Subscript) and not isinstance(tg.slice, ast.Slice):
                        r = self.ref(tg.value)
                        if untyped.get(r) == 'EMPTYDICT' and r not in found:
                            v, k = self.expr(s.value, env), self.expr(tg.slice, env)
                            if k[1] == T_TIE:
                                found[r] = TD(k[1], v[1])
                    else:
                        t, ty = self.expr(s.value, env)
                        if isinstance(tg, ast.Tuple):
                            e2, _ = self.bind_target(tg, t, ty, env, s)
                            env.update(e2)
                        elif self.ref(tg) is not None:
                            r = self.ref(tg)
                            if r in untyped:
                                if untyped[r] == 'NONE' and r not in found:
                                    found[r] = TO(ty)
                                elif untyped[r] == 'EMPTYLIST' and r not in found and ty[0] == 'L':
                                    found[r] = ty
                            else:
                                env[r] = (self.ident(r), ty)
                elif isinstance(s, ast.If):
                    r = self.tie_test(s.test, env)
                    et, ee = dict(env), dict(env)
                    if r is not None:
                        et[r], ee[r] = (env[r][0], T_TIE), (env[r][0], T_C)
                    self.infer7_block(s.body, et, untyped, found)
                    self.infer7_block(s.orelse, ee, untyped, found)
            except Unsupported:
                continue

    def for_fold7(self, s, rest, env, final):
        if s.orelse:
            die(s, 'for-else')
        if self.in_fold:
            die(s, 'nested loop')
        body = _strip(s.body)
        for st_ in body:
            for n in ast.walk(st_):
                if isinstance(n, (ast.Return, ast.Raise, ast.Continue, ast.For, ast.While, ast.AsyncFor, ast.Try, ast.With,
                                  ast.FunctionDef, ast.AsyncFunctionDef, ast.ClassDef, ast.Lambda, ast.Yield, ast.YieldFrom, ast.Await,
                                  ast.Global, ast.Nonlocal, ast.NamedExpr)):
                    die(n, 'loop body form (%s)' % type(n).__name__)
        it, ety = self.iterable(s.iter, env)
        if self.pending:
            die(s, 'operation that may raise in the iterable of a loop')
        targets = [n.id for n in ast.walk(s.target) if isinstance(n, ast.Name)]
        assigned = self.loop_assigned7(body, [])
        if any(r.startswith('self.') for r in assigned):
            die(s, 'attribute assigned inside a loop')
        if set(assigned) & set(targets):
            die(s, 'loop target reassigned inside the loop')
        state = [r for r in assigned if r in env]
        local = [r for r in assigned if r not in env]
        if not state:
            die(s, 'loop without an effect on the translated locals')
        for r in state:
            if _mentions(s.iter, r):
                die(s, 'loop over a value its own body changes')
        has_break = any(isinstance(n, ast.Break) for st_ in body for n in ast.walk(st_))
        env2, pre = self.bind_target(s.target, 'it_', ety, env, s)
        untyped = {r: env[r][1] for r in state if env[r][1] in ('EMPTYLIST', 'NONE', 'EMPTYDICT')}
        found = self.infer7(body, env2, untyped)
        types, inits = {}, {}
        for r in state:
            t0, ty0 = env[r]
            if r in untyped:
                if r not in found:
                    die(s, 'the loop never gives %s a value of a known type' % r)
                types[r] = found[r]
                inits[r] = '(%s : %s)' % ('None' if ty0 == 'NONE' else '[]', coq_type7(found[r]))
            else:
                if not isinstance(ty0, (str, tuple)) or ty0 in ('EMPTYSET', 'DEAD', 'KEYFN'):
                    die(s, 'loop variable %s' % r)
                types[r] = ty0
                inits[r] = t0
        names = (['stop'] if has_break else []) + state      # components of the state tuple

        def tuple_of(parts):
            return parts[0] if len(parts) == 1 else '(%s, %s)' % (parts[0], tuple_of(parts[1:]))

        def projections(var):
            out, cur = [], var
            for i in range(len(names)):
                if i == len(names) - 1:
                    out.append(cur)
                else:
                    out.append('(fst %s)' % cur)
                    cur = '(snd %s)' % cur
            return out
        env3 = dict(env2)
        lets = ''
        fresh0 = set(self.fresh)
        prs = projections('st_')
        for r, pr in zip(state, prs[1:] if has_break else prs):
            nm = self.newname(env3, r)
            env3[r] = (nm, types[r])
            lets += 'let %s := %s in ' % (nm, pr)
            if (r in untyped and untyped[r] == 'EMPTYLIST') or r in self.fresh:
                self.fresh.add(r)
        ok_ = (lambda t: '(inl %s)' % t) if self.raises else (lambda t: t)

        def fin(e2, stop='false'):
            parts = [stop] if has_break else []
            for r in state:
                t, ty = e2[r]
                want = types[r]
                if ty == want:
                    parts.append(t)
                elif want[0] == 'O' and ty == want[1]:
                    parts.append('(Some %s)' % t)
                elif ty in (T_Z, T_Q, TL(T_Z)):
                    parts.append(self.coerce(t, ty, want, s))
                else:
                    die(s, 'loop variable %s ends an iteration as %s' % (r, ty))
            return ok_(tuple_of(parts))
        saved = (self.pending, self.in_fold, self.brk)
        self.pending, self.in_fold = ([] if self.raises else None), True
        self.brk = (lambda e2: fin(e2, 'true')) if has_break else None
        try:
            step = self.block(body, env3, fin)
        finally:
            self.pending, self.in_fold, self.brk = saved
        self.fresh = fresh0 | {r for r in state if r in self.fresh and (r in fresh0 or r in untyped)}
        if has_break:
            step = '(if %s then %s else %s%s%s)' % (prs[0], ok_('st_'), lets, pre, step)
        else:
            step = '%s%s%s' % (lets, pre, step)
        init = tuple_of((['false'] if has_break else []) + [inits[r] for r in state])
        self.nhoist += 1
        stv = "st'%d" % self.nhoist
        env = dict(env)
        after = ''
        pra = projections(stv)
        for r, pr in zip(state, pra[1:] if has_break else pra):
            nm = self.newname(env, r)
            env[r] = (nm, types[r])
            after += 'let %s := %s in ' % (nm, pr)
        for r in local + targets:
            env[r] = (None, 'DEAD')
        if self.raises:
            def prod_of(parts):
                return parts[0] if len(parts) == 1 else '(%s * %s)' % (parts[0], prod_of(parts[1:]))
            sty = prod_of((['bool'] if has_break else []) + [coq_type7(types[r]) for r in state])
            loop = '(fold_left (fun (sr_ : %s + pyexn) it_ => match sr_ with inr e_ => inr e_ | inl st_ => %s end) %s (inl %s))' % (sty, step, it, init)
            return '(match %s with inr e_ => inr e_ | inl %s => %s\n  %s end)' % (loop, stv, after, self.block(rest, env, final))
        loop = '(fold_left (fun st_ it_ => %s) %s %s)' % (step, it, init)
        return 'let %s := %s in\n  %s\n  %s' % (stv, loop, after, self.block(rest, env, final))


C16_HEADER = """(* GENERATED by tools/py2v.py (part 6) from %s -- do not edit. *)
From Coq Require Import String.
From Coq Require Import ZArith QArith List Bool.
From VL Require Import Prelude.PyDict Prelude.PyNum Prelude.PyList Prelude.PySeq Prelude.PyTie Model.GetNBest.
Import ListNotations.
(* Model.GetNBest is imported for the type of selection items ([res]: Cand c | TieR l) and for [sort_desc Qle_bool], the reading of
   votelib.util.sorted_votes (tied to the source by Props/GenTie_Core.v); list.index, the in-place sorts, l[n:], the dictionary keyed
   by ties are read by Prelude/PyTie.v; an operation that may raise is a match on its optional result, in evaluation order; a loop is a
   fold whose state carries the locals it assigns (and whether it was left by break). *)
"""
P_LIST = ('candidate_list', 'candidate_list', TL(T_C))
C16_OPENLIST = ('votelib/evaluate/openlist.py', [
    dict(name='ThresholdOpenList_evaluate', cls='ThresholdOpenList', fn='evaluate', raises=True, ret=TL(T_C), ctor={'quota_function': '*'},
         params=[('jump_fraction', 'self.jump_fraction', TO(T_Q)), ('quota_function', 'self.quota_function', TO(TFUN([T_Q, T_Z], T_Q))),
                 ('take_higher', 'self.take_higher', T_B), P_AE, ('list_precedence', 'self.list_precedence', T_B),
                 ('votes', 'votes', VOTES), ('n_seats', 'n_seats', T_Z), P_LIST]),
])
C16_TIE_CORE = ('votelib/evaluate/core.py', [
    dict(name='Tie_any', cls='Tie', fn='any', decorator='staticmethod', raises=False, ret=T_B, params=[('result', 'result', TL(T_RES))],
         export='votelib.evaluate.core.Tie.any'),
    dict(name='Tie_break_by_list', cls='Tie', fn='break_by_list', decorator='classmethod', raises=True, ret=TL(T_C),
         params=[('elected', 'elected', TL(T_RES)), ('breaker', 'breaker', TL(T_C))], export='votelib.evaluate.core.Tie.break_by_list'),
])
C16_TIE_OPENLIST = ('votelib/evaluate/openlist.py', [
    dict(name='ListOrderTieBreaker_evaluate', cls='ListOrderTieBreaker', fn='evaluate', raises=True, ret=TL(T_RES),
         params=[('evaluator', 'self.evaluator', TFUN([VOTES, T_Z], TL(T_RES))), ('votes', 'votes', VOTES), ('n_seats', 'n_seats', T_Z), P_LIST]),
])


def translate_bodies7(path, defs, known0=None):
    """whole method bodies with TX7; methods may carry exactly the decorator declared for them (staticmethod / classmethod)"""
    tree = ast.parse(open(path).read())
    classes = {n.name: n for n in tree.body if isinstance(n, ast.ClassDef)}
    rebound = _rebound_names(tree)
    module_names = _module_names(tree)
    imports = {al.name for n in tree.body if isinstance(n, ast.Import) for al in n.names if al.asname is None}
    out, status, notes, exported = [], {}, {}, {}
    known = dict(known0 or {})
    as_method = collections_counter(m.name for c in ast.walk(tree) if isinstance(c, ast.ClassDef) for m in c.body
                                    if isinstance(m, (ast.FunctionDef, ast.AsyncFunctionDef)))
    stores = collections_counter(n.id for n in ast.walk(tree) if isinstance(n, ast.Name) and isinstance(n.ctx, (ast.Store, ast.Del)))
    others = collections_counter(
        [n.name for n in ast.walk(tree) if isinstance(n, (ast.FunctionDef, ast.AsyncFunctionDef, ast.ClassDef))]
        + [a.arg for n in ast.walk(tree) if isinstance(n, (ast.FunctionDef, ast.AsyncFunctionDef, ast.Lambda))
           for a in n.args.posonlyargs + n.args.args + n.args.kwonlyargs + ([n.args.vararg] if n.args.vararg else []) + ([n.args.kwarg] if n.args.kwarg else [])]
        + [(al.asname or al.name.split('.')[0]) for n in ast.walk(tree) if isinstance(n, (ast.Import, ast.ImportFrom)) for al in n.names]
        + [n.name for n in ast.walk(tree) if isinstance(n, ast.ExceptHandler) and n.name]
        + [x for n in ast.walk(tree) if isinstance(n, (ast.Global, ast.Nonlocal)) for x in n.names])
    method_only = tuple(k for k, v in as_method.items() if others.get(k, 0) == v and not stores.get(k))
    for d in defs:
        name = d['name']
        try:
            cd = classes.get(d['cls'])
            if cd is None:
                raise Unsupported('class %s not found' % d['cls'])
            ms = [m for m in cd.body if isinstance(m, ast.FunctionDef) and m.name == d['fn']]
            if len(ms) != 1:
                raise Unsupported('method %s.%s not found exactly once' % (d['cls'], d['fn']))
            fd = ms[0]
            decs = [ast.unparse(x) for x in fd.decorator_list]
            if decs != ([d['decorator']] if d.get('decorator') else []):
                die(fd, 'decorators %s' % decs)
            if d.get('decorator') and (module_names.get(d['decorator']) is not None):
                die(fd, 'the module binds the name %s' % d['decorator'])
            if fd.args.vararg or fd.args.kwarg or fd.args.kwonlyargs or fd.args.posonlyargs or fd.args.defaults:
                die(fd, 'parameter list')
            pyparams = [a.arg for a in fd.args.args[(0 if d.get('decorator') == 'staticmethod' else 1):]]
            attrs = [r[5:] for _, r, _ in d['params'] if r.startswith('self.')]
            _check_ctor(cd, attrs, d.get('ctor', {}))
            moved = _attr_stores_elsewhere(cd, [a for a in attrs if a not in d.get('ctor', {})], ())
            if moved:
                die(cd, 'attribute(s) %s assigned outside __init__' % sorted(moved))
            used = {n.id for n in ast.walk(fd) if isinstance(n, ast.Name)} & rebound
            if used:
                die(fd, 'the module rebinds %s, which the translator reads with a fixed meaning' % sorted(used))
            tx = TX7(known, bool(d.get('raises')), fd)
            tx.imports, tx.module_names = imports, module_names
            tx.method_only = method_only
            tx.ret_type = d['ret']
            env = {}
            declared = []
            for cn, r, ty in d['params']:
                if not r.startswith('self.'):
                    if r not in pyparams:
                        die(fd, 'no parameter %s' % r)
                    declared.append(r)
                env[r] = (cn, ty)
            if declared != pyparams:
                die(fd, 'parameters %s (declared: %s)' % (pyparams, declared))
            text = tx.block(fd.body, env, None)
            plist = ' '.join('(%s : %s)' % (cn, coq_type7(ty)) for cn, r, ty in d['params'])
            rty = coq_type7(tx.ret_type) + (' + pyexn' if tx.raises else '')
            com = ''.join('  (* %s *)\n' % n for n in tx.notes)
            out.append('%sDefinition %s %s : %s :=\n  %s.' % (com, name, plist, rty, text))
            status[name] = 'ok'
            if tx.notes:
                notes[name] = tx.notes
            if d.get('export'):
                exported[d['export']] = dict(coq=name, params=[(cn, ty, None) for cn, r, ty in d['params']], ret=tx.ret_type,
                                             raises=tx.raises, module='.'.join(d['export'].split('.')[:-2]))
        except Unsupported as e:
            status[name] = 'unsupported: %s' % e
    missing = [d['name'] for d in defs if status.get(d['name']) != 'ok']
    return out, status, missing, notes, exported


def write_c16_units(repo, outdir):
    """units OpenlistEval and TieBreak -> their STATUS.json entries"""
    st = {}
    rel = C16_OPENLIST[0]
    try:
        defs, status, missing, notes, _ = translate_bodies7(os.path.join(repo, rel), C16_OPENLIST[1])
        text = (C16_HEADER % rel) + '\n' + '\n\n'.join(defs) + '\n'
        st['OpenlistEval'] = dict(status='ok' if not missing else 'partial', functions=status, missing=missing, source=rel, notes=notes)
    except (Unsupported, SyntaxError, OSError) as e:
        text = C16_HEADER % rel
        st['OpenlistEval'] = dict(status='failed', reason=str(e), source=rel, missing=[d['name'] for d in C16_OPENLIST[1]])
    texts = {'OpenlistEval.v': text}
    srcs = '%s, %s' % (C16_TIE_CORE[0], C16_TIE_OPENLIST[0])
    allnames = [d['name'] for d in C16_TIE_CORE[1] + C16_TIE_OPENLIST[1]]
    try:
        d1, s1, m1, n1, exported = translate_bodies7(os.path.join(repo, C16_TIE_CORE[0]), C16_TIE_CORE[1])
        # without the translated Tie functions the calls inside ListOrderTieBreaker.evaluate are not translated at all (fail closed)
        d2, s2, m2, n2, _ = translate_bodies7(os.path.join(repo, C16_TIE_OPENLIST[0]), C16_TIE_OPENLIST[1], exported if not m1 else {})
        s1.update(s2)
        n1.update(n2)
        text = (C16_HEADER % srcs) + '\n' + '\n\n'.join(d1 + d2) + '\n'
        st['TieBreak'] = dict(status='ok' if not (m1 + m2) else 'partial', functions=s1, missing=m1 + m2, source=srcs, notes=n1)
    except (Unsupported, SyntaxError, OSError) as e:
        text = C16_HEADER % srcs
        st['TieBreak'] = dict(status='failed', reason=str(e), source=srcs, missing=allnames)
    texts['TieBreak.v'] = text
    for fn_, t_ in texts.items():
        dst = os.path.join(outdir, fn_)
        old = open(dst).read() if os.path.exists(dst) else None
        if old != t_:
            open(dst, 'w').write(t_)
    return st


if __name__ == '__main__':
    main()
