#!/usr/bin/env python3
"""classify.py <ID> [tier]: run a property's exploration in-process and print the violation classes (development aid)"""
import sys, os, collections, importlib
sys.path.insert(0, os.path.join(os.path.dirname(os.path.dirname(os.path.abspath(__file__))), 'harness'))
import common, run
pid = sys.argv[1]; tier = sys.argv[2] if len(sys.argv) > 2 else 'quick'
mod = importlib.import_module('props.%s' % pid.lower())
ctx = run.Ctx(pid, tier, int(os.environ.get('VERIF_SEED', '0')), mod)
mod.explore(ctx)
cnt = collections.Counter(); ex = {}
for v in ctx.violations:
    key = (v['stream'], v['case'].get('evaluator') or v['case'].get('kind') or v['case'].get('unit'), v['case'].get('_class'))
    cnt[key] += 1; ex.setdefault(key, v)
for k, c in cnt.most_common():
    print(c, k, ex[k]['why'][:300], '|', str(ex[k]['case'])[:300])
print('known', dict(ctx.known_hits), 'broken', ctx.broken_items[:2])
