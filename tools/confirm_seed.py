#!/usr/bin/env python3
"""confirm_seed.py <stage-dir> <prop-id> <k> [check ids...]
Confirms a seeded change independently (scratch worktree: test-suite passes, demo fails with the
change and passes without it), runs the given checks against it on /repo (apply, run, revert),
and stores it as /verif/seeded/<id>-<k>/ {patch.diff, demo.py, notes.md, meta.json}."""
import sys, os, subprocess, json, shutil, re
stage, pid, k = sys.argv[1], sys.argv[2], sys.argv[3]
checks = sys.argv[4:] or [pid]
ROOT = os.environ.get('VERIF_ROOT') or os.path.dirname(os.path.dirname(os.path.abspath(__file__)))
src = os.path.join(stage, pid, k)
wt = '/tmp/wt/confirm-%s-%s' % (pid, k)
env = dict(os.environ, PYTHONDONTWRITEBYTECODE='1')
def sh(cmd, cwd=None, **kw):
    p = subprocess.run(cmd, shell=True, cwd=cwd, capture_output=True, text=True, env=env, **kw)
    return p.returncode, (p.stdout + p.stderr)
subprocess.run('git -C /repo worktree remove --force %s 2>/dev/null' % wt, shell=True)
rc, out = sh('git -C /repo worktree add -q --detach %s HEAD' % wt)
assert rc == 0, out
meta = dict(property=pid, seed=os.environ.get('SEED_DST', k))
try:
    patch = os.path.abspath(os.path.join(src, 'patch.diff'))
    demo = os.path.abspath(os.path.join(src, 'demo.py'))
    denv = 'VOTELIB_PATH=%s PYTHONPATH=%s' % (wt, wt)
    rc0, out0 = sh('%s /venv/bin/python %s' % (denv, demo), cwd=wt, timeout=600)
    rc, out = sh('git apply %s' % patch, cwd=wt)
    if rc != 0:
        # the tree moved on (fix: commits): rebase the change with fuzz and regenerate the diff
        rc, out = sh('patch -p1 -F3 --no-backup-if-mismatch < %s' % patch, cwd=wt)
        assert rc == 0, 'patch does not apply: ' + out
        rc, out = sh('git diff -- votelib', cwd=wt)
        rebased = os.path.join(src, 'patch.rebased.diff')
        open(rebased, 'w').write(out)
        meta['rebased'] = 'original patch.diff no longer applied after fix: commits in /repo; regenerated with patch -F3'
        shutil.copy(rebased, patch)
    rct, outt = sh('/venv/bin/python -m pytest -q -p no:cacheprovider 2>&1 | tail -1', cwd=wt, timeout=1200)
    rc1, out1 = sh('%s /venv/bin/python %s' % (denv, demo), cwd=wt, timeout=600)
    meta.update(tests_with_change=outt.strip().splitlines()[-1] if outt.strip() else '',
                demo_without_change=dict(rc=rc0, tail=out0.strip()[-200:]),
                demo_with_change=dict(rc=rc1, tail=out1.strip()[-300:]))
    m = re.search(r'(\d+) passed', outt)
    ok = (rc0 == 0 and rc1 != 0 and m and int(m.group(1)) >= 1381 and 'failed' not in outt)
    meta['confirmed'] = bool(ok)
finally:
    subprocess.run('git -C /repo worktree remove --force %s' % wt, shell=True)
# run the checks against /repo with the change applied
res = {}
# the evidence files must come from runs on the unchanged tree: keep them aside while the change is applied
evbak = '/var/tmp/evidence.keep.%d' % os.getpid()
shutil.copytree(os.path.join(ROOT, 'evidence'), evbak)
rc, out = sh('git -C /repo apply %s' % patch)
assert rc == 0, out
try:
    for c in checks:
        rcc, outc = sh('%s/check %s --tier quick' % (ROOT, c), timeout=3000)
        lines = [l for l in outc.splitlines() if l.startswith('VIOLATION') or l.startswith('KNOWN')]
        res[c] = dict(exit=rcc, lines=lines[:3], summary=outc.strip().splitlines()[-1] if outc.strip() else '')
        for l in lines:
            mm = re.search(r'replay=(\S+)', l)
            if mm and os.path.exists(mm.group(1)):
                d = json.load(open(mm.group(1)))
                res[c]['replay_excerpt'] = {k2: d.get(k2) for k2 in ('kind', 'stream', 'case', 'why', 'impl', 'model') if k2 in d}
                break
finally:
    sh('git -C /repo checkout -- .')
    shutil.rmtree(os.path.join(ROOT, 'evidence'))
    shutil.move(evbak, os.path.join(ROOT, 'evidence'))
meta['checks'] = res
meta['caught_by'] = [c for c, r in res.items() if r['exit'] == 1]
notes = open(os.path.join(src, 'notes.md')).read() if os.path.exists(os.path.join(src, 'notes.md')) else ''
meta['needs'] = notes.strip()[:1500]
meta['ran'] = ['git worktree add (scratch) ; demo on clean tree ; git apply patch.diff ; pytest -q ; demo with change ; worktree removed',
               'git -C /repo apply patch.diff ; ./check <id> --tier quick for ids %s ; git -C /repo checkout -- .' % checks]
dst = '%s/seeded/%s-%s' % (ROOT, pid, os.environ.get('SEED_DST', k))
os.makedirs(dst, exist_ok=True)
for f in ('patch.diff', 'demo.py', 'notes.md'):
    if os.path.exists(os.path.join(src, f)):
        shutil.copy(os.path.join(src, f), dst)
json.dump(meta, open(os.path.join(dst, 'meta.json'), 'w'), indent=1, default=str)
print(pid, k, 'confirmed=%s' % meta.get('confirmed'), 'caught_by=%s' % meta['caught_by'], meta.get('tests_with_change'))
