#!/usr/bin/env python3
"""merge_kf.py <branch>: union-merge known_findings.json (by id) while merging a builder branch"""
import json, subprocess, sys
ours = json.loads(subprocess.run(['git', 'show', 'HEAD:known_findings.json'], capture_output=True, text=True).stdout)
theirs = json.loads(subprocess.run(['git', 'show', sys.argv[1] + ':known_findings.json'], capture_output=True, text=True).stdout)
ids = {x['id'] for x in ours}
ours += [x for x in theirs if x['id'] not in ids]
json.dump(ours, open('known_findings.json', 'w'), indent=1)
print(len(ours), 'findings')
