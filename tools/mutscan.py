"""tools/mutscan.py - part 6 of the translator (tools/py2v.py): a conservative ALIAS-AND-MUTATION scan over EVERY function and
method of votelib/**/*.py.  Output: Gen/Mutation.v + Gen/Mutation.json (the table the theorems of Props/GenTie_Mutation.v and the
cross-check of harness/props/c18.py consume).

For each function f and each parameter p (self, *args, **kwargs included; plus the pseudo parameter <globals> = every module-level
object the function can name) the scan answers
    Untouched              no statement of f may change an object reachable from the argument
    CopiedFirst line       f takes a copy of (an alias of) the argument at `line` and changes the COPY in place; the argument itself
                           is Untouched
    MayMutate line kind    the statement at `line` may change an object reachable from the argument (kind = what it is).

Abstract domain (points-to with allocation sites, flow-sensitive for local names, flow-insensitive for the heap):
  region    ('P', p)  everything reachable from the argument bound to p at entry (one summary region per parameter; the shared default
                      object of p is the same region);  ('G', n)  everything reachable from the module-level name n;
            ('S', line, col, tag)  the fresh object an expression creates (display, comprehension, copy, call result, slice, a + b ..)
  value     the set of regions an expression may evaluate to (identity);  contains[r] = regions the elements / attributes of r may be
  elements(v) = what x[i], x.a, `for y in x`, x.get(..), x.values() .. may give:  r itself for a P / G region (summary), contains[r]
  mutation of v (subscript / attribute store or delete, augmented assignment, a mutating method, an argument position a callee may
  mutate): every P / G region IN v is recorded; a store also adds the stored value to contains[r] for every r in v.
Calls: votelib functions are resolved BY NAME (all module-level functions / all methods / the __init__ of all classes of that name) and
  their summaries (which parameters may be mutated - everything reachable from the argument is then recorded -, which parameters may
  be returned or stored into which) are iterated to a fixpoint over the whole package; builtins, container methods and the standard
  library modules the package uses are classified in the tables below; ANY other callee given an alias of an argument is recorded as
  MayMutate (kind unknown-call / unknown-method).  Calls of function VALUES (self.quota_function(..), a parameter that is a callable,
  cls(..)) are listed in `callable_sites` when an alias of a parameter is handed over: that such components leave their arguments
  alone is an explicit assumption of the table.
Rejected (every parameter MayMutate kind rejected:...): setattr / delattr / exec / eval / globals / locals / vars / compile / __import__
  / __dict__ / __setattr__ / global / nonlocal statements.
A construct the scan has no rule for raises Unreadable: the whole table is then withheld (STATUS failed) and the check falls back to
the dynamic sweep.
"""
import ast, os, json, builtins, collections


class Unreadable(Exception):
    pass


MUTATORS = ('append', 'extend', 'insert', 'remove', 'pop', 'clear', 'sort', 'reverse', 'update', 'setdefault', 'popitem', 'add',
            'discard', 'difference_update', 'intersection_update', 'symmetric_difference_update', 'appendleft', 'popleft',
            'extendleft', 'rotate', 'subtract', '__setitem__', '__delitem__', '__iadd__', '__ior__', '__isub__', '__iand__',
            'move_to_end', 'write', 'writelines', 'writerow', 'writerows', 'truncate', 'seek', 'read', 'readline', 'readlines',
            'close', 'flush', 'send', 'throw', '__next__')
MUT_RETURNS_ELEMENT = ('pop', 'setdefault', 'popitem', 'popleft', 'read', 'readline', 'readlines', '__next__')
# methods of builtin containers / numbers / strings that change nothing
PURE_ELEMENT = ('get', '__getitem__', 'most_common', 'elements')                  # result: elements of the receiver (and the default)
PURE_VIEW = ('items', 'keys', 'values', 'copy', 'union', 'intersection', 'difference', 'symmetric_difference', 'fromkeys',
             '__copy__', '__or__', '__and__', '__add__', '__sub__')                # result: a fresh container of elements
PURE_SCALAR = ('index', 'count', 'join', 'split', 'rsplit', 'strip', 'rstrip', 'lstrip', 'lower', 'upper', 'title', 'startswith',
               'endswith', 'format', 'replace', 'isdigit', 'isdecimal', 'isidentifier', 'isalpha', 'isalnum', 'isspace', 'find',
               'rfind', 'encode', 'decode', 'as_integer_ratio', 'limit_denominator', 'quantize', 'is_integer', 'is_finite',
               'bit_length', 'conjugate', 'normalize', 'issubset', 'issuperset', 'isdisjoint', 'total', 'digest', 'hexdigest',
               '__contains__', '__len__', '__eq__', '__hash__', '__repr__', '__str__', 'zfill', 'ljust', 'rjust', 'center',
               'partition', 'rpartition', 'splitlines', 'casefold', 'capitalize', 'bind', 'to_integral_value', 'sqrt', 'ln', 'exp',
               'category', 'numerator', 'denominator', 'tell', 'fileno', 'isatty', 'info', 'debug', 'warning', 'error',
               'exception', 'critical', 'log', 'warn', 'pack', 'unpack', 'iter_unpack', 'match', 'search', 'fullmatch', 'group', 'groups')
SCALAR_BUILTINS = ('len', 'sum', 'any', 'all', 'abs', 'round', 'int', 'float', 'str', 'repr', 'bool', 'isinstance', 'issubclass',
                   'hasattr', 'callable', 'id', 'hash', 'type', 'range', 'print', 'ord', 'chr', 'divmod', 'pow', 'format', 'bin', 'hex',
                   'oct', 'complex', 'bytes', 'slice', 'object', 'ascii', 'memoryview', 'open', 'input', 'TypeVar', 'NewType')
COPY_BUILTINS = ('dict', 'list', 'set', 'frozenset', 'tuple', 'sorted', 'reversed', 'enumerate', 'zip', 'iter', 'filter', 'map',
                 'bytearray')
ELEMENT_BUILTINS = ('next', 'min', 'max', 'getattr')
REJECT_NAMES = ('setattr', 'delattr', 'exec', 'eval', 'globals', 'locals', 'vars', 'compile', '__import__')
REJECT_ATTRS = ('__dict__', '__setattr__', '__delattr__', '__globals__', '__builtins__')
# standard-library / third-party modules whose functions leave their arguments alone (result: a fresh object that may contain them) ...
PURE_MODULES = ('logging', 'math', 'itertools', 'fractions', 'decimal', 'collections', 'operator', 'functools', 'warnings', 're', 'os',
                'sys', 'inspect', 'importlib', 'string', 'statistics', 'numbers', 'typing', 'abc', 'copy', 'datetime', 'pathlib',
                'hashlib', 'struct', 'unicodedata', 'enum', 'dataclasses', 'random', 'bisect', 'io', 'json', 'csv', 'matplotlib',
                'scipy', 'numpy', 'heapq', 'time')
# ... except these, which change the given positional argument in place
EXT_MUTATORS = {'random.shuffle': (0,), 'bisect.insort': (0,), 'bisect.insort_left': (0,), 'bisect.insort_right': (0,),
                'heapq.heappush': (0,), 'heapq.heappop': (0,), 'heapq.heapify': (0,), 'heapq.heapreplace': (0,),
                'heapq.heappushpop': (0,), 'json.dump': (1,), 'csv.writer': (0,), 'csv.DictWriter': (0,), 'csv.reader': (0,),
                'csv.DictReader': (0,), 'json.load': (0,)}
SCALAR_ANNOTATIONS = ('int', 'float', 'bool', 'str', 'Fraction', 'Number', 'Decimal', 'bytes', 'complex', 'Real', 'Rational',
                      'Integral')
# rows whose MayMutate answer is NOT handed on to the callers (by-name resolution would spread it over every method of the same name):
# each must be on the justified exception list of Props/GenTie_Mutation.v (checked there)
NOT_PROPAGATED = {}
PUBLIC_METHODS = ('evaluate', 'convert', 'validate', 'calculate', 'transfer', 'subtract')
GLOBALS = '<globals>'
BUILTIN_NAMES = set(dir(builtins))


def _dotted(e):
    parts = []
    while isinstance(e, ast.Attribute):
        parts.append(e.attr)
        e = e.value
    if isinstance(e, ast.Name):
        parts.append(e.id)
        return parts[::-1]
    return None


def _mutable_default(d):
    return isinstance(d, (ast.Dict, ast.List, ast.Set, ast.ListComp, ast.DictComp, ast.SetComp)) or (
        isinstance(d, ast.Call) and isinstance(d.func, ast.Name)
        and d.func.id in ('dict', 'list', 'set', 'defaultdict', 'Counter', 'OrderedDict', 'bytearray', 'deque'))


ALIASES = {}       # type aliases of the package (ScoreVoteType = FrozenSet[...]), filled by scan_package


class Unit:
    """one function / method of the package"""

    def __init__(self, module, qualname, node, cls, nested, modinfo):
        self.module, self.qualname, self.node, self.cls, self.nested, self.modinfo = module, qualname, node, cls, nested, modinfo
        self.name = node.name
        self._cache = {}
        decos = [(_dotted(d) or [''])[-1] for d in node.decorator_list]
        self.kind = ('function' if cls is None else 'static' if 'staticmethod' in decos else 'classmethod' if 'classmethod' in decos
                     else 'method')
        a = node.args
        self.pos = [x.arg for x in a.posonlyargs + a.args]
        self.vararg = a.vararg.arg if a.vararg else None
        self.kwonly = [x.arg for x in a.kwonlyargs]
        self.kwarg = a.kwarg.arg if a.kwarg else None
        self.params = self.pos + ([self.vararg] if self.vararg else []) + self.kwonly + ([self.kwarg] if self.kwarg else [])
        self.annot = {x.arg: ALIASES.get(x.annotation.id, x.annotation) if isinstance(x.annotation, ast.Name) else x.annotation
                      for x in a.posonlyargs + a.args + a.kwonlyargs}
        dflt = {}
        posl = a.posonlyargs + a.args
        for x, d in zip(posl[len(posl) - len(a.defaults):], a.defaults):
            dflt[x.arg] = d
        for x, d in zip(a.kwonlyargs, a.kw_defaults):
            if d is not None:
                dflt[x.arg] = d
        self.defaults = dflt
        self.key = (module, qualname)
        self.public = (cls is not None and not nested and self.name in PUBLIC_METHODS and not cls.startswith('_')
                       and self.kind != 'static')

    def scalar(self, p):
        c = self._cache.get(('s', p))
        if c is None:
            c = self._cache[('s', p)] = self._scalar(p)
        return c

    def immutable_top(self, p):
        c = self._cache.get(('t', p))
        if c is None:
            c = self._cache[('t', p)] = self._immutable_top(p)
        return c

    def scalar_elements(self, p):
        c = self._cache.get(('e', p))
        if c is None:
            c = self._cache[('e', p)] = self._scalar_elements(p)
        return c

    def _scalar(self, p):
        """annotated with a scalar type (int, Fraction, Optional[int] ..): the argument is not a container"""
        a = self.annot.get(p)
        if a is None:
            return False
        names = {n.id for n in ast.walk(a) if isinstance(n, ast.Name)} | {n.attr for n in ast.walk(a) if isinstance(n, ast.Attribute)}
        names |= {n.value for n in ast.walk(a) if isinstance(n, ast.Constant) and isinstance(n.value, str)}
        names -= {'Optional', 'Union', 'None', 'typing', 'fractions', 'numbers', 'decimal'}
        return bool(names) and all(n in SCALAR_ANNOTATIONS for n in names)

    def _immutable_top(self, p):
        """annotated as a scalar or an immutable container (Tuple / FrozenSet): the argument object itself cannot change"""
        if self.scalar(p):
            return True
        a = self.annot.get(p)
        if isinstance(a, ast.Subscript):
            a = a.value
        d = _dotted(a) if a is not None else None
        return bool(d) and d[-1] in ('Tuple', 'FrozenSet', 'frozenset', 'tuple')

    def _scalar_elements(self, p):
        """annotated as ONE level of container over scalars / candidates (Dict[Candidate, int], List[int] ..): nothing below the
        argument object can change"""
        a = self.annot.get(p)
        if not isinstance(a, ast.Subscript):
            return False
        d = _dotted(a.value)
        if not d or d[-1] not in ('Dict', 'List', 'Set', 'FrozenSet', 'Tuple', 'Collection', 'Sequence', 'Mapping', 'Iterable'):
            return False
        inner = a.slice
        if d[-1] in ('Dict', 'Mapping') and isinstance(inner, ast.Tuple) and len(inner.elts) == 2:
            inner = inner.elts[1]          # keys are hashable: taken to be immutable
        names = {n.id for n in ast.walk(inner) if isinstance(n, ast.Name)} | {n.attr for n in ast.walk(inner) if isinstance(n, ast.Attribute)}
        names -= {'typing', 'fractions', 'numbers', 'decimal', 'Optional', 'Union', 'None'}
        return bool(names) and all(n in SCALAR_ANNOTATIONS or n in ('Candidate', 'Constituency', 'ElectionParty', 'Person', 'ellipsis')
                                   for n in names)


def scan_package(repo):
    """-> (units, mods)"""
    mods, units = {}, []
    root = os.path.join(repo, 'votelib')
    ALIASES.clear()
    for dp, dn, files in os.walk(root):
        for f in files:
            if f.endswith('.py'):
                for n in ast.parse(open(os.path.join(dp, f)).read()).body:
                    if (isinstance(n, ast.Assign) and len(n.targets) == 1 and isinstance(n.targets[0], ast.Name) and isinstance(n.value, ast.Subscript)
                            and (_dotted(n.value.value) or [''])[-1] in ('Dict', 'List', 'Set', 'FrozenSet', 'Tuple', 'Union', 'Optional', 'Sequence', 'Mapping')):
                        ALIASES[n.targets[0].id] = n.value
    for dp, dn, files in os.walk(root):
        dn.sort()
        for f in sorted(files):
            if not f.endswith('.py'):
                continue
            path = os.path.join(dp, f)
            rel = os.path.relpath(path, repo)
            name = rel[:-3].replace(os.sep, '.')
            if name.endswith('.__init__'):
                name = name[:-9]
                pkg = name
            else:
                pkg = name.rsplit('.', 1)[0]
            tree = ast.parse(open(path).read())
            for n in tree.body:
                if (isinstance(n, ast.Assign) and len(n.targets) == 1 and isinstance(n.targets[0], ast.Name) and isinstance(n.value, ast.Subscript)
                        and (_dotted(n.value.value) or [''])[-1] in ('Dict', 'List', 'Set', 'FrozenSet', 'Tuple', 'Union', 'Optional', 'Sequence', 'Mapping')):
                    ALIASES[n.targets[0].id] = n.value
            info = dict(rel=rel, tree=tree, imports={}, functions=set(), classes={}, variables=set(), name=name)
            for n in ast.walk(tree):
                # imports anywhere in the module (function-level imports bind module names too)
                if isinstance(n, ast.Import):
                    for al in n.names:
                        if al.asname:
                            info['imports'][al.asname] = al.name
                        else:
                            info['imports'][al.name.split('.')[0]] = al.name.split('.')[0]
                elif isinstance(n, ast.ImportFrom):
                    base = n.module or ''
                    if n.level:
                        up = pkg.split('.')
                        up = up[:len(up) - (n.level - 1)] if n.level > 1 else up
                        base = '.'.join(up + ([n.module] if n.module else []))
                    for al in n.names:
                        info['imports'][al.asname or al.name] = base + '.' + al.name
            for n in tree.body:
                if isinstance(n, (ast.FunctionDef, ast.AsyncFunctionDef)):
                    info['functions'].add(n.name)
                elif isinstance(n, ast.ClassDef):
                    info['classes'][n.name] = n
                else:
                    for m in ast.walk(n):
                        if isinstance(m, ast.Name) and isinstance(m.ctx, ast.Store):
                            info['variables'].add(m.id)
            mods[name] = info

            def visit(body, qual, cls, nested):
                for n in body:
                    if isinstance(n, ast.AsyncFunctionDef):
                        raise Unreadable('%s:%d async def' % (rel, n.lineno))
                    if isinstance(n, ast.FunctionDef):
                        q = '.'.join(qual + [n.name])
                        units.append(Unit(name, q, n, cls, nested, info))
                        visit_inner(n, qual + [n.name, '<locals>'])
                    elif isinstance(n, ast.ClassDef):
                        visit(n.body, qual + [n.name], n.name, nested)
                    elif isinstance(n, (ast.If, ast.Try, ast.With, ast.For, ast.While)):
                        for fld in ('body', 'orelse', 'finalbody'):
                            visit(getattr(n, fld, []) or [], qual, cls, nested)
                        for h in getattr(n, 'handlers', []) or []:
                            visit(h.body, qual, cls, nested)

            def visit_inner(fn, qual):
                for n in ast.walk(fn):
                    if n is fn:
                        continue
                    if isinstance(n, ast.FunctionDef) and _parent_fn(fn, n) is fn:
                        units.append(Unit(name, '.'.join(qual + [n.name]), n, None, True, info))
                        visit_inner(n, qual + [n.name, '<locals>'])
                    elif isinstance(n, ast.ClassDef):
                        raise Unreadable('%s:%d class defined inside a function' % (rel, n.lineno))
            visit(tree.body, [], None, False)
    return units, mods


def _parent_fn(root, target):
    """the innermost FunctionDef of `root` (root included) that contains `target`"""
    best = [None]

    def go(n, cur):
        for ch in ast.iter_child_nodes(n):
            if ch is target:
                best[0] = cur
                return True
            if go(ch, ch if isinstance(ch, (ast.FunctionDef, ast.Lambda)) and not isinstance(ch, ast.Lambda) else cur):
                return True
        return False
    go(root, root)
    return best[0]


class World:
    def __init__(self, repo):
        self.units, self.mods = scan_package(repo)
        self.by_fn, self.by_meth, self.by_cls = collections.defaultdict(list), collections.defaultdict(list), collections.defaultdict(list)
        for u in self.units:
            if u.nested:
                continue
            (self.by_fn if u.cls is None else self.by_meth)[u.name].append(u)
        for m, info in self.mods.items():
            for c, node in info['classes'].items():
                self.by_cls[c].append((m, node))
        self.summ = {u.key: dict(mut={}, ret=set(), ret_inner=set(), stores=set()) for u in self.units}
        self.unknown = collections.Counter()

    def init_units(self, cname, seen=None):
        """the __init__ units a constructor call of a class named cname may run (first definition along the bases, by name)"""
        seen = seen if seen is not None else set()
        out = []
        for m, node in self.by_cls.get(cname, []):
            if (m, cname) in seen:
                continue
            seen.add((m, cname))
            own = [u for u in self.by_meth.get('__init__', []) if u.module == m and u.cls == cname and u.qualname == cname + '.__init__']
            if own:
                out += own
                continue
            for b in node.bases:
                d = _dotted(b)
                if d:
                    out += self.init_units(d[-1], seen)
        return out

    def global_kind(self, modinfo, name):
        """what a free name of a function of this module is: 'module' | 'function' | 'class' | 'variable' | 'builtin' | 'external'"""
        if name in modinfo['functions']:
            return 'function', None
        if name in modinfo['classes']:
            return 'class', None
        if name in modinfo['variables']:
            return 'variable', None
        if name in modinfo['imports']:
            tgt = modinfo['imports'][name]
            if tgt in self.mods or tgt.split('.')[0] != 'votelib':
                if tgt in self.mods:
                    return 'module', tgt
                # external: a module or an object of a module
                return 'external', tgt
            m, _, obj = tgt.rpartition('.')
            if m in self.mods:
                mi = self.mods[m]
                if obj in mi['functions']:
                    return 'function', None
                if obj in mi['classes']:
                    return 'class', None
                if obj in mi['imports'] and mi is not modinfo:
                    return self.global_kind(mi, obj)
                return 'variable', None
            return 'module', tgt
        if name in BUILTIN_NAMES:
            return 'builtin', None
        return 'variable', None


class FnScan:
    def __init__(self, unit, world):
        self.u, self.w = unit, world
        self.contains = collections.defaultdict(set)
        self.records = collections.defaultdict(list)      # param -> [(line, kind)]
        self.copies = {}                                   # site -> (param, line): a copy taken of an alias of the parameter
        self.mutated_sites = set()
        self.callable_sites = []
        self.rejected = None
        self.ret = set()
        self.collectors = []
        self.used = set()
        fn = unit.node
        self.locals = set(unit.params)
        for n in ast.walk(fn):
            if isinstance(n, ast.Name) and isinstance(n.ctx, (ast.Store, ast.Del)):
                self.locals.add(n.id)
            elif isinstance(n, (ast.FunctionDef, ast.ClassDef)) and n is not fn:
                self.locals.add(n.name)
            elif isinstance(n, ast.ExceptHandler) and n.name:
                self.locals.add(n.name)
            elif isinstance(n, (ast.Import, ast.ImportFrom)):
                for al in n.names:
                    self.locals.add((al.asname or al.name).split('.')[0])
            elif isinstance(n, ast.arg):
                self.locals.add(n.arg)
            elif isinstance(n, (ast.Global, ast.Nonlocal)):
                self.rejected = (n.lineno, 'global/nonlocal statement')
            elif isinstance(n, ast.Name) and n.id in REJECT_NAMES and n.id not in unit.params:
                self.rejected = self.rejected or (n.lineno, n.id)
            elif isinstance(n, ast.Attribute) and n.attr in REJECT_ATTRS:
                self.rejected = self.rejected or (n.lineno, n.attr)
            elif isinstance(n, (ast.AsyncFor, ast.AsyncWith, ast.Await)) or type(n).__name__ in ('Match', 'TryStar'):
                raise Unreadable('%s:%d %s' % (unit.modinfo['rel'], n.lineno, type(n).__name__))
        self.import_locals = set()
        for n in ast.walk(fn):
            if isinstance(n, (ast.Import, ast.ImportFrom)):
                for al in n.names:
                    self.import_locals.add((al.asname or al.name).split('.')[0])

    # ------------------------------------------------------------ domain
    def site(self, node, tag):
        s = ('S', getattr(node, 'lineno', 0), getattr(node, 'col_offset', 0), tag)
        self.contains[s]        # create
        return s

    def elements(self, v):
        out = set()
        for r in v:
            if r[0] in 'PE':
                out.add(('E', r[1]))
            elif r[0] in 'GH':
                out.add(('H', r[1]))
            out |= self.contains.get(r, set())
        return frozenset(out)

    def reach(self, v):
        seen, todo = set(), list(v)
        while todo:
            r = todo.pop()
            if r in seen:
                continue
            seen.add(r)
            if r[0] == 'P':
                todo.append(('E', r[1]))
            elif r[0] == 'G':
                todo.append(('H', r[1]))
            todo.extend(self.contains.get(r, ()))
        return frozenset(seen)

    def add_contents(self, r, v):
        c = self.contains[r]
        n = len(c)
        c |= v
        if len(c) != n:
            self.heap_changed = True

    def fresh(self, node, tag, contents):
        s = self.site(node, tag)
        self.add_contents(s, contents)
        return frozenset([s])

    def record(self, region, node, kind):
        line = getattr(node, 'lineno', 0)
        if region[0] in 'PE':
            rec = (line, kind, 'top' if region[0] == 'P' else 'deep', '')
            if rec not in self.records[region[1]]:
                self.records[region[1]].append(rec)
        elif region[0] in 'GH':
            rec = (line, '%s [%s]' % (kind, region[1]), 'top' if region[0] == 'G' else 'deep', region[1])
            if rec not in self.records[GLOBALS]:
                self.records[GLOBALS].append(rec)

    def mutate(self, v, node, kind, absorb=frozenset(), scalar_ok=False):
        for r in v:
            if r[0] in 'PEGH':
                if (r[0] == 'P' and self.u.immutable_top(r[1])) or (r[0] == 'E' and (self.u.scalar(r[1]) or self.u.scalar_elements(r[1]))):
                    continue            # the annotation says: a scalar / an immutable container / a container of scalars
                if r[0] == 'P' and r[1] in (self.u.vararg, self.u.kwarg):
                    pass                # the tuple / dict of *args / **kwargs itself is fresh; recorded, ignored by the classification
                self.record(r, node, kind)
            else:
                self.mutated_sites.add(r)
            if absorb:
                self.add_contents(r, absorb)

    # ------------------------------------------------------------ names
    def load_name(self, node, env):
        n = node.id
        if n in env:
            return env[n]
        if n in self.locals and n not in self.import_locals:
            return frozenset()          # a local that is not bound on this path
        kind, _ = self.w.global_kind(self.u.modinfo, n)
        if kind == 'variable':
            return frozenset([('G', self.u.module + '.' + n if n in self.u.modinfo['variables'] else self.u.modinfo['imports'].get(n, n))])
        return frozenset()

    def module_path(self, e, env):
        """dotted name of a module-level callee (a.b.f with a an imported module / package) or None"""
        d = _dotted(e)
        if d is None or d[0] in env or (d[0] in self.locals and d[0] not in self.import_locals):
            return None
        mi = self.u.modinfo
        if d[0] in mi['imports']:
            tgt = mi['imports'][d[0]]
            return '.'.join([tgt] + d[1:])
        return None

    # ------------------------------------------------------------ expressions
    def ev(self, e, env):
        if e is None:
            return frozenset()
        m = getattr(self, 'e_' + type(e).__name__, None)
        if m is None:
            raise Unreadable('%s:%d expression %s' % (self.u.modinfo['rel'], getattr(e, 'lineno', 0), type(e).__name__))
        return m(e, env)

    def e_Constant(self, e, env):
        return frozenset()

    def e_Name(self, e, env):
        return self.load_name(e, env)

    def e_JoinedStr(self, e, env):
        for v in e.values:
            self.ev(v, env)
        return frozenset()

    def e_FormattedValue(self, e, env):
        self.ev(e.value, env)
        if e.format_spec is not None:
            self.ev(e.format_spec, env)
        return frozenset()

    def e_Attribute(self, e, env):
        mp = self.module_path(e, env)
        if mp is not None:
            # an object of a module: a votelib module-level variable is a global region, everything else is not tracked
            parts = mp.split('.')
            k = len(parts)
            while k > 0 and '.'.join(parts[:k]) not in self.w.mods:
                k -= 1
            m, rest = '.'.join(parts[:k]), parts[k:]
            if k and rest and rest[0] in self.w.mods[m]['variables']:
                g = ('G', m + '.' + rest[0])
                return frozenset([g]) if len(rest) == 1 else frozenset([('H', g[1])])
            return frozenset()
        return self.elements(self.ev(e.value, env))

    def e_Subscript(self, e, env):
        v = self.ev(e.value, env)
        self.ev(e.slice, env)
        if isinstance(e.slice, ast.Slice):
            return self.fresh(e, 'slice', self.elements(v))
        return self.elements(v)

    def e_Slice(self, e, env):
        for x in (e.lower, e.upper, e.step):
            self.ev(x, env)
        return frozenset()

    def e_Starred(self, e, env):
        return self.elements(self.ev(e.value, env))

    def e_BinOp(self, e, env):
        a, b = self.ev(e.left, env), self.ev(e.right, env)
        if not a and not b:
            return frozenset()
        return self.fresh(e, 'binop', self.elements(a) | self.elements(b))

    def e_UnaryOp(self, e, env):
        self.ev(e.operand, env)
        return frozenset()

    def e_BoolOp(self, e, env):
        out = frozenset()
        for v in e.values:
            out |= self.ev(v, env)
        return out

    def e_Compare(self, e, env):
        self.ev(e.left, env)
        for c in e.comparators:
            self.ev(c, env)
        return frozenset()

    def e_IfExp(self, e, env):
        self.ev(e.test, env)
        return self.ev(e.body, env) | self.ev(e.orelse, env)

    def e_NamedExpr(self, e, env):
        v = self.ev(e.value, env)
        env[e.target.id] = v
        return v

    def _display(self, e, env, items, tag):
        c = frozenset()
        for x in items:
            if x is None:
                continue
            c |= self.ev(x, env)
        return self.fresh(e, tag, c)

    def e_Tuple(self, e, env):
        return self._display(e, env, e.elts, 'tuple')

    def e_List(self, e, env):
        return self._display(e, env, e.elts, 'list')

    def e_Set(self, e, env):
        return self._display(e, env, e.elts, 'set')

    def e_Dict(self, e, env):
        c = frozenset()
        for k, v in zip(e.keys, e.values):
            if k is None:
                c |= self.elements(self.ev(v, env))          # **d
            else:
                self.ev(k, env)             # keys are hashable: taken to be immutable, not tracked as contents
                c |= self.ev(v, env)
        return self.fresh(e, 'dict', c)

    def _comp(self, e, env, parts, tag, untracked=()):
        env2 = dict(env)
        for g in e.generators:
            it = self.ev(g.iter, env2)
            self.bind(g.target, self.elements(it), env2, e)
            for c in g.ifs:
                self.ev(c, env2)
        c = frozenset()
        for p in untracked:
            self.ev(p, env2)
        for p in parts:
            c |= self.ev(p, env2)
        return self.fresh(e, tag, c)

    def e_ListComp(self, e, env):
        return self._comp(e, env, [e.elt], 'listcomp')

    def e_SetComp(self, e, env):
        return self._comp(e, env, [e.elt], 'setcomp')

    def e_GeneratorExp(self, e, env):
        return self._comp(e, env, [e.elt], 'genexp')

    def e_DictComp(self, e, env):
        return self._comp(e, env, [e.value], 'dictcomp', [e.key])

    def e_Lambda(self, e, env):
        env2 = dict(env)
        top = self.top(env)
        for a in e.args.posonlyargs + e.args.args + e.args.kwonlyargs + [x for x in (e.args.vararg, e.args.kwarg) if x]:
            env2[a.arg] = top
        r = self.ev(e.body, env2)
        return self.fresh(e, 'lambda', r)

    def e_Yield(self, e, env):
        v = self.ev(e.value, env)
        self.ret |= self.fresh(e, 'yield', v)
        return self.top(env)

    def e_YieldFrom(self, e, env):
        v = self.ev(e.value, env)
        self.ret |= v
        return frozenset()

    def top(self, env):
        out = set()
        for v in env.values():
            out |= v
        return frozenset(out)

    # ------------------------------------------------------------ calls
    def e_Call(self, e, env):
        f = e.func
        pos, kws = [], []
        for a in e.args:
            if isinstance(a, ast.Starred):
                pos.append((self.elements(self.ev(a.value, env)), True))
            else:
                pos.append((self.ev(a, env), False))
        for k in e.keywords:
            v = self.ev(k.value, env)
            kws.append((k.arg, self.elements(v) if k.arg is None else v))
        allargs = frozenset().union(*([v for v, _ in pos] + [v for _, v in kws])) if (pos or kws) else frozenset()

        if isinstance(f, ast.Name):
            n = f.id
            if n in env or (n in self.locals and n not in self.import_locals):
                fv = env.get(n, frozenset())
                nested = env.get('<fn>' + n)
                if nested is not None:
                    return self.fresh(e, 'localcall', self.reach(allargs) | nested)
                if n == 'cls' or n == self.u.pos[:1]:
                    pass
                return self.callable_value(e, env, fv, allargs, n)
            kind, tgt = self.w.global_kind(self.u.modinfo, n)
            if kind == 'builtin':
                return self.builtin(e, env, n, pos, kws, allargs)
            if kind == 'function':
                return self.votelib_call(e, self.w.by_fn.get(n, []), None, pos, kws, allargs, n)
            if kind == 'class':
                return self.construct(e, n, pos, kws, allargs)
            if kind == 'external':
                return self.external(e, tgt, pos, kws, allargs)
            if kind == 'variable':
                return self.callable_value(e, env, self.load_name(f, env), allargs, n)
            return self.unknown_call(e, n, allargs)
        if isinstance(f, ast.Attribute):
            mp = self.module_path(f, env)
            if mp is not None:
                if mp.split('.')[0] == 'votelib':
                    parts = mp.split('.')
                    k = len(parts)
                    while k > 0 and '.'.join(parts[:k]) not in self.w.mods:
                        k -= 1
                    m, rest = '.'.join(parts[:k]), parts[k:]
                    mi = self.w.mods.get(m)
                    if mi is not None and rest:
                        kind0, _ = self.w.global_kind(mi, rest[0])
                        if len(rest) == 1:
                            if kind0 == 'class':
                                return self.construct(e, rest[0], pos, kws, allargs)
                            if kind0 == 'function':
                                return self.votelib_call(e, self.w.by_fn.get(rest[0], []), None, pos, kws, allargs, rest[0])
                            if kind0 == 'variable':
                                return self.callable_value(e, env, frozenset([('G', mp)]), allargs, mp)
                        elif kind0 == 'class' and len(rest) == 2 and rest[1] in self.w.by_meth:
                            return self.votelib_call(e, self.w.by_meth[rest[1]], None, pos, kws, allargs, rest[1])
                        elif kind0 == 'variable':
                            return self.method_call(e, env, f, pos, kws, allargs)
                    return self.unknown_call(e, mp, allargs)
                return self.external(e, mp, pos, kws, allargs)
            return self.method_call(e, env, f, pos, kws, allargs)
        fv = self.ev(f, env)
        return self.callable_value(e, env, fv, allargs, ast.unparse(f)[:40])

    def callable_value(self, e, env, fv, allargs, label):
        """a call of a function VALUE (component such as self.quota_function, a callable parameter, cls): assumed to leave its
        arguments alone - listed when an alias of a parameter is handed over"""
        ra = self.reach(allargs)
        ps = sorted({r[1] for r in ra if r[0] == 'P' and not self.u.scalar(r[1])})
        if ps:
            self.callable_sites.append((e.lineno, label, ps))
        return self.fresh(e, 'callval', ra | self.elements(fv) | fv)

    def unknown_call(self, e, name, allargs):
        self.w.unknown['call ' + name] += 1
        self.mutate(self.reach(allargs), e, 'unknown-call:' + name)
        return self.fresh(e, 'unknown', self.reach(allargs))

    def builtin(self, e, env, n, pos, kws, allargs):
        if n in SCALAR_BUILTINS or n.endswith('Error') or n.endswith('Exception') or n.endswith('Warning') or n in ('StopIteration', 'KeyboardInterrupt'):
            if n == 'sum' and len(pos) > 1:
                return self.fresh(e, 'sum', self.elements(self.elements(allargs)) | self.elements(allargs))
            if n.endswith('Error') or n.endswith('Exception'):
                return self.fresh(e, 'exc', allargs)
            return frozenset()
        if n in COPY_BUILTINS:
            el = self.elements(allargs)
            if n in ('zip', 'enumerate'):
                t = self.fresh(e, n + '-item', el)
                return self.fresh(e, n, t)
            if n in ('map', 'filter'):
                return self.fresh(e, n, self.reach(allargs))
            if n == 'dict':
                el = el | self.elements(el) | frozenset().union(*[v for _, v in kws]) if kws else el | self.elements(el)
            s = self.fresh(e, 'copy:' + n, el)
            if pos:
                for r in pos[0][0]:
                    if r[0] in 'PE':
                        for x in s:
                            self.copies.setdefault(x, (r[1], e.lineno))
            return s
        if n in ELEMENT_BUILTINS:
            if n in ('min', 'max') and len(pos) > 1:
                return allargs
            if n == 'getattr':
                return self.elements(pos[0][0]) | frozenset().union(*[v for v, _ in pos[2:]]) if pos else frozenset()
            if n == 'next':
                # advancing an iterator changes it; an iterator over a parameter is a fresh object, a parameter that IS an iterator is not
                if pos:
                    self.mutate(pos[0][0], e, 'call:next')
            return self.elements(allargs) | frozenset().union(*[v for k, v in kws if k == 'default'])
        if n == 'super':
            first = self.u.pos[:1]
            return env.get(first[0], frozenset()) if first else frozenset()
        if n in REJECT_NAMES:
            return frozenset()
        if n in ('staticmethod', 'classmethod', 'property', 'NotImplemented', 'Ellipsis'):
            return frozenset()
        return self.unknown_call(e, n, allargs)

    def external(self, e, dotted, pos, kws, allargs):
        head = dotted.split('.')[0]
        if dotted in EXT_MUTATORS:
            for i in EXT_MUTATORS[dotted]:
                if i < len(pos):
                    self.mutate(pos[i][0], e, 'call:' + dotted)
            return self.fresh(e, 'ext', self.reach(allargs))
        if dotted in ('copy.deepcopy',):
            s = self.fresh(e, 'deepcopy', frozenset())
            if pos:
                for r in pos[0][0]:
                    if r[0] in 'PE':
                        for x in s:
                            self.copies.setdefault(x, (r[1], e.lineno))
            return s
        if dotted in ('copy.copy',):
            s = self.fresh(e, 'copy:copy', self.elements(allargs))
            if pos:
                for r in pos[0][0]:
                    if r[0] in 'PE':
                        for x in s:
                            self.copies.setdefault(x, (r[1], e.lineno))
            return s
        if dotted == 'collections.defaultdict':
            # elements: what the factory returns (a lambda / closure site holds its result) and the initial items
            c = self.elements(pos[0][0]) if pos else frozenset()
            for v, _ in pos[1:]:
                c |= self.elements(v) | self.elements(self.elements(v))
            return self.fresh(e, 'ext', c)
        if head in PURE_MODULES:
            return self.fresh(e, 'ext', allargs | self.elements(allargs))
        return self.unknown_call(e, dotted, allargs)

    def construct(self, e, cname, pos, kws, allargs):
        o = self.fresh(e, 'new:' + cname, allargs)
        inits = self.w.init_units(cname)
        if inits:
            self.apply_callees(e, inits, o, pos, kws)
        return o

    def votelib_call(self, e, callees, recv, pos, kws, allargs, name):
        if not callees:
            return self.unknown_call(e, name, allargs | (recv or frozenset()))
        return self.apply_callees(e, callees, recv, pos, kws)

    def bind_args(self, cal, recv, pos, kws):
        b = collections.defaultdict(frozenset)
        bel = collections.defaultdict(frozenset)           # what the ELEMENTS of the callee's *args / **kwargs are
        params = list(cal.pos)
        start = 0
        if recv is not None and cal.kind in ('method', 'classmethod') and params:
            b[params[0]] |= recv
            start = 1
        i = start
        for v, star in pos:
            if star:
                for p in params[i:]:
                    b[p] |= v
                if cal.vararg:
                    bel[cal.vararg] |= v
                continue
            if i < len(params):
                b[params[i]] |= v
                i += 1
            elif cal.vararg:
                bel[cal.vararg] |= v
        for k, v in kws:
            if k is None:
                for p in params[start:] + cal.kwonly:
                    b[p] |= v
                if cal.kwarg:
                    bel[cal.kwarg] |= v
            elif k in params or k in cal.kwonly:
                b[k] |= v
            elif cal.kwarg:
                bel[cal.kwarg] |= v
        return b, bel

    def apply_callees(self, e, callees, recv, pos, kws):
        c = self.site(e, 'call')
        result = {c}
        for cal in callees:
            self.used.add(cal.key)
            b, bel = self.bind_args(cal, recv, pos, kws)

            memo = {}

            def amap(region):
                v = memo.get(region)
                if v is None:
                    v = memo[region] = amap0(region)
                return v

            def amap0(region):
                """what a region of the callee stands for here"""
                if region[0] == 'P':
                    return b.get(region[1], frozenset())
                if region[0] == 'E':
                    return self.reach(self.elements(b.get(region[1], frozenset())) | bel.get(region[1], frozenset()))
                if region[0] == 'G':
                    return frozenset([region])
                if region[0] == 'H':
                    return frozenset([region])
                return frozenset()
            s = self.w.summ[cal.key]
            tag = '%s.%s' % (cal.module.replace('votelib.', ''), cal.qualname)
            for q, levels in s['mut'].items():
                if q == GLOBALS:
                    for gname, level in sorted(levels):
                        self.record(('G' if level == 'top' else 'H', gname), e, 'via:%s' % tag)
                    continue
                for level in sorted(levels):
                    v = amap(('P' if level == 'top' else 'E', q))
                    if v:
                        self.mutate(v, e, 'via:%s(%s)' % (tag, q))
            for dst, src in s['stores']:
                vd, vs = amap(dst), amap(src)
                if vd and vs:
                    for r in vd:
                        self.add_contents(r, vs)
            for r in s['ret']:
                result |= amap(r)
            for r in s['ret_inner']:
                self.add_contents(c, amap(r))
        return frozenset(result)

    def method_call(self, e, env, f, pos, kws, allargs):
        m = f.attr
        rv = self.ev(f.value, env)
        out = frozenset()
        handled = False
        if m in MUTATORS:
            handled = True
            # a store: the container absorbs the arguments (update / extend take their elements; keys are not tracked)
            vals = [v for v, _ in pos] + [v for _, v in kws]
            if m in ('update', 'extend', 'extendleft', '__ior__', '__iadd__', 'writelines', 'difference_update', 'intersection_update',
                     'symmetric_difference_update', 'subtract'):
                ab = self.elements(allargs) | self.elements(self.elements(allargs))
            elif m in ('setdefault', '__setitem__', 'insert'):
                ab = frozenset().union(*vals[1:]) if len(vals) > 1 else frozenset()
            elif m in ('pop', 'popitem', 'popleft', 'remove', 'discard', 'clear', 'sort', 'reverse', '__delitem__', 'read', 'readline',
                       'readlines', 'close', 'flush', 'seek', 'truncate', '__next__', 'rotate', 'move_to_end'):
                ab = frozenset()
            else:
                ab = allargs
            self.mutate(rv, e, 'call:' + m, absorb=ab)
            if m in MUT_RETURNS_ELEMENT:
                out |= self.elements(rv) | (frozenset().union(*vals[1:]) if len(vals) > 1 else frozenset())
        if m in PURE_ELEMENT:
            handled = True
            out |= self.elements(rv) | frozenset().union(*[v for v, _ in pos[1:]] + [v for _, v in kws])
        if m in PURE_VIEW:
            handled = True
            el = self.elements(rv) | self.elements(allargs) | (allargs if m == 'fromkeys' else frozenset())
            if m == 'items':
                out |= self.fresh(e, 'items', self.fresh(e, 'item', el))
            else:
                s = self.fresh(e, 'copy:' + m if m in ('copy', '__copy__') else 'view:' + m, el)
                if m in ('copy', '__copy__'):
                    for r in rv:
                        if r[0] == 'P':
                            for x in s:
                                self.copies.setdefault(x, (r[1], e.lineno))
                out |= s
        if m in PURE_SCALAR:
            handled = True
        cands = self.w.by_meth.get(m, [])
        if cands:
            handled = True
            out |= self.apply_callees(e, cands, rv, pos, kws)
        if not handled:
            # a method the tables do not know: Class-level helpers reached through a class object (Class.method(...)) first
            d = _dotted(f.value)
            if d and d[-1] in self.w.by_cls and d[0] not in env:
                return self.unknown_call(e, '.'.join(d + [m]), allargs)
            ra = self.reach(rv | allargs)
            if any(r[0] in 'PG' for r in ra):
                # callable attribute (self.quota_function(...), self.tie_breaker(...)) vs. unknown method of an argument
                if any(r[0] == 'P' for r in rv) and not any(r[0] == 'S' for r in rv) and self.attr_is_component(m):
                    return self.callable_value(e, env, self.elements(rv), allargs, ast.unparse(f)[:40])
                self.w.unknown['method ' + m] += 1
                self.mutate(ra, e, 'unknown-method:' + m)
            out |= self.fresh(e, 'unknown-method', ra)
        return out

    def attr_is_component(self, m):
        """the attribute is assigned in some __init__ of the package (self.m = ...): a stored component, not a method"""
        return m in self.w_components()

    def w_components(self):
        w = self.w
        if not hasattr(w, '_components'):
            comp = set()
            for u in w.units:
                for n in ast.walk(u.node):
                    if isinstance(n, ast.Attribute) and isinstance(n.ctx, ast.Store) and isinstance(n.value, ast.Name) and u.pos[:1] == [n.value.id]:
                        comp.add(n.attr)
            # class-level attributes too
            for mi in w.mods.values():
                for c in mi['classes'].values():
                    for st_ in c.body:
                        if isinstance(st_, ast.Assign):
                            for t in st_.targets:
                                if isinstance(t, ast.Name):
                                    comp.add(t.id)
                        elif isinstance(st_, ast.AnnAssign) and isinstance(st_.target, ast.Name):
                            comp.add(st_.target.id)
            w._components = comp
        return w._components

    # ------------------------------------------------------------ binding / statements
    def bind(self, t, v, env, node):
        if isinstance(t, ast.Name):
            env[t.id] = v
        elif isinstance(t, (ast.Tuple, ast.List)):
            el = self.elements(v)
            for x in t.elts:
                if isinstance(x, ast.Starred):
                    self.bind(x.value, self.fresh(x, 'starred', el), env, node)
                else:
                    self.bind(x, el, env, node)
        elif isinstance(t, ast.Subscript):
            tv = self.ev(t.value, env)
            self.ev(t.slice, env)
            self.mutate(tv, node, 'subscript-assign', absorb=v | (self.elements(v) if isinstance(t.slice, ast.Slice) else frozenset()))
        elif isinstance(t, ast.Attribute):
            tv = self.ev(t.value, env)
            self.mutate(tv, node, 'attribute-assign:' + t.attr, absorb=v)
        elif isinstance(t, ast.Starred):
            self.bind(t.value, v, env, node)
        else:
            raise Unreadable('%s:%d assignment target %s' % (self.u.modinfo['rel'], node.lineno, type(t).__name__))

    @staticmethod
    def join(a, b):
        out = dict(a)
        for k, v in b.items():
            out[k] = out.get(k, frozenset()) | v
        return out

    def note(self, env):
        for c in self.collectors:
            c.append(dict(env))

    def block(self, stmts, env):
        for s in stmts:
            m = getattr(self, 's_' + type(s).__name__, None)
            if m is None:
                raise Unreadable('%s:%d statement %s' % (self.u.modinfo['rel'], s.lineno, type(s).__name__))
            env = m(s, env)
            self.note(env)
        return env

    def s_Expr(self, s, env):
        self.ev(s.value, env)
        return env

    def s_Pass(self, s, env):
        return env

    s_Break = s_Continue = s_Pass

    def s_Import(self, s, env):
        for al in s.names:
            env.pop((al.asname or al.name).split('.')[0], None)
        return env

    s_ImportFrom = s_Import

    def s_Assign(self, s, env):
        v = self.ev(s.value, env)
        for t in s.targets:
            self.bind(t, v, env, s)
        return env

    def s_AnnAssign(self, s, env):
        if s.value is not None:
            self.bind(s.target, self.ev(s.value, env), env, s)
        return env

    def s_AugAssign(self, s, env):
        v = self.ev(s.value, env)
        t = s.target
        inplace = isinstance(s.op, (ast.Add, ast.Sub, ast.Mult, ast.BitOr, ast.BitAnd, ast.BitXor))
        if isinstance(t, ast.Name):
            cur = self.load_name(t, env)
            if inplace:
                # `x += y` changes a list / set / dict / Counter x in place; a parameter annotated with a scalar type is taken to be one
                self.mutate(cur, s, 'augmented-assign', absorb=self.elements(v), scalar_ok=True)
            env[t.id] = cur | (self.fresh(s, 'aug', self.elements(cur) | self.elements(v)) if (cur or v) else frozenset())
        elif isinstance(t, ast.Subscript):
            tv = self.ev(t.value, env)
            self.ev(t.slice, env)
            self.mutate(tv, s, 'augmented-subscript-assign', absorb=v | self.elements(v))
            if inplace:
                self.mutate(self.elements(tv), s, 'augmented-assign-element', scalar_ok=True) if False else None
        elif isinstance(t, ast.Attribute):
            tv = self.ev(t.value, env)
            self.mutate(tv, s, 'augmented-attribute-assign:' + t.attr, absorb=v | self.elements(v))
        else:
            raise Unreadable('%s:%d augmented target' % (self.u.modinfo['rel'], s.lineno))
        return env

    def s_Delete(self, s, env):
        for t in s.targets:
            if isinstance(t, ast.Name):
                env.pop(t.id, None)
            elif isinstance(t, ast.Subscript):
                self.ev(t.slice, env)
                self.mutate(self.ev(t.value, env), s, 'subscript-delete')
            elif isinstance(t, ast.Attribute):
                self.mutate(self.ev(t.value, env), s, 'attribute-delete:' + t.attr)
            else:
                raise Unreadable('%s:%d del target' % (self.u.modinfo['rel'], s.lineno))
        return env

    def s_Return(self, s, env):
        self.ret |= self.ev(s.value, env)
        return env

    def s_Raise(self, s, env):
        self.ev(s.exc, env)
        self.ev(s.cause, env)
        return env

    def s_Assert(self, s, env):
        self.ev(s.test, env)
        self.ev(s.msg, env)
        return env

    def s_If(self, s, env):
        self.ev(s.test, env)
        a = self.block(s.body, dict(env))
        b = self.block(s.orelse, dict(env))
        return self.join(a, b)

    def _loop(self, s, env, head):
        cur = dict(env)
        for _ in range(12):
            e1 = dict(cur)
            head(e1)
            out = self.block(s.body, e1)
            nxt = self.join(cur, out)
            if nxt == cur:
                break
            cur = nxt
        e2 = dict(cur)
        head(e2)
        return self.join(cur, self.block(s.orelse, e2)) if s.orelse else self.join(cur, e2)

    def s_For(self, s, env):
        def head(e1):
            it = self.ev(s.iter, e1)
            # iterating advances an iterator: only an argument that IS an iterator is changed by that - not tracked (documented)
            self.bind(s.target, self.elements(it), e1, s)
        return self._loop(s, env, head)

    def s_While(self, s, env):
        return self._loop(s, env, lambda e1: self.ev(s.test, e1))

    def s_With(self, s, env):
        for it in s.items:
            v = self.ev(it.context_expr, env)
            if it.optional_vars is not None:
                self.bind(it.optional_vars, v | self.elements(v), env, s)
        return self.block(s.body, env)

    def s_Try(self, s, env):
        col = [dict(env)]
        self.collectors.append(col)
        try:
            after = self.block(s.body, dict(env))
        finally:
            self.collectors.pop()
        mid = dict(env)
        for c in col:
            mid = self.join(mid, c)
        outs = [self.block(s.orelse, dict(after))]
        for h in s.handlers:
            e1 = dict(mid)
            self.ev(h.type, e1)
            if h.name:
                e1[h.name] = frozenset()
            outs.append(self.block(h.body, e1))
        res = outs[0]
        for o in outs[1:]:
            res = self.join(res, o)
        if s.finalbody:
            res = self.block(s.finalbody, self.join(res, mid))
        return res

    def s_FunctionDef(self, s, env):
        # a nested function: its body is read here, once, with its own parameters bound to everything the enclosing function can see
        env2 = dict(env)
        top = self.top(env)
        a = s.args
        for x in a.posonlyargs + a.args + a.kwonlyargs + [y for y in (a.vararg, a.kwarg) if y]:
            env2[x.arg] = top
        for d in a.defaults + [d for d in a.kw_defaults if d is not None]:
            self.ev(d, env)
        saved = self.ret
        self.ret = set()
        self.block(s.body, env2)
        inner = frozenset(self.ret)
        self.ret = saved
        env['<fn>' + s.name] = inner
        env[s.name] = self.fresh(s, 'closure', inner)
        return env

    def s_Global(self, s, env):
        return env

    s_Nonlocal = s_Global

    # ------------------------------------------------------------ driver
    def run(self):
        u = self.u
        for d in list(u.defaults.values()):
            pass
        for _ in range(15):
            self.heap_changed = False
            self.records = collections.defaultdict(list)
            self.callable_sites = []
            self.mutated_sites = set()
            self.ret = set()
            env = {}
            for p in u.params:
                env[p] = frozenset([('P', p)])
            self.block(u.node.body, env)
            if not self.heap_changed:
                break
        else:
            raise Unreadable('%s %s: heap did not stabilise' % (u.module, u.qualname))
        if self.rejected:
            for p in u.params + [GLOBALS]:
                self.records[p] = ([(self.rejected[0], 'rejected:' + self.rejected[1], lv, '?' if p == GLOBALS else '') for lv in ('top', 'deep')]
                                   + [r for r in self.records[p]])
        return self

    def summary(self):
        u = self.u
        ret = frozenset(self.ret)
        rr = self.reach(ret)
        pr = lambda r: r[0] in 'PEGH'      # noqa
        stores = set()
        for dst in u.params:
            for lv in 'PE':
                for r in self.reach(self.contains.get((lv, dst), set())):
                    if r[0] in 'PE' and r[1] != dst:
                        stores.add(((lv, dst), r))
        def immut(r):
            return ((r[0] == 'P' and u.scalar(r[1])) or (r[0] == 'E' and (u.scalar(r[1]) or u.scalar_elements(r[1]))))
        stores = {(d, r) for d, r in stores if not immut(r) and not immut(d)}
        ret = frozenset(r for r in ret if not immut(r))
        rr = frozenset(r for r in rr if not immut(r))
        mut = {}
        for p, recs in self.records.items():
            if not recs or (u.module, u.qualname, p) in NOT_PROPAGATED:
                continue
            if p == GLOBALS:
                mut[p] = {(r[3], r[2]) for r in recs}
            else:
                mut[p] = {r[2] for r in recs}
        return dict(mut=mut, ret={r for r in ret if pr(r)}, ret_inner={r for r in rr if pr(r)} - {r for r in ret if pr(r)}, stores=stores)


def scan(repo):
    """-> dict(rows=[...], rejected=[...], callable_sites=[...], unknown={...}, rounds=n)"""
    w = World(repo)
    last = {}
    dirty = {u.key for u in w.units}
    callers = collections.defaultdict(set)
    for rnd in range(1, 60):
        nxt = set()
        for u in w.units:
            if u.key not in dirty:
                continue
            fs = FnScan(u, w).run()
            for k in fs.used:
                callers[k].add(u.key)
            s = fs.summary()
            old = w.summ[u.key]
            # summaries only grow (a union with the previous round keeps the iteration monotone)
            new = dict(mut={p: set(old['mut'].get(p, ())) | set(s['mut'].get(p, ())) for p in set(old['mut']) | set(s['mut'])},
                       ret=old['ret'] | s['ret'], ret_inner=old['ret_inner'] | s['ret_inner'], stores=old['stores'] | s['stores'])
            if any(new[k] != old[k] for k in ('mut', 'ret', 'ret_inner', 'stores')):
                nxt |= callers[u.key]
                if u.key in fs.used:
                    nxt.add(u.key)
            w.summ[u.key] = new
            last[u.key] = fs
        dirty = nxt
        if not dirty:
            break
    else:
        raise Unreadable('call-graph fixpoint not reached')
    # the summaries were accumulated (unions over the rounds, so that the iteration is monotone): any post-fixpoint is sound, and so
    # is every step of the descending iteration from it - recompute every summary against the accumulated ones until nothing changes
    for _ in range(6):
        fresh_, same = {}, True
        for u in w.units:
            fs = FnScan(u, w).run()
            fresh_[u.key] = fs.summary()
            last[u.key] = fs
            if fresh_[u.key] != w.summ[u.key]:
                same = False
        w.summ = fresh_
        if same:
            break
    rows, rejected, csites = [], [], []
    for u in w.units:
        fs = last[u.key]                 # its last run saw the final summaries of everything it calls
        if fs.rejected:
            rejected.append(dict(module=u.module, qualname=u.qualname, line=fs.rejected[0], what=fs.rejected[1]))
        for line, label, ps in fs.callable_sites:
            csites.append(dict(module=u.module, qualname=u.qualname, line=line, callee=label, params=ps))
        copied = {}
        for site_, (p, line) in fs.copies.items():
            if site_ in fs.mutated_sites:
                copied[p] = min(copied.get(p, line), line)
        for p in u.params + [GLOBALS]:
            recs = fs.records.get(p, [])
            if p in (u.vararg, u.kwarg):
                recs = [r for r in recs if r[2] == 'deep']      # the tuple / dict of *args / **kwargs itself is the callee's own
            # the statement that names the row: what the function does itself before what it hands on to a callee
            recs = sorted(recs, key=lambda r: (r[1].startswith('via:'), r[0], r[1]))
            if recs:
                cls_, line, kind = 'MayMutate', recs[0][0], recs[0][1]
            elif p in copied:
                cls_, line, kind = 'CopiedFirst', copied[p], ''
            else:
                cls_, line, kind = 'Untouched', 0, ''
            d = u.defaults.get(p)
            rows.append(dict(module=u.module, qualname=u.qualname, param=p, cls=cls_, line=line, kind=kind,
                             public=bool(u.public), mutable_default=bool(d is not None and _mutable_default(d)),
                             default=(ast.unparse(d) if d is not None and _mutable_default(d) else ''),
                             nested=bool(u.nested), defline=u.node.lineno, all=[list(r[:3]) for r in recs][:8]))
    return dict(rows=rows, rejected=rejected, callable_sites=csites, unknown=dict(w.unknown), rounds=rnd,
                functions=len(w.units))


# ---------------------------------------------------------------- Coq output
def _coq_str(s):
    s = ''.join(c if 32 <= ord(c) < 127 else '?' for c in str(s))
    return '"%s"' % s.replace('"', '""')


MUT_HEADER = """(* GENERATED by tools/py2v.py (part 6, tools/mutscan.py) from votelib/**/*.py -- do not edit.
   One row per (function, parameter) of the whole package - self, *args, **kwargs included, plus the pseudo parameter <globals>
   (the module-level objects the function can name): the answer of the alias-and-mutation scan.  Reading rules, abstract domain
   and the classification of builtins / library calls: the comment at the head of tools/mutscan.py.
     Untouched            no statement of the function may change an object reachable from the argument
     CopiedFirst l        the function copies (an alias of) the argument at line l and changes the copy in place
     MayMutate l kind     the statement at line l may change an object reachable from the argument
   r_public: a parameter of a public evaluate / convert / validate / calculate / transfer / subtract method;
   r_mutdefault: the parameter has a shared mutable default object (a display in the def). *)
From Coq Require Import ZArith List String Bool.
Import ListNotations.
Open Scope string_scope.

Inductive mclass := Untouched | CopiedFirst (line : Z) | MayMutate (line : Z) (kind : string).
Record mrow := { r_module : string; r_qual : string; r_param : string; r_public : bool; r_mutdefault : bool; r_class : mclass }.
"""


def coq_text(res):
    def cls(r):
        if r['cls'] == 'Untouched':
            return 'Untouched'
        if r['cls'] == 'CopiedFirst':
            return '(CopiedFirst (%d))' % r['line']
        return '(MayMutate (%d) %s)' % (r['line'], _coq_str(r['kind']))
    rows = ['  {| r_module := %s; r_qual := %s; r_param := %s; r_public := %s; r_mutdefault := %s; r_class := %s |}'
            % (_coq_str(r['module']), _coq_str(r['qualname']), _coq_str(r['param']), 'true' if r['public'] else 'false',
               'true' if r['mutable_default'] else 'false', cls(r)) for r in res['rows']]
    text = MUT_HEADER + '\nDefinition mutation_table : list mrow := [\n' + ';\n'.join(rows) + '\n].\n\n'
    text += ('(* functions the scan refuses to read (reflection): every parameter is MayMutate above *)\n'
             'Definition rejected_functions : list (string * string * Z * string) := [%s].\n\n'
             % ';\n  '.join('(%s, %s, (%d)%%Z, %s)' % (_coq_str(r['module']), _coq_str(r['qualname']), r['line'], _coq_str(r['what']))
                            for r in res['rejected']))
    text += ('(* calls of function VALUES (stored components, callable parameters) that are handed an alias of a parameter: the table\n'
             '   assumes they leave it alone *)\n'
             'Definition callable_sites : list (string * string * Z * string) := [%s].\n'
             % ';\n  '.join('(%s, %s, (%d)%%Z, %s)' % (_coq_str(r['module']), _coq_str(r['qualname']), r['line'], _coq_str(r['callee']))
                            for r in res['callable_sites']))
    text += ('\n(* rows whose answer is not handed on to the callers (tools/mutscan.py NOT_PROPAGATED): each must be a justified exception *)\n'
             'Definition not_propagated : list (string * string * string) := [%s].\n'
             % ';\n  '.join('(%s, %s, %s)' % tuple(_coq_str(x) for x in k) for k in sorted(NOT_PROPAGATED)))
    return text


if __name__ == '__main__':
    import sys
    r = scan(sys.argv[1])
    mm = [x for x in r['rows'] if x['cls'] == 'MayMutate']
    print('functions', r['functions'], 'rows', len(r['rows']), 'rounds', r['rounds'], 'MayMutate', len(mm),
          'CopiedFirst', sum(1 for x in r['rows'] if x['cls'] == 'CopiedFirst'))
    for x in mm:
        if '-v' in sys.argv or x['param'] != 'self' or not x['qualname'].endswith('__init__'):
            print('%s %s(%s)%s%s: %d %s' % (x['module'], x['qualname'], x['param'], ' PUBLIC' if x['public'] else '',
                                          ' DEFAULT' if x['mutable_default'] else '', x['line'], x['kind']))
    print('unknown', r['unknown'])
    print('rejected', r['rejected'])
    print('callable sites', len(r['callable_sites']))
    for c in r['callable_sites']:
        print('  ', c)
