#!/usr/bin/env python3
"""Regenerate MANIFEST.json from the table below (keeps it schema-valid)."""
import json, os
V = os.path.dirname(os.path.dirname(os.path.abspath(__file__)))
BASE_OFF = ("cd /repo && env -u VOTELIB_VERIF /venv/bin/python -m pytest -ra -q -p no:cacheprovider "
            "--timeout=900 --continue-on-collection-errors")
NOTE = ("Trusted base: Coq 8.16.1 kernel (vm_compute in closed-term lemmas, no native_compute); axioms per theorem as "
        "printed by Print Assumptions (recorded in the evidence file; expected: closed under the global context); "
        "extraction with ExtrOcamlBasic only + ocamlopt; ocaml/driver.ml; the Python harness (generation, encoding, "
        "canonicalisation); tools/py2v.py for generated units. The theorems are about hand-written Gallina models; the "
        "models are tied to /repo by the correspondence run of this check (and by the translator where stated). ")
CLAIMED = {
 'C13': dict(cat='proof', tech='Coq theorems about the accumulating-fold shape of every converter (additivity, per-ballot image, order-freedom, weight conservation; any profile, any image) + extraction-based correspondence of 15 modelled converters and impl-side additivity checks on all profile splits',
             text='For the fold [conv image] that every modelled converter instantiates: conv(A++B) = conv(A)+conv(B), single-ballot image, value = weighted sum of images, ballot-order independence and weight conservation for one-item images are proved for all profiles and all images at once (keys compared by a proved-correct structural equality). The images (first preference, approved set, positional scores for six rank scorers, ordered pairs with unranked-at-bottom, sub-rankings, parties, ...) are tied to convert.py / vote.py / rankscore.py by differential runs, and additivity is also evaluated on the implementation for all splits of small profiles. Four defects found this way (TypeError in two converters, lost votes, multi-character names) were repaired by fix: commits.',
             ref='DESIGN.md 3 C13', note='Modelled, not verified: the converters of convert.py listed in harness/props/c13.py KINDS. Impl-side checks only: VoteTotals, ConstituencyTotals, InvertedSimpleVotes, Chain. Not covered: RoundedVotes (not additive by nature), GroupVotesByParty, first-n images containing shared ranks.'),
 'C20': dict(cat='proof', tech='Coq iff-theorems (acceptance <-> declarative rule) over a Gallina model of the five validators, three nominators, the magnitude checker and InvalidVoteEliminator, for every object of the ballot grammar and every configuration + extraction-based correspondence over the grammar',
             text='validate = Ok <-> declarative rule proved for Simple, Approval, Ranked and both Score validators over the full object grammar (wrong containers, nested collections, numbers, None, every candidate kind) and all bound/nominator configurations; the filter theorem for InvalidVoteEliminator; no-crash theorems for simple/approval. Model tied to vote.py/candidate.py/convert.py by a grammar-driven differential run (frozensets encoded in CPython iteration order so that even the error kind is compared). A genuine defect (score ballot naming a candidate twice accepted) was repaired by a fix: commit; the eliminator re-raising CandidateError is a known finding.',
             ref='DESIGN.md 3 C20', note='Modelled, not verified: vote.py validators, candidate.py nominators, convert.InvalidVoteEliminator (Model/Validate.v). Crash-freedom for ranked/score validators holds only for hashable items and numeric scores (stated in the iff theorems; non-numeric scores are outside the quantifier).'),
 'C05': dict(cat='proof', tech='Coq theorem (Copeland elects the Condorcet winner, for all pairwise dictionaries) over Gallina models of all ten condorcet.EVALUATORS entries + extraction-based correspondence and brute-force references for the clauses not yet proved',
             text='Proved for every pairwise dictionary: Copeland (raw and second order) returns exactly the Condorcet winner for one seat; the win-loss score characterisation. All other evaluators (Schulze, minimax x3, ranked pairs x3, Kemeny) are modelled faithfully (0 disagreements) and their Condorcet-winner / Smith / nobody-dropped clauses are decided per explored case against brute-force references - stated as partial. Four candidate-dropping / sparse-dictionary defects found by the check were repaired with fix: commits.',
             ref='DESIGN.md 3 C05', note='Modelled, not verified: condorcet.py evaluators and pairwin_scorer.py (Model/Condorcet.v). Partial: only the Copeland clause is a theorem; Benham/TidemanAlternative not covered yet.'),
 'C06': dict(cat='proof', tech='Coq theorems over Gallina models of CondorcetWinner and the Smith/Schwartz prefix routine (all pairwise dictionaries) + exhaustive small-domain correspondence + brute-force references; Schwartz clause refuted by a machine-checked counterexample',
             text='CondorcetWinner returns exactly the candidate beating all others (iff, uniqueness) for every pairwise dictionary incl. sparse ones; the Smith/Schwartz routine returns a non-empty Copeland-order prefix and its single sorted pass is complete (closure theorem). Domination/minimality of the Smith output is decided per case against a brute-force reference over all candidate subsets (exhaustive for <=3 candidates, every relation shape). The Schwartz clause is false of the faithful model (C06_schwartz_refuted): known finding C06-schwartz. The sparse-dictionary Smith defect was repaired by a fix: commit.',
             ref='DESIGN.md 3 C06', note='Modelled, not verified: pairwise_wins, beat_counts, CondorcetWinner, _smith_schwartz_set (Model/Condorcet.v). Partial: Smith domination+minimality not yet a theorem.'),
 'C16': dict(cat='proof', tech='Coq theorems over Gallina models of the threshold selectors, QuotaSelector and ThresholdOpenList (all inputs, all configurations) + extraction-based correspondence with on-threshold generators',
             text='Membership characterisations (exact share vs threshold, accept_equal, union for alternatives, any nesting), the closed form of the open-list fill-up loop, exactly-n-distinct-members, jumpers-first-by-votes and no-leapfrog are proved for every input; models tied to threshold.py/openlist.py/approval.py by differential runs whose generators put a candidate exactly on every threshold. Two boundary defects found by the check were repaired with fix: commits.',
             ref='DESIGN.md 3 C16', note='Modelled, not verified: threshold.py selectors and bracketers, openlist.ThresholdOpenList, Tie.break_by_list, approval.QuotaSelector. Bracketers and break_by_list are tied by correspondence only (no theorem yet).'),
 'C02': dict(cat='proof', tech='Coq theorems over Gallina models of the quota functions (regenerated from quota.py and proved equal to textbook values), QuotaDistributor and LargestRemainder + extraction-based correspondence; capped clause refuted by a machine-checked counterexample',
             text='Textbook quota values proved for all votes>=0, seats>=1 against the code generated from quota.py (incl. round-half-up); whole-quota stage, the three over-award policies, the remainder stage (= get_n_best on exact remainders, at most one seat per party, exact total) proved for every input on the domain where no whole-quota count exceeds a cap. The capped clause is false of the faithful model (C02_caps_refuted, C02_lr_caps_refuted): recorded as known findings C02-capbranch / C02-lr-caps and C02-lr-underfill; two defects repaired by fix: commits.',
             ref='DESIGN.md 3 C02', note='Modelled, not verified: QuotaDistributor.evaluate/_subtract_overaward, LargestRemainder.evaluate (Model/QuotaDistributor.v). Generated from source: component/quota.py. Not modelled: a second tie inside _subtract_overaward (cases skipped and counted).'),
 'C01': dict(cat='proof', tech='Coq invariant proof over a Gallina model of HighestAverages.evaluate (all votes, seats, divisors, prev_gains, caps) + translator tie for divisor.py + extraction-based correspondence',
             text='Loop invariant (sorted duplicate-free exact quotient list, caps, optimality of every awarded seat against every remaining claim, seat accounting, tie exactness) proved by induction over the loop for every input and every positive non-decreasing divisor; the five built-in divisors and modified_first_coef wrappers are proved to satisfy the hypothesis and are regenerated from divisor.py on every run (GenTie lemmas). evaluate() itself is tied by differential runs (exhaustive small domain, random, constructed quotient ties, zero-vote/cap stream, 1e30 magnitudes).',
             ref='DESIGN.md 3 C01', note='Modelled, not verified: HighestAverages.evaluate (Model/HighestAverages.v). Generated from source: component/divisor.py.'),
 'C09': dict(cat='proof', tech='Coq theorems over a Gallina model of get_n_best (all mappings, all n) + extraction-based correspondence with core.get_n_best / Plurality',
             text='get_n_best_spec / no_inversion / tie_members / stable-sort theorems hold for every list of (candidate, rational) pairs and every n>=1 (Coq, closed under the global context); the model is tied to the code by an exhaustive small-domain plus random differential run on every check.',
             ref='DESIGN.md 3 C09', note='Modelled, not verified: util.sorted_votes, core.get_n_best, Plurality.evaluate (Model/GetNBest.v).'),
}
REASONS = {}
props = [json.loads(l) for l in open(os.path.join(V, 'properties.jsonl'))]
checks, na = [], []
for p in props:
    i = p['id']
    if i in CLAIMED:
        c = CLAIMED[i]
        checks.append(dict(property_id=i, quick_cmd='./check %s --tier quick' % i,
                           thorough_cmd='./check %s --tier thorough' % i,
                           evidence_file='/verif/evidence/%s.json' % i,
                           replay_cmd_template='./check %s --replay {path}' % i,
                           engine='coq-model+correspondence',
                           level_claimed=dict(category=c['cat'], text=c['text'], design_ref=c['ref']),
                           level_note=NOTE + c['note'], technique=c['tech']))
    else:
        na.append(dict(property_id=i, reason=REASONS.get(i, 'not claimed yet: the model/theorems for this property are not built in this revision (planned, see DESIGN.md section 3); no check is registered rather than a weaker technique')))
m = dict(version=1, setup_cmd='./setup.sh',
         hooks=dict(guard='VOTELIB_VERIF', enable='./check exports VOTELIB_VERIF=1 for every implementation call (no source hook is needed so far)',
                    baseline_off_cmd=BASE_OFF, source_commits=[], add_only=True),
         engines=[dict(name='coq-model+correspondence', path='/verif/check', serves_properties=sorted(CLAIMED),
                       kind_free_text='Coq 8.16 theorems over Gallina models; models extracted to OCaml and compared with the implementation on generated inputs; translator for arithmetic components')],
         checks=checks, not_applicable=na,
         notes='See DESIGN.md. ./check <id> --tier quick|thorough ; VERIF_SEED honoured.')
json.dump(m, open(os.path.join(V, 'MANIFEST.json'), 'w'), indent=1)
print('claimed', sorted(CLAIMED), 'unclaimed', len(na))
