#!/usr/bin/env python3
"""Regenerate MANIFEST.json from the table below (keeps it schema-valid)."""
import json, os
V = os.path.dirname(os.path.dirname(os.path.abspath(__file__)))
BASE_OFF = ("cd /repo && env -u VOTELIB_VERIF /venv/bin/python -m pytest -ra -q -p no:cacheprovider "
            "--timeout=900 --continue-on-collection-errors")
NOTE = ("Trusted base: Coq 8.16.1 kernel (vm_compute in closed-term lemmas, no native_compute); axioms per theorem as "
        "printed by Print Assumptions (recorded in the evidence file; expected: closed under the global context); "
        "extraction with ExtrOcamlBasic only + ocamlopt; ocaml/driver.ml; the Python harness (generation, encoding, "
        "canonicalisation); tools/py2v.py for generated units. The theorems are about hand-written Gallina models; the "
        "models are tied to /repo by the correspondence run of this check (and by the translator where stated). ")
CLAIMED = {}
for f in sorted(os.listdir(os.path.join(V, 'tools', 'claims'))):
    if f.endswith('.json'):
        CLAIMED[f[:-5]] = json.load(open(os.path.join(V, 'tools', 'claims', f)))
REASONS = {}
if os.path.exists(os.path.join(V, 'tools', 'not_applicable.json')):
    REASONS = json.load(open(os.path.join(V, 'tools', 'not_applicable.json')))
props = [json.loads(l) for l in open(os.path.join(V, 'properties.jsonl'))]
checks, na = [], []
for p in props:
    i = p['id']
    if i in CLAIMED:
        c = CLAIMED[i]
        checks.append(dict(property_id=i, quick_cmd='./check %s --tier quick' % i,
                           thorough_cmd='./check %s --tier thorough' % i,
                           evidence_file='/verif/evidence/%s.json' % i,
                           replay_cmd_template='./check %s --replay {path}' % i,
                           engine='coq-model+correspondence',
                           level_claimed=dict(category=c['cat'], text=c['text'], design_ref=c['ref']),
                           level_note=NOTE + c['note'], technique=c['tech']))
    else:
        na.append(dict(property_id=i, reason=REASONS.get(i, 'not claimed yet: the model/theorems for this property are not built in this revision (planned, see DESIGN.md section 3); no check is registered rather than a weaker technique')))
# source hooks: commits of /repo whose subject starts with 'verif hook' (fixes/*-hook.diff once applied)
import subprocess
try:
    HOOK_COMMITS = subprocess.run(['git', '-C', '/repo', 'log', '--format=%H', '--grep=^verif hook'],
                                  capture_output=True, text=True, timeout=60).stdout.split()
except Exception:   # noqa
    HOOK_COMMITS = []
m = dict(version=1, setup_cmd='./setup.sh',
         hooks=dict(guard='VOTELIB_VERIF', enable='./check exports VOTELIB_VERIF=1 for every implementation call; one add-only source hook: '
                    'BiproportionalEvaluator.evaluate records (result, district_coefs, party_coefs) per iteration in self._verif_trace '
                    'when the guard is set (fixes/C07-hook.diff; C07 falls back to solving for multipliers when it is absent)',
                    baseline_off_cmd=BASE_OFF, source_commits=HOOK_COMMITS, add_only=True),
         engines=[dict(name='coq-model+correspondence', path='/verif/check', serves_properties=sorted(CLAIMED),
                       kind_free_text='Coq 8.16 theorems over Gallina models; models extracted to OCaml and compared with the implementation on generated inputs; translator for arithmetic components')],
         checks=checks, not_applicable=na,
         notes='See DESIGN.md. ./check <id> --tier quick|thorough ; VERIF_SEED honoured.')
json.dump(m, open(os.path.join(V, 'MANIFEST.json'), 'w'), indent=1)
print('claimed', sorted(CLAIMED), 'unclaimed', len(na))
