(* Line protocol driver around the extracted model.
   input line : <unit-number> <sx>      sx ::= int | '(' sx* ')'
   output line: <sx>
   Decimal <-> extracted binary Z conversion uses zarith (glue only). *)
module ZA = Z
module V = Vlmodel

let rec pos_of_z (n : ZA.t) : V.positive =
  if ZA.equal n ZA.one then V.XH
  else if ZA.testbit n 0 then V.XI (pos_of_z (ZA.shift_right n 1))
  else V.XO (pos_of_z (ZA.shift_right n 1))

let z_of_zarith (n : ZA.t) : V.z =
  let s = ZA.sign n in
  if s = 0 then V.Z0 else if s > 0 then V.Zpos (pos_of_z n) else V.Zneg (pos_of_z (ZA.neg n))

let rec zarith_of_pos (p : V.positive) : ZA.t =
  (* iterative to avoid deep recursion on huge numbers *)
  let rec go p acc shift =
    match p with
    | V.XH -> ZA.add acc (ZA.shift_left ZA.one shift)
    | V.XO q -> go q acc (shift + 1)
    | V.XI q -> go q (ZA.add acc (ZA.shift_left ZA.one shift)) (shift + 1)
  in go p ZA.zero 0

let zarith_of_z (n : V.z) : ZA.t =
  match n with
  | V.Z0 -> ZA.zero
  | V.Zpos p -> zarith_of_pos p
  | V.Zneg p -> ZA.neg (zarith_of_pos p)

exception Parse of string

let parse (s : string) (start : int) : V.sx * int =
  let n = String.length s in
  let rec skip i = if i < n && (s.[i] = ' ' || s.[i] = '\t') then skip (i + 1) else i in
  let rec value i =
    let i = skip i in
    if i >= n then raise (Parse "eof")
    else if s.[i] = '(' then items (i + 1) []
    else begin
      let j = ref i in
      while !j < n && s.[!j] <> ' ' && s.[!j] <> '(' && s.[!j] <> ')' do incr j done;
      if !j = i then raise (Parse "empty token");
      (V.A (z_of_zarith (ZA.of_string (String.sub s i (!j - i)))), !j)
    end
  and items i acc =
    let i = skip i in
    if i >= n then raise (Parse "unclosed")
    else if s.[i] = ')' then (V.L (List.rev acc), i + 1)
    else let (v, j) = value i in items j (v :: acc)
  in value start

let rec print (b : Buffer.t) (v : V.sx) : unit =
  match v with
  | V.A z -> Buffer.add_string b (ZA.to_string (zarith_of_z z))
  | V.L l ->
      Buffer.add_char b '(';
      List.iteri (fun i x -> if i > 0 then Buffer.add_char b ' '; print b x) l;
      Buffer.add_char b ')'

let () =
  let b = Buffer.create 4096 in
  (try
     while true do
       let line = input_line stdin in
       Buffer.clear b;
       (try
          let (u, i) = parse line 0 in
          let (a, _) = parse line i in
          (match u with
           | V.A uz -> print b (V.dispatch uz a)
           | _ -> Buffer.add_string b "(3 unit)")
        with
        | Parse m -> Buffer.add_string b ("(3 parse " ^ m ^ ")")
        | Stack_overflow -> Buffer.add_string b "(3 stack_overflow)"
        | Invalid_argument m -> Buffer.add_string b ("(3 invalid " ^ m ^ ")"));
       print_string (Buffer.contents b);
       print_char '\n'
     done
   with End_of_file -> ());
  flush stdout
