"""Worker for the hash-seed sweep of C10: reads JSON cases from stdin, evaluates each on the implementation in THIS
interpreter (whose PYTHONHASHSEED the parent chose) and prints one canonical outcome per line."""
import sys, os, json
sys.path.insert(0, os.path.dirname(os.path.abspath(__file__)))
import common, evalreg


def names_for(style):
    if style == 'str':
        return common.cname, common.cnum
    if style == 'long':
        fwd = lambda k: 'candidate-%s-%d' % ('xyzw'[k % 4] * (k % 3 + 1), k * 7919)     # noqa
        return fwd, lambda s: int(s.rsplit('-', 1)[1]) // 7919
    raise ValueError(style)


def main():
    reg = evalreg.registry()
    for line in sys.stdin:
        c = json.loads(line)
        e = reg[c['evaluator']]
        name, unname = names_for(c.get('names', 'str'))
        r = evalreg.outcome(e, c['profile'], c['n'], name=name, unname=unname, limit=10)
        if r[0] == 'ok':
            kind, val = r[1]
            if kind == 'sel':
                plain, ties = evalreg.level_sets(val)
                print(json.dumps(['ok', 'sel', plain, ties, len(val)]))
            else:
                print(json.dumps(['ok', 'dist', sorted([[repr(k), v] for k, v in val])]))
        else:
            print(json.dumps(['err', r[1]]))


if __name__ == '__main__':
    main()
