"""Pairwise-count dictionary generators and brute-force references shared by C05/C06/C10/C11/C17."""
import itertools
from fractions import Fraction
import common
from common import sx, cname


def psx(votes):
    return sx([[[a, b], n] for (a, b), n in votes])


def pdict(votes):
    return {(cname(a), cname(b)): n for (a, b), n in votes}


def cands(votes):
    out = []
    for (a, b), _ in votes:
        for x in (a, b):
            if x not in out:
                out.append(x)
    return out


def cnt(votes):
    d = {tuple(p): n for p, n in votes}
    return lambda a, b: d.get((a, b), 0)


def ordered_complete(votes):
    cs = cands(votes)
    keys = {tuple(p) for p, _ in votes}
    return all((a, b) in keys for a in cs for b in cs if a != b)


def from_profile(rng, m, nb, shared=False, truncate=True, bottom=True, scale=1):
    """ranked profile -> pairwise dict through the library's own converter (input generation only)"""
    import votelib.convert as conv
    ids = list(range(1, m + 1))
    prof = {}
    for _ in range(nb):
        perm = ids[:]
        rng.shuffle(perm)
        if truncate and rng.random() < 0.5:
            perm = perm[:rng.randint(1, m)]
        ballot = []
        i = 0
        while i < len(perm):
            if shared and rng.random() < 0.2 and i + 1 < len(perm):
                ballot.append(frozenset([cname(perm[i]), cname(perm[i + 1])]))
                i += 2
            else:
                ballot.append(cname(perm[i]))
                i += 1
        prof[tuple(ballot)] = prof.get(tuple(ballot), 0) + rng.randint(1, 5) * scale
    pw = conv.RankedToCondorcetVotes(unranked_at_bottom=bottom).convert(prof)
    return [[[common.cnum(a), common.cnum(b)], n] for (a, b), n in pw.items()], prof


def sparse(rng, m, hi=5, p=0.5, scale=1):
    ids = list(range(1, m + 1))
    pairs = [(a, b) for a in ids for b in ids if a != b]
    rng.shuffle(pairs)
    out = [[[a, b], rng.randint(0, hi) * scale] for a, b in pairs if rng.random() < p]
    return out or [[[1, 2], 1]]


def dense(rng, m, hi=5, tie_p=0.2, scale=1):
    ids = list(range(1, m + 1))
    pairs = [(a, b) for a in ids for b in ids if a != b]
    rng.shuffle(pairs)
    d = {}
    for a, b in pairs:
        if (b, a) in d and rng.random() < tie_p:
            d[(a, b)] = d[(b, a)]
        else:
            d[(a, b)] = rng.randint(0, hi) * scale
    return [[[a, b], n] for (a, b), n in d.items()]


def forced_cw(rng, m, scale=1):
    v = dense(rng, m, scale=scale)
    w = rng.randint(1, m)
    out = []
    for (a, b), n in v:
        if a == w:
            n = 6 * scale
        elif b == w:
            n = rng.randint(0, 5) * scale
        out.append([[a, b], n])
    return out


def exhaustive_shapes(m):
    """every tournament-with-ties/absent on m candidates: each unordered pair a>b, b>a, tie, absent-both, one-sided"""
    ids = list(range(1, m + 1))
    upairs = [(a, b) for i, a in enumerate(ids) for b in ids[i + 1:]]
    opts = [((2, 1),), ((1, 2),), ((1, 1),), (), ((2, None),), ((None, 2),), ((0, None),), ((0, 0),)]
    for combo in itertools.product(range(len(opts)), repeat=len(upairs)):
        v = []
        for (a, b), o in zip(upairs, combo):
            for x in opts[o]:
                if x[0] is not None:
                    v.append([[a, b], x[0]])
                if x[1] is not None:
                    v.append([[b, a], x[1]])
        if v:
            yield v


# ---- brute-force references (absent pair = 0 : 0)
def beats(votes):
    c = cnt(votes)
    return lambda a, b: c(a, b) > c(b, a)


def ref_cw(votes):
    cs, bt = cands(votes), beats(votes)
    return [a for a in cs if all(bt(a, b) for b in cs if b != a)]


def subsets(cs):
    for r in range(1, len(cs) + 1):
        for s in itertools.combinations(cs, r):
            yield set(s)


def ref_smith(votes):
    cs, bt = cands(votes), beats(votes)
    best = None
    for s in subsets(cs):
        if all(bt(a, b) for a in s for b in cs if b not in s):
            if best is None or len(s) < len(best):
                best = s
    return sorted(best)


def ref_schwartz(votes):
    cs, bt = cands(votes), beats(votes)
    und = [s for s in subsets(cs) if not any(bt(b, a) for a in s for b in cs if b not in s)]
    minimal = [s for s in und if not any(t < s for t in und)]
    out = set()
    for s in minimal:
        out |= s
    return sorted(out)
