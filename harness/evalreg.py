"""Registry of evaluator configurations with generic well-typed input generators, shared by the relational
checks of C08 (shape / refusals), C10 (order, renaming, hash seed) and C11 (scaling).

Profiles are JSON-able and use candidate numbers 1..m:
  simple   [[c, v], ...]                       approval [[[c, ...], w], ...]
  ranked   [[[item, ...], w], ...]  item = c | [c, c', ...] (shared rank)
  score    [[[[c, s], ...], w], ...]           pairwise [[[a, b], n], ...]
`to_python(vtype, profile, names)` builds the votelib input (dict insertion order = list order).
Results are canonicalised by `canon_result`: selections -> list of candidate numbers / sorted tuples (ties);
distributions -> sorted tuple of (key, seats)."""
from fractions import Fraction
import common
from common import cname, q


# ------------------------------------------------------------------ evaluators
def _mk():
    import votelib.evaluate.core as core, votelib.convert as conv, votelib.component.rankscore as rs
    import votelib.evaluate.condorcet as cd, votelib.evaluate.sequential as seq, votelib.evaluate.proportional as prop
    import votelib.evaluate.cardinal as card, votelib.evaluate.approval as appr, votelib.evaluate.threshold as thr
    P = core.Plurality
    R = {}

    def add(name, vtype, kind, make, family=None, scale_free=True, seats=True, max_k=None, det=True, needs=None, exact=True, min_cands=1):
        # exact: the evaluator is meant to fill exactly n_seats (False: quota / threshold style, at most n_seats)
        # min_cands: composite entries whose inner evaluator sees no candidate below that number (an empty pairwise dictionary)
        R[name] = dict(name=name, vtype=vtype, kind=kind, make=make, family=family, scale_free=scale_free,
                       seats=seats, max_k=max_k, det=det, needs=needs, exact=exact, min_cands=min_cands)
    # simple votes
    add('plurality', 'simple', 'sel', lambda: P(), family='plurality')
    for d in ('d_hondt', 'sainte_lague', 'imperiali', 'danish', 'macau'):
        add('ha_' + d, 'simple', 'dist', (lambda d=d: prop.HighestAverages(d)), family='highest_averages')
    for qn in ('hare', 'hagenbach_bischoff', 'imperiali'):
        add('lr_' + qn, 'simple', 'dist', (lambda qn=qn: prop.LargestRemainder(qn)), family='largest_remainder')
    add('lr_droop', 'simple', 'dist', lambda: prop.LargestRemainder('droop'), family='largest_remainder', scale_free=False)
    add('pure_proportionality', 'simple', 'dist', lambda: prop.PureProportionality(), needs='fractional')
    add('relative_threshold', 'simple', 'sel', lambda: thr.RelativeThreshold(Fraction(1, 5)), seats=False)
    add('quota_selector_hare', 'simple', 'sel', lambda: appr.QuotaSelector('hare', on_more_over_quota='select'), exact=False)
    # approval votes
    add('approval', 'approval', 'sel', lambda: core.PreConverted(conv.ApprovalToSimpleVotes(), P()), family='approval')
    add('sav', 'approval', 'sel', lambda: core.PreConverted(conv.ApprovalToSimpleVotes(split=True), P()), family='approval')
    add('pav', 'approval', 'sel', lambda: appr.ProportionalApproval(), family='approval')
    add('spav', 'approval', 'sel', lambda: appr.SequentialProportionalApproval(), family='approval')
    # ranked votes
    add('fptp_ranked', 'ranked', 'sel', lambda: core.PreConverted(conv.RankedToFirstPreference(), P()), family='plurality', needs='noshared')
    for nm, mk in (('borda', lambda: rs.Borda()), ('dowdall', lambda: rs.Dowdall()), ('modified_borda', lambda: rs.ModifiedBorda()),
                   ('geometric', lambda: rs.Geometric(2)), ('fixed_top', lambda: rs.FixedTop(3))):
        add(nm, 'ranked', 'sel', (lambda mk=mk: core.PreConverted(conv.RankedToPositionalVotes(mk()), P())), family='positional')
    add('bucklin', 'ranked', 'sel', lambda: seq.PreferenceAddition())
    add('oklahoma', 'ranked', 'sel', lambda: seq.PreferenceAddition(coefficients=lambda i: Fraction(1, i + 1)))
    add('stv_hare', 'ranked', 'sel', lambda: seq.TransferableVoteSelector(quota_function='hare'), family='transferable_vote')
    add('stv_hb', 'ranked', 'sel', lambda: seq.TransferableVoteSelector(quota_function='hagenbach_bischoff'), family='transferable_vote')
    add('stv_droop', 'ranked', 'sel', lambda: seq.TransferableVoteSelector(quota_function='droop'), family='transferable_vote',
        scale_free=False, needs='noshared')
    add('stv_dist_droop', 'ranked', 'dist', lambda: seq.TransferableVoteDistributor(quota_function='droop'), family='transferable_vote',
        scale_free=False, needs='noshared')
    add('benham', 'ranked', 'sel', lambda: seq.Benham(), needs='noshared')
    add('tideman_alt', 'ranked', 'sel', lambda: seq.TidemanAlternative(), needs='noshared')
    add('baldwin', 'ranked', 'sel', lambda: seq.Baldwin(), needs='noshared')
    for nm in cd.EVALUATORS:
        fam = {'copeland': 'copeland', 'schulze': 'schulze', 'minimax': 'minimax'}.get(nm.split('_')[0])
        add('r_' + nm, 'ranked', 'sel', (lambda nm=nm: core.PreConverted(conv.RankedToCondorcetVotes(), cd.EVALUATORS[nm])), family=fam,
            needs=('small' if nm == 'kemeny_young' else None), min_cands=2)
        add('p_' + nm, 'pairwise', 'sel', (lambda nm=nm: cd.EVALUATORS[nm]), family=fam, needs=('small' if nm == 'kemeny_young' else None))
    add('condorcet_winner', 'pairwise', 'sel', lambda: cd.CondorcetWinner(), seats=False)
    add('smith_set', 'pairwise', 'sel', lambda: cd.SmithSet(), seats=False)
    add('schwartz_set', 'pairwise', 'sel', lambda: cd.SchwartzSet(), seats=False)
    # score votes (the aggregation works on the (score -> count) dictionaries since fixes/C12-score-counted: every scale factor)
    for fn in ('sum', 'mean', 'median_low'):
        add('score_' + fn, 'score', 'sel', (lambda fn=fn: card.ScoreVoting(fn)), family='score')
    add('score_sum_unscored0', 'score', 'sel', lambda: card.ScoreVoting('sum', unscored_value=0), family='score')
    add('mj_plus', 'score', 'sel', lambda: card.MajorityJudgment(tie_breaking='plus'))
    add('mj_default', 'score', 'sel', lambda: card.MajorityJudgment())
    add('star', 'score', 'sel', lambda: card.STAR())
    add('allocated_score', 'score', 'sel', lambda: card.AllocatedScoreSelector('hare'))
    return R


_REG = None


def registry():
    global _REG
    if _REG is None:
        _REG = _mk()
    return _REG


# ------------------------------------------------------------------ generators
def gen_profile(rng, vtype, m=None, shared=True, small=False):
    m = m or rng.randint(2, 4 if small else 6)
    ids = list(range(1, m + 1))
    if vtype == 'simple':
        style = rng.choice(['small', 'mid', 'equal', 'zeros', 'frac'])
        out = []
        for k in ids:
            v = {'small': lambda: rng.randint(0, 6), 'mid': lambda: rng.randint(0, 1000),
                 'equal': lambda: rng.choice([12, 24, 36]), 'zeros': lambda: rng.choice([0, 0, rng.randint(1, 20)]),
                 'frac': lambda: Fraction(rng.randint(0, 40), rng.randint(1, 3))}[style]()
            out.append([k, common.jq(v)])
        rng.shuffle(out)
        return out
    if vtype == 'approval':
        prof = {}
        for _ in range(rng.randint(1, 7)):
            b = tuple(sorted(rng.sample(ids, rng.randint(1, m))))
            prof[b] = prof.get(b, 0) + rng.randint(1, 5)
        return [[list(b), w] for b, w in prof.items()]
    if vtype == 'ranked':
        prof = {}
        for _ in range(rng.randint(1, 8)):
            perm = ids[:]
            rng.shuffle(perm)
            if rng.random() < 0.4:
                perm = perm[:rng.randint(1, m)]
            b, i = [], 0
            while i < len(perm):
                if shared and rng.random() < 0.15 and i + 1 < len(perm):
                    b.append(tuple(sorted(perm[i:i + 2])))
                    i += 2
                else:
                    b.append(perm[i])
                    i += 1
            prof[tuple(b)] = prof.get(tuple(b), 0) + rng.randint(1, 5)
        return [[[list(x) if isinstance(x, tuple) else x for x in b], w] for b, w in prof.items()]
    if vtype == 'score':
        prof = {}
        for _ in range(rng.randint(1, 7)):
            cs = sorted(rng.sample(ids, rng.randint(1, m)))
            b = tuple((k, rng.randint(0, 5)) for k in cs)
            prof[b] = prof.get(b, 0) + rng.randint(1, 4)
        return [[[list(x) for x in b], w] for b, w in prof.items()]
    if vtype == 'pairwise':
        import pairwise as pw
        r = rng.random()
        if r < 0.4:
            v, _ = pw.from_profile(rng, m, rng.randint(1, 8), shared=False, bottom=rng.random() < 0.7)
            if v:
                return v
        if r < 0.7:
            return pw.dense(rng, m, tie_p=rng.choice([0, 0.2, 0.6]))
        return pw.sparse(rng, m, p=rng.choice([0.5, 0.8]))
    raise ValueError(vtype)


def candidates_of(vtype, prof):
    out = []

    def add(c):
        if c not in out:
            out.append(c)
    for key, _ in prof:
        if vtype == 'simple':
            add(key)
        elif vtype == 'approval':
            for c in key:
                add(c)
        elif vtype == 'ranked':
            for it in key:
                for c in (it if isinstance(it, list) else [it]):
                    add(c)
        elif vtype == 'score':
            for c, _s in key:
                add(c)
        elif vtype == 'pairwise':
            add(key[0]); add(key[1])
    return out


def present_candidates(entry, prof):
    """candidates the evaluator itself gets to see (first preferences only for the first-preference composite)"""
    if entry['name'] == 'fptp_ranked':
        out = []
        for b, _ in prof:
            if b and b[0] not in out:
                out.append(b[0])
        return out
    if entry['name'].startswith('r_'):
        # the pairwise evaluator behind the converter sees only candidates that took part in some pairwise contest
        import votelib.convert as conv
        d = conv.RankedToCondorcetVotes().convert(to_python('ranked', prof))
        out = []
        for a, b in d:
            for x in (a, b):
                if common.cnum(x) not in out:
                    out.append(common.cnum(x))
        return out
    return candidates_of(entry['vtype'], prof)


def has_shared(prof):
    return any(isinstance(it, list) for b, _ in prof for it in b)


def num(v):
    f = q(v)
    return int(f) if f.denominator == 1 else f


def to_python(vtype, prof, name=cname, scale=1):
    """votelib input dict; `name` maps candidate numbers to Python candidate objects; weights are multiplied by `scale`"""
    if vtype == 'simple':
        return {name(c): num(q(v) * scale) for c, v in prof}
    if vtype == 'approval':
        return {frozenset(name(c) for c in b): num(q(w) * scale) for b, w in prof}
    if vtype == 'ranked':
        return {tuple(frozenset(name(c) for c in it) if isinstance(it, list) else name(it) for it in b): num(q(w) * scale) for b, w in prof}
    if vtype == 'score':
        return {frozenset((name(c), s) for c, s in b): num(q(w) * scale) for b, w in prof}
    if vtype == 'pairwise':
        return {(name(a), name(b)): num(q(n) * scale) for (a, b), n in prof}
    raise ValueError(vtype)


def run(entry, pyvotes, n):
    ev = entry['make']()
    if entry['seats']:
        return ev.evaluate(pyvotes, n)
    return ev.evaluate(pyvotes)


def canon_result(entry, res, unname):
    """-> ('sel', [c | (tie members sorted)...]) or ('dist', ((key, seats), ...)); raises FloatLeak on floats"""
    import votelib.evaluate.core as core

    def key(k):
        if isinstance(k, core.Tie):
            return tuple(sorted(unname(x) for x in k))
        return unname(k)
    if isinstance(res, dict):
        out = []
        for k, v in res.items():
            if isinstance(v, float):
                raise common.FloatLeak('float seats %r' % v)
            out.append((key(k), common.jq(v) if not isinstance(v, int) else v))
        return ('dist', tuple(sorted(out, key=repr)))
    return ('sel', [key(k) for k in res])


def outcome(entry, prof, n, name=cname, unname=common.cnum, scale=1, limit=10, order=None):
    """run the implementation; -> ('ok', canon) | ('err', code, text)"""
    p = prof if order is None else [prof[i] for i in order]
    r = common.call_impl(lambda: canon_result(entry, run(entry, to_python(entry['vtype'], p, name, scale), n), unname), limit)
    return r


def level_sets(sel):
    """selection -> (set of plain winners, multiset of ties) for order-insensitive comparison"""
    plain = sorted(x for x in sel if not isinstance(x, tuple))
    ties = sorted(x for x in sel if isinstance(x, tuple))
    return plain, ties
