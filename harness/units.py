"""Unit numbers shared with coq/Model/Dispatch.v"""
U = dict(
    get_n_best=1,
    highest_averages=2,
    divisor=3,
    quota_distributor=4,
    largest_remainder=5,
    quota=6,
    quota_selector=7,
    threshold=8,
    bracket=9,
    openlist=10,
    break_by_list=11,
)
