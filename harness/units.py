"""Unit numbers shared with coq/Model/Dispatch.v"""
U = dict(
    get_n_best=1,
)
