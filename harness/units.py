"""Unit numbers shared with coq/Model/Dispatch.v"""
U = dict(
    get_n_best=1,
    highest_averages=2,
    divisor=3,
    quota_distributor=4,
    largest_remainder=5,
    quota=6,
    quota_selector=7,
    threshold=8,
    bracket=9,
    openlist=10,
    break_by_list=11,
    condorcet_winner=12,
    smith_schwartz=13,
    copeland=14,
    schulze=15,
    minimax=16,
    ranked_pairs=17,
    kemeny=18,
    validate=19,
    eliminate=20,
    convert=21,
    stv=22,
    pav=23,
    spav=24,
    score_voting=25,
    mj=26,
    score_to_simple=27,
    overhang=28,
)

# blocks of unit numbers routed by Dispatch.v to Model/Units_<ID>.v (offset k = number - BLOCK[ID])
BLOCK = dict(C07=100, C08=110, C10=120, C11=130, C14=140, C17=150, C18=160, C19=170, C12=190, C05=200, C13=210, C15=250, C03=300)
