"""Entry point behind ./check : decide one property on /repo's current tree.

  run.py <ID> [--tier quick|thorough] [--replay FILE]

Steps (DESIGN.md 2.4): build (translator + make + extraction + driver) ->
proof status of Props/<ID>.v -> correspondence / checker run -> verdict ->
evidence/<ID>.json.
"""
import os, sys, re, json, time, argparse, subprocess, importlib, collections, random
sys.path.insert(0, os.path.dirname(os.path.abspath(__file__)))
import common
from common import VERIF, REPO

COQ = os.path.join(VERIF, 'coq')
ALLOWED_AXIOMS_FILE = os.path.join(VERIF, 'trusted_axioms.txt')
LINT_RE = r'\bAdmitted\b|\badmit\b|\bAxiom\b|\bAxioms\b|\bParameter\b|\bParameters\b|\bConjecture\b|Unset Guard|bypass_check|type-in-type|Admit Obligations|impredicative-set|Unset Universe Checking|Unset Positivity'


def sh(cmd, timeout=1500, cwd=VERIF):
    p = subprocess.run(cmd, shell=True, cwd=cwd, capture_output=True, text=True, timeout=timeout)
    return p.returncode, p.stdout + p.stderr


def build():
    rc, out = sh('./build.sh', timeout=2400)
    return rc, out


def lint():
    """no Admitted/admit/Axiom/... anywhere in the development (comments stripped)"""
    bad = []
    for root, _, files in os.walk(COQ):
        for f in files:
            if not f.endswith('.v'):
                continue
            p = os.path.join(root, f)
            txt = open(p).read()
            # strip comments (nested)
            out, depth, i = [], 0, 0
            while i < len(txt):
                if txt.startswith('(*', i):
                    depth += 1
                    i += 2
                elif txt.startswith('*)', i) and depth:
                    depth -= 1
                    i += 2
                else:
                    if not depth:
                        out.append(txt[i])
                    i += 1
            code = ''.join(out)
            for m in re.finditer(LINT_RE, code):
                bad.append('%s: %s' % (os.path.relpath(p, VERIF), m.group(0)))
    return bad


def allowed_axioms():
    if not os.path.exists(ALLOWED_AXIOMS_FILE):
        return set()
    return {l.strip() for l in open(ALLOWED_AXIOMS_FILE) if l.strip() and not l.startswith('#')}


def proof_status(pid, extra_files=()):
    """Compile Props/<pid>.v afresh and read back Print Assumptions.

    Returns dict(theorems=[...], discharged=[...], failed=[...], assumptions={name: text},
                 cmd=..., log=...)"""
    files = ['Props/%s.v' % pid] + list(extra_files)
    theorems, discharged, failed, assumptions = [], [], [], {}
    logs = []
    cmds = []
    allowed = allowed_axioms()
    for rel in files:
        path = os.path.join(COQ, rel)
        if not os.path.exists(path):
            continue
        src = open(path).read()
        names = re.findall(r'Print Assumptions\s+([A-Za-z0-9_\.\']+)\s*\.', src)
        stated = re.findall(r'^(?:Theorem|Lemma|Corollary)\s+([A-Za-z0-9_\']+)', src, re.M)
        for s in stated:
            if s not in names:
                names.append(s)   # a theorem without Print Assumptions still is an obligation
        theorems += names
        cmd = 'timeout 600 coqc -Q . VL %s' % rel
        cmds.append('cd coq && ' + cmd)
        rc, out = sh(cmd, timeout=700, cwd=COQ)
        logs.append(out[-3000:])
        blocks = re.split(r'(?m)^(?=Closed under the global context|Axioms:)', out)
        blocks = [b for b in blocks if b.startswith('Closed under') or b.startswith('Axioms:')]
        printed = re.findall(r'Print Assumptions\s+([A-Za-z0-9_\.\']+)\s*\.', src)
        for i, n in enumerate(printed):
            if i < len(blocks):
                b = blocks[i].strip()
                assumptions[n] = b if len(b) < 600 else b[:600] + '...'
                if b.startswith('Closed under'):
                    discharged.append(n)
                else:
                    used = set(re.findall(r'(?m)^\s*([A-Za-z0-9_\.\']+)\s*:', b))
                    if used <= allowed:
                        discharged.append(n)
                    else:
                        failed.append(n)
            else:
                failed.append(n)
        for s in stated:
            if s not in printed:
                (discharged if rc == 0 else failed).append(s)
        if rc != 0:
            for n in names:
                if n not in discharged and n not in failed:
                    failed.append(n)
    return dict(theorems=theorems, discharged=discharged, failed=failed,
                assumptions=assumptions, cmd=' ; '.join(cmds), log='\n'.join(logs))


def sx_to_coq(v):
    if isinstance(v, int):
        return '(A (%d))' % v
    return '(L [%s])' % '; '.join(sx_to_coq(x) for x in v)


def kernel_crosscheck(pid, n):
    """Re-evaluate a sample of the cases the extracted OCaml model answered INSIDE Coq (vm_compute on the very definitions
    the theorems are about) and compare: extraction, the OCaml compiler and the driver's parser / printer are then not trusted
    blindly.  Returns (checked, ok, detail)."""
    sample = list(common.MODEL_SAMPLE)
    random.Random(7).shuffle(sample)
    sample = sample[:n]
    if not sample:
        return 0, True, 'no model cases in this run'
    items = []
    for line, outl in sample:
        u, _, rest = line.partition(' ')
        try:
            items.append('(%s, %s, %s)' % ('(%d)' % int(u), sx_to_coq(common.parse_sx(rest)), sx_to_coq(common.parse_sx(outl))))
        except Exception:   # noqa
            continue
    src = ('From Coq Require Import ZArith List Bool.\nFrom VL Require Import Prelude.Sx Prelude.GDict Model.Dispatch.\n'
           'Import ListNotations.\nOpen Scope Z_scope.\n'
           'Definition cases : list (Z * sx * sx) := [\n%s].\n'
           'Definition bad := filter (fun c => negb (sx_eqb (dispatch (fst (fst c)) (snd (fst c))) (snd c))) cases.\n'
           'Eval vm_compute in (length cases, length bad).\n' % ';\n'.join(items))
    path = os.path.join(COQ, 'cases_%s.v' % pid)
    open(path, 'w').write(src)
    try:
        rc, out = sh('timeout 600 coqc -Q . VL cases_%s.v' % pid, timeout=700, cwd=COQ)
    finally:
        for ext in ('.v', '.vo', '.vok', '.vos', '.glob'):
            try:
                os.remove(os.path.join(COQ, 'cases_%s%s' % (pid, ext)))
            except OSError:
                pass
        try:
            os.remove(os.path.join(COQ, '.cases_%s.aux' % pid))
        except OSError:
            pass
    m = re.search(r'=\s*\((\d+)%nat,\s*(\d+)%nat\)', out) or re.search(r'=\s*\((\d+),\s*(\d+)\)', out)
    if rc != 0 or not m:
        return len(items), False, 'coqc failed on the cross-check file: ' + out[-400:]
    total, badn = int(m.group(1)), int(m.group(2))
    return total, badn == 0, '%d of %d sampled cases evaluate differently inside Coq' % (badn, total)


def load_known():
    p = os.path.join(VERIF, 'known_findings.json')
    if not os.path.exists(p):
        return []
    return json.load(open(p))


def main():
    ap = argparse.ArgumentParser()
    ap.add_argument('pid')
    ap.add_argument('--tier', default=os.environ.get('VERIF_TIER', 'quick'))
    ap.add_argument('--replay')
    ap.add_argument('--no-build', action='store_true')
    args = ap.parse_args()
    pid = args.pid
    tier = args.tier if args.tier in ('quick', 'thorough') else 'quick'
    seed = int(os.environ.get('VERIF_SEED', '0') or 0)
    t0 = time.time()
    mod = importlib.import_module('props.%s' % pid.lower())

    # 1. build
    build_rc, build_out = (0, '') if args.no_build else build()
    build_ok = os.path.exists(common.DRIVER) and build_rc in (0, 3)
    ctx = Ctx(pid, tier, seed, mod)
    if not os.path.exists(common.DRIVER):
        ctx.broken('build', 'model build failed:\n' + build_out[-2000:])

    if args.replay:
        return replay(ctx, args.replay)

    # 2. proof status
    gen_status = {}
    gs = os.path.join(COQ, 'Gen', 'STATUS.json')
    if os.path.exists(gs):
        gen_status = json.load(open(gs))
    ctx.gen_status = gen_status
    extra = list(getattr(mod, 'EXTRA_PROOF_FILES', ()))
    for unit, tie_file in getattr(mod, 'GEN_TIES', {}).items():
        st = gen_status.get(unit, {})
        if st.get('status') == 'ok':
            extra.append(tie_file)
        else:
            # the translator does not accept the current source: fall back to the dense-grid
            # correspondence for this unit (DESIGN.md 2.1); the GenTie lemmas are not obligations then
            ctx.fallback.add(unit)
            ctx.notes.append('translator rejected %s (%s): tie = correspondence-fallback on a dense grid'
                             % (unit, json.dumps(st)[:300]))
    ps = proof_status(pid, extra)
    lint_bad = lint()
    ctx.ps = ps
    if lint_bad:
        ctx.broken('lint', 'forbidden constructs in the development: %s' % lint_bad[:5])
    for n in ps['failed']:
        ctx.broken('theorem:%s' % n, 'theorem %s no longer checks (or depends on a non-allowed axiom)\n%s'
                   % (n, ps['log'][-1500:]))

    # 3. exploration
    widen = 1
    if ctx.broken_items:
        widen = 4      # a proof/tie broke: widen the search for a concrete failing input
    try:
        mod.explore(ctx, widen)
    except Exception:   # noqa
        # the judging code itself fell over - on the unchanged tree this never happens, so the implementation handed back something
        # none of the oracles expects: the property is no longer shown to hold
        import traceback
        ctx.broken('exploration aborted (harness exception while judging the implementation)', traceback.format_exc()[-3000:])

    # 3b. extraction cross-check inside the kernel
    try:
        kc = kernel_crosscheck(pid, 40 if tier == 'quick' else 300)
    except Exception as e:   # noqa
        kc = (0, False, 'cross-check could not run: %r' % e)
    ctx.kernel_check = dict(cases=kc[0], agree=kc[1], detail=kc[2])
    if not kc[1]:
        ctx.broken('extraction', 'extracted model and in-Coq evaluation (vm_compute) disagree or the cross-check failed: %s' % kc[2])

    # 3c. thorough tier: independent re-check of the compiled cone with coqchk, axioms as it reports them
    if tier == 'thorough':
        mods = ['VL.Props.%s' % pid] + ['VL.' + f[:-2].replace('/', '.') for f in extra]
        rc, out = sh('timeout 1500 coqchk -silent -o -Q . VL %s' % ' '.join(mods), timeout=1600, cwd=COQ)
        m = re.search(r'\* Axioms:(.*?)\n\s*\n\* Constants/Inductives relying on type-in-type:(.*?)\n\s*\n\* Constants/Inductives relying on unsafe \(co\)fixpoints:(.*?)\n\s*\n\* Inductives whose positivity is assumed:(.*?)\n', out + '\n\n', re.S)
        if rc != 0 or not m:
            ctx.coqchk = dict(ok=False, output=out[-600:])
            ctx.broken('coqchk', 'coqchk did not accept the compiled development: %s' % out[-600:])
        else:
            fields = [' '.join(x.split()) for x in m.groups()]
            ctx.coqchk = dict(ok=True, modules=mods, axioms=fields[0], type_in_type=fields[1], unsafe_fixpoints=fields[2], assumed_positivity=fields[3])
            if fields[0] != '<none>':
                used = set(re.findall(r'([A-Za-z0-9_\.\']+)\s*:', fields[0])) or set(fields[0].split())
                if not used <= allowed_axioms():
                    ctx.broken('coqchk', 'coqchk reports axioms outside trusted_axioms.txt: %s' % fields[0])
            if fields[1:] != ['<none>'] * 3:
                ctx.broken('coqchk', 'coqchk reports switched-off checks: %s' % fields[1:])

    # 4/5. verdict + evidence
    return ctx.finish(t0)


class Ctx:
    """Collects cases, disagreements, violations, evidence for one run."""

    def __init__(self, pid, tier, seed, mod):
        self.pid, self.tier, self.seed, self.mod = pid, tier, seed, mod
        self.broken_items = []     # (what, text)
        self.violations = []       # dict(kind, case, impl, model, why)
        self.known_hits = collections.Counter()
        self.evaluations = 0
        self.nontrivial = set()
        self.samples = []
        self.dist = collections.Counter()
        self.streams = {}
        self.ps = None
        self.gen_status = {}
        self.notes = []
        self.disagreements = 0
        self.checker_false = 0
        self.exhaustive = False
        self.fallback = set()
        self.known = [k for k in load_known() if k.get('property') == pid and k.get('status') == 'known']
        self.rng = common.mk_rng(seed, pid)
        self.zero_labels = getattr(mod, 'ZERO_LABELS', False) if mod is not None else False      # True | set of stream names | False

    def broken(self, what, text):
        self.broken_items.append((what, text))

    def n(self, quick, thorough):
        return quick if self.tier == 'quick' else thorough

    # ---- generic differential run: cases -> model vs impl
    def differential(self, stream, cases, model_line, impl, canon=None, nontrivial=None,
                     spec=None, known_class=None, limit=5):
        """cases: list of JSON-able dicts.  model_line(case)->str ; impl(case)->wire string.
        canon(case, wire)->comparable ; spec(case, impl_wire, model_wire)->None or reason."""
        cases = list(cases)
        lines, kept = [], []
        for c in cases:
            try:
                lines.append(model_line(c))
                kept.append(c)
            except common.FloatLeak as e:
                # the case itself carries a float: it was derived from library output at generation time (a converter, a quota)
                self.evaluations += 1
                self.checker_false += 1
                self.violations.append(dict(stream=stream, case=json.loads(json.dumps(c, default=str)), impl=str(e), model='n/a',
                                            why='a float reached the harness through library output (%s): exact arithmetic is lost' % e))
        cases = kept
        mouts = common.run_model(lines)
        self._nd = 0
        for c, mo in zip(cases, mouts):
            self.evaluations += 1
            # a share of the cases is put to the implementation with candidates numbered from 0 (common.LABEL_MODE); a case that
            # was reported carries the mode with it (_labels), so that its replay asks the same question
            c, lm = self.pick_labels(stream, c)
            common.LABEL_MODE[0] = lm
            try:
                self._one(stream, c, mo, lines, impl, canon, nontrivial, spec, known_class, limit)
            finally:
                common.LABEL_MODE[0] = 'std'
        self.streams[stream] = dict(cases=len(cases), deviations=self._nd)

    def pick_labels(self, stream, c):
        """-> (case carrying its label mode, label mode): a share of the cases of the checks that opted in (ZERO_LABELS) is put to the
        implementation with candidates numbered from 0 or as opaque objects; a reported case keeps its mode (_labels) for the replay"""
        lm = c.get('_labels') or ({0: 'ints0', 1: 'objs', 2: 'fsets' if getattr(self.mod, 'FSET_LABELS', False) else 'std'}.get(int(common.case_hash({k: v for k, v in c.items() if not k.startswith('_')}), 16) % 6, 'std')
                                   if (self.zero_labels is True or (self.zero_labels and stream in self.zero_labels)) and stream != 'replay'
                                   and stream not in getattr(self.mod, 'NO_LABEL_STREAMS', ()) else 'std')
        if lm != 'std':
            c = dict(c, _labels=lm)
            self.dist['labels:' + lm] += 1
        return c, lm

    def _one(self, stream, c, mo, lines, impl, canon, nontrivial, spec, known_class, limit):
        if True:
            r = common.call_impl(lambda: impl(c), limit)
            if r[0] == 'ok':
                io = r[1]
            else:
                io = common.err(r[1])
                c = dict(c, _exc=r[2])
            self.dist['stream:' + stream] += 1
            if nontrivial is None or nontrivial(c):
                self.nontrivial.add(common.case_hash(c))
            if mo.startswith('(2') or mo.startswith('(3'):
                self.broken('harness', 'model rejected its input: %s -> %s' % (lines[0][:200], mo))
                return
            cm = canon(c, mo) if canon else mo
            ci = canon(c, io) if canon else io
            why = None
            if cm == ('unmodelled',):
                self.dist['unmodelled:' + stream] += 1      # outside the modelled fragment: not compared
            elif cm != ci:
                self.disagreements += 1
                why = 'implementation differs from the proved model (%s)' % stream
            if spec is not None:
                w2 = spec(c, io, mo)
                if w2:
                    self.checker_false += 1
                    why = w2
            if why:
                self._nd += 1
                self.report(stream, c, io, mo, why, known_class)
            elif len(self.samples) < 3 and (nontrivial is None or nontrivial(c)):
                self.samples.append(dict(stream=stream, case=c, impl=io, model=mo))

    def report(self, stream, case, io, mo, why, known_class=None):
        kid = known_class(case, io, mo) if known_class else None
        if kid and any(k['id'] == kid for k in self.known):
            self.known_hits[kid] += 1
            return
        self.violations.append(dict(stream=stream, case=case, impl=io, model=mo, why=why))

    # ---- verdict
    def finish(self, t0):
        pid = self.pid
        os.makedirs(os.path.join(VERIF, 'replays'), exist_ok=True)
        os.makedirs(os.path.join(VERIF, 'evidence'), exist_ok=True)
        lines = []
        rc = 0
        for kid, cnt in sorted(self.known_hits.items()):
            k = [k for k in self.known if k['id'] == kid][0]
            lines.append('KNOWN-FINDING: property=%s %s [%s] (%d cases this run)' % (pid, k['text'], kid, cnt))
        # known findings are also printed when their witness still reproduces (done by explore via corpus)
        if self.violations:
            rc = 1
            # smallest case first
            self.violations.sort(key=lambda v: len(json.dumps(v['case'], default=str)))
            v = self.violations[0]
            h = common.case_hash(v['case'])
            path = os.path.join(VERIF, 'replays', '%s-%s.json' % (pid, h))
            json.dump(dict(property=pid, kind='failing-input', seed=self.seed, tier=self.tier,
                           stream=v['stream'], case=v['case'], impl=v['impl'], model=v['model'],
                           why=v['why'], others=len(self.violations) - 1,
                           broken=[b[0] for b in self.broken_items],
                           replay_cmd='./check %s --replay %s' % (pid, path)),
                      open(path, 'w'), indent=1, default=str)
            lines.append('VIOLATION property=%s replay=%s' % (pid, path))
        elif self.broken_items:
            rc = 1
            what = self.broken_items[0][0]
            path = os.path.join(VERIF, 'replays', '%s-broken-%s.json' % (pid, re.sub(r'\W+', '_', what)))
            json.dump(dict(property=pid, kind='broken-obligation', seed=self.seed, tier=self.tier,
                           broken=[dict(what=w, detail=t) for w, t in self.broken_items],
                           searched=self.evaluations,
                           note='no failing input found among %d explored cases; the named theorem / tie no '
                                'longer checks, so the property is no longer shown to hold' % self.evaluations,
                           replay_cmd='./check %s --replay %s' % (pid, path)),
                      open(path, 'w'), indent=1, default=str)
            lines.append('VIOLATION property=%s replay=%s no-failing-input-found' % (pid, path))
        ps = self.ps or dict(theorems=[], discharged=[], failed=[], assumptions={}, cmd='', log='')
        level = getattr(self.mod, 'LEVEL', 'proof')
        cov = dict(
            obligations=len(ps['theorems']), discharged=len(ps['discharged']),
            checker_cmd=ps['cmd'] or 'n/a',
            trusted_base=getattr(self.mod, 'TRUSTED', []) + TRUSTED_COMMON,
            theorems=ps['theorems'], failed_theorems=ps['failed'],
            assumptions_printed=ps['assumptions'],
            tie=getattr(self.mod, 'TIE', {}), translator_status=self.gen_status, translator_fallback=sorted(self.fallback),
            evaluations=self.evaluations, distinct_nontrivial=len(self.nontrivial),
            rule=getattr(self.mod, 'RULE', ''), samples=self.samples[:3] or [dict(note='no sample')],
            input_distribution=dict(self.dist), streams=self.streams,
            model_vs_impl_disagreements=self.disagreements,
            spec_checker_false_on_impl=self.checker_false,
            partial=getattr(self.mod, 'PARTIAL', []),
            known_findings_hit=dict(self.known_hits),
            broken=[b[0] for b in self.broken_items], notes=self.notes,
            exhaustive=self.exhaustive,
            extraction_crosscheck=getattr(self, 'kernel_check', None),
            coqchk=getattr(self, 'coqchk', 'thorough tier only'),
        )
        if level == 'translation_validation':
            cov['programs'] = self.evaluations
            cov['disagreements_checked'] = self.disagreements + self.checker_false
        ev = dict(property_id=pid, tier=self.tier, seed=self.seed, level=level, coverage=cov,
                  assumptions=getattr(self.mod, 'ASSUMPTIONS', []) + [
                      'model = code only as far as the correspondence explored (and, for generated units, the translator)',
                      'CPython int/Fraction/Decimal arithmetic is exact'],
                  wall_s=round(time.time() - t0, 2), violations=len(self.violations) + (1 if (self.broken_items and not self.violations) else 0))
        json.dump(ev, open(os.path.join(VERIF, 'evidence', '%s.json' % pid), 'w'), indent=1, default=str)
        for l in lines:
            print(l)
        print('%s %s: %d cases, %d non-trivial, %d/%d obligations, %d deviations, %d known, %.1fs -> %s'
              % (pid, self.tier, self.evaluations, len(self.nontrivial), len(ps['discharged']),
                 len(ps['theorems']), len(self.violations), sum(self.known_hits.values()),
                 time.time() - t0, 'FAIL' if rc else 'ok'))
        return rc


TRUSTED_COMMON = [
    'Coq 8.16.1 kernel (coqc; coqchk in the thorough tier); vm_compute used in closed-term lemmas; no native_compute',
    'extraction: Require Extraction + ExtrOcamlBasic only (Extract Inductive bool/option/unit/list/prod/sumbool/sumor); Z/positive/Q stay extracted inductives; ocamlfind ocamlopt 4.13.1; a random sample of the cases of every run is re-evaluated inside Coq with vm_compute and compared (coverage.extraction_crosscheck)',
    'ocaml/driver.ml: s-expression reader/printer, decimal<->binary conversion through zarith',
    'harness/: case generation, encoding of Python values as wire values, canonicalisation, exception enum',
    'tools/py2v.py translator and Prelude/PyNum.v reading of CPython numerics (generated units only)',
]


def replay(ctx, path):
    d = json.load(open(path))
    if d.get('kind') == 'broken-obligation':
        ps = proof_status(ctx.pid, getattr(ctx.mod, 'EXTRA_PROOF_FILES', ()))
        bad = ps['failed']
        print('replay: obligations failing now: %s' % bad)
        if bad or True:
            # re-run the quick exploration: is the tie still broken?
            rc = subprocess.call([sys.executable, os.path.abspath(__file__), ctx.pid, '--tier', 'quick'])
            return rc
    case = d['case']
    ctx.mod.replay(ctx, case, d.get('stream'))
    if ctx.violations:
        v = ctx.violations[0]
        print('replay: still failing: %s\n impl=%s\n model=%s' % (v['why'], v['impl'], v['model']))
        print('VIOLATION property=%s replay=%s' % (ctx.pid, path))
        return 1
    print('replay: case passes on the current tree')
    return 0


if __name__ == '__main__':
    sys.exit(main())
