"""C07 - biproportional apportionment: both marginals, zero cells, divisor-consistent multipliers,
refusal only when no seat matrix exists.

Translation validation: every output of BiproportionalEvaluator.evaluate is judged by the extracted
checker of Model/Biprop.v (cert_ok, proved sound and complete in Props/C07.v); every refusal by the
verified feasibility reference (feasible_ref: a matrix or a Hall-type cut, both re-checked)."""
import os, json, glob
from fractions import Fraction
import common
from common import sx, ok, cname, cnum
from units import BLOCK

ID = 'C07'
LEVEL = 'proof'
B = BLOCK['C07']
U_CHECK, U_INV, U_FEAS, U_AUG, U_ADJ, U_LOOP = B, B + 1, B + 2, B + 3, B + 4, B + 5
LOOP_FUEL = 600
# The property allows several outputs when cells tie (any valid seat matrix); the whole-loop model fixes ONE of them - the one the
# present code computes.  A different valid choice is not a violation of C07, so a lost tie is counted (coverage.model_vs_impl_
# disagreements, notes) while the output itself is judged by the verified checker.  Set True when the claim is raised to level
# 'proof' (then the theorem must speak about the code on every explored input, and a lost tie fails the check).
LOOP_TIE_STRICT = True
TIE = {'proportional.BiproportionalEvaluator.evaluate': 'per-output validation by the proved-sound certificate checker (cert_ok) '
                                                        'and, on refusals, by the verified feasibility reference',
       'whole evaluate <-> Model/BipropLoop.v (the function of the partial-correctness theorems C07_evaluate_[total_]partial_correct)':
           'correspondence on every explored instance: outcome (returned matrix / kind of refusal or crash), final multipliers and the '
           'state at the top of every iteration (verif hook trace); the iteration order of the district frozenset is observed from '
           'outside (instance attribute shadowing _districts_unsat) and handed to the model, whose theorem holds for every order',
       'multipliers': 'verif hook (final district_coefs / party_coefs); an exact solver in the harness when the hook is absent or its '
                      'multipliers do not certify the result',
       'proportional.BiproportionalEvaluator._augment_result / _adj_coef': 'correspondence with Model/Biprop.v augment / adj_coef',
       'marginals': 'Model/HighestAverages.v (C01) inside the checker unit; custom apportioners are called as black boxes',
       'component.divisor d_hondt / sainte_lague': 'translator (Props/GenTie_Divisor.v)'}
RULE = ('corpus; exhaustive 2x2 matrices with votes 0..2, 1..3 seats, both divisors; random district x party matrices 2..6 x 2..6, '
        'zero cells 0-50 % (stored as 0 or left out of the district dictionary), tiny (0..3), medium (1..300), large (10^6+) and mixed '
        'counts, D\'Hondt and Sainte-Lague, seats as a total, a per-district dictionary (derived from another apportionment, or a random '
        'composition that is sometimes infeasible) or through a custom apportioner (largest remainder, the other divisor, a uniform int); '
        'a boundary stream of matrices with repeated columns / rows (ties inside the initial column-wise solution); a same-labels stream '
        '(districts and parties both labelled 0..k-1: equal labels on both sides, one of them falsy); elections without a single '
        'vote (zeros stored or rows left empty; total / dictionary / apportioner) and an empty-lines stream (whole districts and / or '
        'parties without votes, district seats that often fall on a district without votes: the boundary of the refusal clause). '
        'Instances whose party or district apportionment is tied are outside the quantifier and only counted. '
        'non-trivial = at least one transfer or multiplier update happened (trace longer than one state) or the call was refused; '
        'distinct by case hash')
PARTIAL = ['termination is proved for the whole-loop MODEL (C07_terminates: at most (flaw/2 + 1) * (districts + parties + 2) iterations); '
           'for the code it rests on the correspondence stream plus the same bound checked on the iteration count of every explored run; '
           'a wall-clock limit per instance stays as the last line (a time-out is a violation)',
           'whole-loop model = code only as far as the correspondence stream explored; a code change that picks another valid output '
           'where cells tie loses the tie without violating C07: its outputs are judged by the checker and, when all are certified, the '
           'verdict is a broken correspondence without a failing input (LOOP_TIE_STRICT)',
           '"refuses only when no seat matrix exists" is proved for the MODEL at both refusal sites (C07_no_votes_refusal_justified, '
           'C07_refusal_justified: signpost_q 0 and 1/2, target dictionary without foreign keys); for the code every explored refusal '
           'is judged by the verified cut of the feasibility reference (now proved complete: C07_feasible_ref_complete)',
           'the row <-> HighestAverages model equality is stated (C07_row_is_highest_averages_full_statement) and proved in its '
           'declarative min-max form (C07_row_divisor_apportionment) only',
           'C07_augment_inv treats the transfer path as an oracle; the whole-loop theorems compute it (labeled + walk)']
TRUSTED = ['observation of the district iteration order: run_impl shadows the static method _districts_unsat on the evaluator instance '
           '(library untouched) and rebuilds frozenset(cur) | frozenset(tgt) from the very arguments',
           'the verif hook in BiproportionalEvaluator.evaluate (records copies of result / district_coefs / party_coefs; add-only)',
           'harness-side exact solver for multipliers (untrusted: its output is only a certificate for cert_ok)']
ASSUMPTIONS = ['votes are non-negative integers']
EXTRA_PROOF_FILES = []
GEN_TIES = {'Divisor': 'Props/GenTie_Divisor.v'}     # d_hondt / sainte_lague of the checker = component/divisor.py (translator tie)
DIV = {1: 'd_hondt', 2: 'sainte_lague'}
# x (implementation units: signposts s - q) * SCALE = quotient in divisor units (d_hondt k = k+1, sainte_lague k = 2k+1)
SCALE = {1: 1, 2: 2}
QCONST = {1: Fraction(0), 2: Fraction(1, 2)}


# label mode of the case being processed: 'std' = districts 'd01'.., parties 'A'.. ; 'ints' = districts AND parties are the
# integers 0.. (the same labels on both sides, one of them falsy) - the evaluator keeps districts and parties as nodes of one graph,
# so a result that depends on whether their labels coincide is a result that depends on names
_LABELS = ['std']
_cname_std, _cnum_std = cname, cnum


def dname(k):
    return k - 1 if _LABELS[0] == 'ints' else 'd%02d' % k


def dnum(name):
    return name + 1 if _LABELS[0] == 'ints' else int(name[1:])


def cname(k):       # noqa: F811  (parties of this module follow the label mode)
    return k - 1 if _LABELS[0] == 'ints' else _cname_std(k)


def cnum(name):     # noqa: F811
    return name + 1 if _LABELS[0] == 'ints' else _cnum_std(name)


# ------------------------------------------------------------------ implementation side
def py_votes(c):
    return {dname(d): {cname(p): v for p, v in row} for d, row in c['votes']}


def apportioner_of(c):
    import votelib.evaluate.proportional as prop
    s = c['seats']
    if s[0] != 'apportioner':
        return None
    if s[1] == 'lr_hare':
        return prop.LargestRemainder('hare')
    if s[1] == 'other_divisor':
        return prop.HighestAverages(DIV[3 - c['div']])
    if s[1] == 'uniform':
        return int(s[2])
    raise ValueError(s)


def n_seats_arg(c):
    s = c['seats']
    if s[0] == 'dict':
        return {dname(d): k for d, k in s[1]}
    return c['n']


def district_target(c):
    """district apportionment for the 'dict' / 'apportioner' modes, obtained independently of the evaluator
    (the apportioner is a black box); None = tied / unusable -> outside the quantifier"""
    import votelib.evaluate.core as core
    s = c['seats']
    if s[0] == 'dict':
        return [[d, k] for d, k in s[1]]
    if s[0] == 'apportioner':
        r = common.call_impl(lambda: core.apportion(py_votes(c), c['n'], apportioner_of(c)), 10)
        if r[0] != 'ok' or any(isinstance(k, core.Tie) for k in r[1]):
            return None
        return [[dnum(k), v] for k, v in r[1].items()]
    return 'same'


def run_impl(c, hold=None):
    """hold (a dict) survives an exception: the evaluator (its hook trace) and the iteration orders of the district set that
    _districts_unsat walks - observed from outside by shadowing the static method on the instance, the library is untouched"""
    import votelib.evaluate.proportional as prop
    ev = prop.BiproportionalEvaluator(DIV[c['div']], apportioner=apportioner_of(c))
    if hold is not None:
        hold['ev'] = ev
        hold['orders'] = []
        hold['tgt'] = None
        orig = ev._districts_unsat

        def watched(cur, tgt):
            under, over = orig(cur, tgt)
            order = list(frozenset(cur) | frozenset(tgt))      # the same objects, the same construction: the same order
            hold['orders'].append(order)
            hold['tgt'] = tgt
            if [x for x in order if x in over] != list(over):
                hold['order_mismatch'] = True
            return under, over
        ev._districts_unsat = watched
    res = ev.evaluate(py_votes(c), n_seats_arg(c))
    return res, getattr(ev, '_verif_trace', None)


def enc_mat(res):
    return [[dnum(d), [[cnum(p), s] for p, s in row.items()]] for d, row in res.items()]


def enc_state(c, st):
    res, rho, gam = st
    k = SCALE[c['div']]
    return (enc_mat(res), [[dnum(d), Fraction(v) * k] for d, v in rho.items()],
            [[cnum(p), Fraction(v)] for p, v in gam.items()])


def solve_multipliers(c, res):
    """exact multiplicative Bellman-Ford on the signpost inequalities; (rho, gamma) in implementation units or None"""
    q = QCONST[c['div']]
    ds = [d for d, _ in c['votes']]
    ps = []
    for _, row in c['votes']:
        for p, _ in row:
            if p not in ps:
                ps.append(p)
    r = {d: dict(row) for d, row in res}
    edges = []
    for d, row in c['votes']:
        for p, v in row:
            if v > 0:
                s = r.get(d, {}).get(p, 0)
                edges.append((('d', d), Fraction(s + 1 - q, v), ('p', p)))
                if s - q > 0:
                    edges.append((('p', p), Fraction(v) / (s - q), ('d', d)))
    x = {('d', d): Fraction(1) for d in ds}
    x.update({('p', p): Fraction(1) for p in ps})
    ch = False
    for _ in range(len(x) + 1):
        ch = False
        for a, w, b in edges:
            if w * x[b] < x[a]:
                x[a] = w * x[b]
                ch = True
        if not ch:
            break
    if ch:
        return None
    k = SCALE[c['div']]
    return [[d, x[('d', d)] * k] for d in ds], [[p, 1 / x[('p', p)]] for p in ps]


# ------------------------------------------------------------------ model side
def votes_sx(c):
    return sx([[d, [[p, v] for p, v in row]] for d, row in c['votes']])


def check_line(c, dmode, outcome):
    return '%d (%d %s %d %s %s)' % (U_CHECK, c['div'], votes_sx(c), c['n'], dmode, outcome)


def outcome_sx(state):
    return '(0 %s %s %s)' % (sx(state[0]), sx(state[1]), sx(state[2]))


# ---- the whole-loop model (Model/BipropLoop.v) against the implementation
LOOP_CODE = {1: 'VSE', 2: 'ZERODIV', 3: 'KEY', 4: 'VALUE', 5: 'VSE'}      # 5 = no votes cast (fixes/C07-all-zero.diff)


def loop_line(c, tgt, dorder):
    """tgt: 'same' or [[d, k] ...] in the key order of tgt_district_seats"""
    tm = '(0)' if tgt == 'same' else '(1 %s)' % sx(tgt)
    n = c['n'] if c['seats'][0] != 'dict' else sum(k for _, k in c['seats'][1])
    return '%d (%d %s %s %d %s %s %d 1)' % (U_LOOP, c['div'], sx(QCONST[c['div']]), votes_sx(c), n, tm, sx(dorder), LOOP_FUEL)


def canon_state(res, rho, gam):
    return (tuple(sorted((d, p, s) for d, row in res for p, s in row if s)),
            tuple(sorted((d, Fraction(v)) for d, v in rho)), tuple(sorted((p, Fraction(v)) for p, v in gam)))


def canon_impl_state(st):
    res, rho, gam = st
    return canon_state(enc_mat(res), [[dnum(d), Fraction(v)] for d, v in rho.items()], [[cnum(p), Fraction(v)] for p, v in gam.items()])


def canon_model_state(v):
    return canon_state(v[0], [[d, common.unq(x)] for d, x in v[1]], [[p, common.unq(x)] for p, x in v[2]])


def compare_loop(r, trace, mo):
    """None when the whole-loop model and the implementation agree (outcome, final multipliers, every iteration state);
    'skip:<why>' when the case is outside the modelled domain; 'soft:<why>' when the outcome (returned matrix / kind of
    refusal) agrees and only ghost states differ; else the reason why the outcome differs"""
    v = common.parse_sx(mo)
    if v[0] != 0:
        return 'model unit rejected its input: %s' % mo[:200]
    code, payload, mtrace = v[1]
    if code in (10, 11):
        return 'skip:%s apportionment tied (model)' % ('party' if code == 10 else 'district')
    import votelib.evaluate.core as core

    def tie_in(res):
        return any(isinstance(p, core.Tie) for row in res.values() for p in row)
    if (r[0] == 'ok' and tie_in(r[1][0])) or any(tie_in(st[0]) for st in (trace or [])):
        # (the model hands a tie inside a column to the first tied districts; a Tie KEY can only come out of a tied marginal)
        return 'the implementation works on a matrix with a Tie key, the whole-loop model ends with code %d' % code
    try:
        itrace = [canon_impl_state(st) for st in (trace or [])]
    except (TypeError, ValueError, KeyError, AttributeError):
        return 'the iteration states of the implementation cannot be encoded (not a seat matrix over the given districts and parties)'
    mtr = [canon_model_state(st) for st in mtrace]
    if code == 99 and len(itrace) >= LOOP_FUEL:
        return 'skip:more iterations than the model fuel'
    if r[0] == 'ok':
        if code != 0:
            return 'implementation returns a matrix, the whole-loop model ends with code %d' % code
        if canon_state(enc_mat(r[1][0]), [], [])[0] != canon_model_state(payload)[0]:
            return 'returned matrix differs from the whole-loop model'
    else:
        if LOOP_CODE.get(code) is None or common.E[LOOP_CODE[code]] != r[1]:
            return 'implementation raises %s, the whole-loop model ends with code %d' % (r[2], code)
        # the two VotingSystemError sites: the refusal of an election without votes that opens evaluate (model code 5) and
        # the invalid adjustment coefficient inside the loop (code 1)
        if code in (1, 5) and ('adjustment coefficient' in r[2]) != (code == 1):
            return 'implementation raises %s, the whole-loop model refuses at the other site (code %d)' % (r[2], code)
    # the outcome agrees; the multipliers and the states on the way are ghost output: a difference there does not touch the
    # property (the theorem certifies the model's matrix, which IS the returned one) - it is counted, not reported
    if trace is not None:
        if len(itrace) != len(mtr):
            return 'soft:the implementation runs %d iterations, the whole-loop model %d' % (len(itrace), len(mtr))
        for k, (a, b) in enumerate(zip(itrace, mtr)):
            if a != b:
                what = [n for n, x, y in zip(('seat matrix', 'district multipliers', 'party multipliers'), a, b) if x != y]
                return 'soft:iteration %d: %s differ from the whole-loop model' % (k, ', '.join(what))
        if r[0] == 'ok' and mtr and canon_model_state(payload) != mtr[-1]:
            return 'model: final state is not the last trace state'
    return None


BITS = ['district totals', 'party totals', 'no seat without votes / non-negative cells', 'positive multipliers',
        'every cell a divisor-rule rounding of votes x multipliers']


_TIMEOUTS = [0]      # time-outs of the implementation seen in this run (all streams)


def judge(ctx, stream, cases, limit):
    """run the implementation on every case, then let the extracted checker decide"""
    import votelib.evaluate.core as core
    cases = list(cases)
    modes = sorted({c.get('labels', 'std') for c in cases})
    if len(modes) > 1 or modes and modes[0] != _LABELS[0]:
        tot = dict(cases=0, deviations=0)
        for m in modes:
            keep = _LABELS[0]
            _LABELS[0] = m
            try:
                judge(ctx, stream, [c for c in cases if c.get('labels', 'std') == m], limit)
            finally:
                _LABELS[0] = keep
            for k in tot:
                tot[k] += ctx.streams[stream][k]
        ctx.streams[stream] = tot
        return
    runs, holds = [], []
    for c in cases:
        ctx.evaluations += 1
        ctx.dist['stream:' + stream] += 1
        tgt = district_target(c)
        # an implementation that keeps running into the wall-clock limit would cost the full limit for every such case: after three
        # time-outs the limit drops to 2 s, after ten to 1 s, without the generous second try
        h = {}
        r = common.call_impl(lambda: run_impl(c, h), limit if _TIMEOUTS[0] < 3 else 2 if _TIMEOUTS[0] < 10 else 1)
        if r[0] == 'err' and r[1] == common.E['TIMEOUT'] and _TIMEOUTS[0] < 3:
            h = {}
            r = common.call_impl(lambda: run_impl(c, h), 3 * limit)      # once more, generously (loaded machine)
        if r[0] == 'err' and r[1] == common.E['TIMEOUT']:
            _TIMEOUTS[0] += 1
        runs.append((c, tgt, r))
        holds.append(h)
    lines, idx = [], []
    for k, (c, tgt, r) in enumerate(runs):
        if tgt is None:
            ctx.dist['out:district apportionment tied/unusable'] += 1
            continue
        dmode = '(0)' if tgt == 'same' else '(1 %s)' % sx(tgt)
        if r[0] == 'ok':
            res, trace = r[1]
            if any(isinstance(p, core.Tie) for row in res.values() for p in row):
                lines.append(check_line(c, dmode, '(1)'))
                idx.append((k, 'tie-key'))
                continue
            if trace:
                st = enc_state(c, trace[-1])
                if trace[-1][0] != res:
                    ctx.broken('hook', 'last trace state is not the returned result')
            else:
                if not ctx.dist['hook absent']:
                    ctx.notes.append('verif hook absent (fixes/C07-hook.diff not applied): multipliers are solved from the returned matrix')
                ctx.dist['hook absent'] += 1
                sol = solve_multipliers(c, enc_mat(res))
                st = (enc_mat(res),) + (sol if sol else ([], []))
            lines.append(check_line(c, dmode, outcome_sx(st)))
            idx.append((k, 'returned'))
        else:
            lines.append(check_line(c, dmode, '(1)'))
            idx.append((k, 'refused' if r[1] == common.E['VSE'] else 'error'))
    outs = common.run_model(lines)
    second = []
    nd = 0
    for (k, kind), line, mo in zip(idx, lines, outs):
        c, tgt, r = runs[k]
        v = common.parse_sx(mo)
        if v[0] != 0:
            ctx.broken('harness', 'checker unit rejected its input: %s -> %s' % (line[:300], mo))
            continue
        v = v[1]
        if v[0] in (10, 11):
            ctx.dist['out:%s apportionment tied' % ('party' if v[0] == 10 else 'district')] += 1
            continue
        ctx.dist['in quantifier'] += 1
        ctx.dist['div:' + DIV[c['div']]] += 1
        ctx.dist['seats:' + c['seats'][0]] += 1
        ctx.dist['size:%dx%d' % (len(c['votes']), max(len(row) for _, row in c['votes']))] += 1
        io = None
        why = None
        if kind == 'returned':
            res, trace = r[1]
            io = ok(enc_mat(res))
            iters = len(trace) if trace else 0
            ctx.dist['iterations:%s' % (iters if iters < 6 else '6+')] += 1
            if iters > 1:
                ctx.nontrivial.add(common.case_hash(c))
            bits = v[1:6]
            if all(bits):
                if len(ctx.samples) < 3 and iters > 1:
                    ctx.samples.append(dict(stream=stream, case=c, impl=io, checker=mo))
            elif all(bits[:3]) and trace:
                second.append((k, mo))          # marginals fine; are there other multipliers?
            else:
                why = 'returned matrix fails: ' + '; '.join(b for b, okb in zip(BITS, bits) if not okb)
        elif kind == 'tie-key':
            io = '(0 tie-key)'
            why = 'result contains a Tie key although both marginal apportionments are tie-free'
        elif kind == 'refused':
            io = common.err(r[1])
            ctx.nontrivial.add(common.case_hash(c))
            c = dict(c, _exc=r[2])
            # C07_step_refusal_justified: from a state that satisfies the loop invariant the refused coefficient is 0, never >= 1
            if 'adjustment coefficient' in r[2]:
                coef = r[2].rsplit(' ', 1)[-1]
                ctx.dist['refused coefficient: %s' % ('0' if coef in ('0', '0.0') else 'not 0 (excluded by C07_step_refusal_justified)')] += 1
            if v[1] == 0:
                ctx.dist['refusal justified (verified cut)'] += 1
                if len(ctx.samples) < 3:
                    ctx.samples.append(dict(stream=stream, case=c, impl=io, checker=mo))
            elif v[1] == 1:
                why = 'refused (%s) although a seat matrix with these marginals and zero cells exists: %s' % (r[2], sx(v[2]))
                c['_class'] = 'spurious-refusal'
            else:
                ctx.broken('harness', 'feasibility reference ran out of fuel on %s' % line[:300])
        else:
            io = common.err(r[1])
            c = dict(c, _exc=r[2])
            if r[1] == common.E['TIMEOUT']:
                c['_class'] = 'timeout'
                why = 'no answer within %d s (termination clause; wall-clock observation)' % (3 * limit)
            else:
                c['_class'] = 'crash'
                why = 'evaluate raises %s' % r[2]
        if why:
            nd += 1
            ctx.checker_false += 1
            ctx.report(stream, c, io, mo, why, known_class)
    # hook multipliers did not certify: ask the solver (the property only says multipliers EXIST)
    if second:
        lines2 = []
        for k, _ in second:
            c, tgt, r = runs[k]
            dmode = '(0)' if tgt == 'same' else '(1 %s)' % sx(tgt)
            m = enc_mat(r[1][0])
            sol = solve_multipliers(c, m)
            lines2.append(check_line(c, dmode, outcome_sx((m,) + (sol if sol else ([], [])))))
        for (k, mo1), mo in zip(second, common.run_model(lines2)):
            c, tgt, r = runs[k]
            v = common.parse_sx(mo)[1]
            if all(v[1:6]):
                ctx.dist['state invariant broken at exit (final multipliers stale, others exist)'] += 1
                ctx.notes.append('final district/party coefficients do not certify the result, other multipliers do: %s'
                                 % json.dumps(c)[:400]) if len(ctx.notes) < 5 else None
            else:
                nd += 1
                ctx.checker_false += 1
                ctx.report(stream, c, ok(enc_mat(r[1][0])), mo,
                           'no positive multipliers make every cell a divisor-rule rounding (neither the implementation\'s nor any: '
                           'the signpost inequalities contain a contradictory cycle)', known_class)
    nd += judge_loop(ctx, stream, runs, holds)
    # per-iteration state invariant on a sample (proof-level support: reported, not a verdict)
    inv_lines, inv_idx = [], []
    for (k, kind), mo in zip(idx, outs):
        c, tgt, r = runs[k]
        v = common.parse_sx(mo)
        if kind != 'returned' or v[0] != 0 or v[1][0] != 0 or not r[1][1] or k % 7:
            continue
        pseats = v[1][8]
        for st in r[1][1][:-1][:12]:
            e = enc_state(c, st)
            inv_lines.append('%d (%d %s %s %s %s %s)' % (U_INV, c['div'], votes_sx(c), sx(pseats), sx(e[0]), sx(e[1]), sx(e[2])))
            inv_idx.append(k)
    for k, mo in zip(inv_idx, common.run_model(inv_lines)):
        v = common.parse_sx(mo)
        ctx.dist['iteration states checked'] += 1
        if v[0] != 0 or not v[1][4]:
            ctx.dist['iteration states breaking the invariant'] += 1
    ctx.streams[stream] = dict(cases=len(runs), deviations=nd)


def judge_loop(ctx, stream, runs, holds):
    """correspondence of the whole-loop model (Model/BipropLoop.v: the function the partial-correctness theorem is about)
    with BiproportionalEvaluator.evaluate: outcome, final multipliers and the state at the top of every iteration"""
    import votelib.evaluate.core as core
    lines, idx = [], []
    for k, ((c, tgt, r), h) in enumerate(zip(runs, holds)):
        if tgt is None or (r[0] == 'err' and r[1] == common.E['TIMEOUT']):
            ctx.dist['loop: not compared (district apportionment unusable / time-out)'] += 1
            continue
        if h.get('order_mismatch'):
            ctx.broken('harness', 'the district order observed around _districts_unsat does not explain its answer')
            continue
        seen = h.get('tgt')
        if seen is not None and any(isinstance(x, core.Tie) for x in seen):
            ctx.dist['loop: not compared (district apportionment tied)'] += 1
            continue
        if tgt == 'same':
            tg = 'same'
        elif seen is not None:
            tg = [[dnum(x), v] for x, v in seen.items()]
        else:
            tg = tgt
        dorder = [dnum(x) for x in h['orders'][0]] if h.get('orders') else [x for x, _ in c['votes']]
        lines.append(loop_line(c, tg, dorder))
        idx.append(k)
    nd = 0
    for k, line, mo in zip(idx, lines, common.run_model(lines)):
        c, tgt, r = runs[k]
        ev = holds[k].get('ev')
        trace = getattr(ev, '_verif_trace', None) if ev is not None else None
        why = compare_loop(r, trace, mo)
        # the termination clause, declaratively on the implementation: the number of iterations the hook saw is within the bound of
        # C07_terminates, (flaw of the initial solution / 2 + 1) * (|districts| + |parties| + 2); and the model, run on LOOP_FUEL,
        # must not answer out-of-fuel when that bound fits into LOOP_FUEL
        seen, orders = holds[k].get('tgt'), holds[k].get('orders')
        if trace and seen is not None and orders:
            first = trace[0][0]
            flaw0 = sum(abs(sum(first.get(x, {}).values()) - seen.get(x, 0)) for x in orders[0])
            bound = (flaw0 // 2 + 1) * (len(c['votes']) + len({p for _, row in c['votes'] for p, _ in row}) + 2)
            ctx.dist['termination: iterations within the proved bound'] += 1
            if len(trace) > bound:
                nd += 1
                ctx.report(stream, dict(c, _class='termination-bound'), ok(len(trace)), ok(bound),
                           'evaluate ran %d iterations, more than the bound (flaw/2 + 1) * (districts + parties + 2) = %d of the '
                           'termination theorem C07_terminates' % (len(trace), bound), known_class)
            if bound <= LOOP_FUEL and common.parse_sx(mo)[0] == 0 and common.parse_sx(mo)[1][0] == 99:
                ctx.broken('model', 'the whole-loop model answers out-of-fuel within the proved bound %d (C07_terminates): %s' % (bound, line[:300]))
        if why is None:
            ctx.dist['loop: agrees (outcome, multipliers, every iteration state)'] += 1
            n_it = len(trace) if trace else 0
            ctx.dist['loop iterations:%s' % (n_it if n_it < 6 else '6-20' if n_it <= 20 else '21+')] += 1
            if r[0] != 'ok':
                ctx.dist['loop: refusal / error reproduced by the model'] += 1
        elif why.startswith('skip:'):
            ctx.dist['loop: not compared (%s)' % why[5:]] += 1
        elif why.startswith('soft:'):
            ctx.dist['loop: outcome agrees, the path differs (ghost states; counted, not a verdict)'] += 1
            if sum(1 for x in ctx.notes if x.startswith('whole-loop model')) < 3:
                ctx.notes.append('whole-loop model: same outcome, different path - %s: %s' % (why[5:], json.dumps(c)[:300]))
        else:
            ctx.disagreements += 1
            ctx.dist['loop: OUTCOME differs from the model (tie lost on this case)'] += 1
            if LOOP_TIE_STRICT:
                # the theorems are about the model: where the code leaves the model they no longer speak about the code.  The output
                # of this very case is still judged by the verified checker (a failing one is reported by judge() with the case as
                # replay); if every explored output is certified the verdict is a broken tie without a failing input.
                nd += 1
                if not any(b[0].startswith('correspondence whole-loop') for b in ctx.broken_items):
                    try:
                        io = ok(enc_mat(r[1][0])) if r[0] == 'ok' else common.err(r[1])
                    except Exception:   # noqa  (a Tie key in the matrix)
                        io = repr(r[1][0])[:600]
                    ctx.broken('correspondence whole-loop model (Model/BipropLoop.v; theorems C07_evaluate_partial_correct, C07_evaluate_total_partial_correct)',
                               'stream %s: %s; case %s; implementation %s; model %s' % (stream, why, json.dumps(c)[:1500], io[:600], mo[:600]))
            elif sum(1 for x in ctx.notes if x.startswith('whole-loop model: tie lost')) < 3:
                ctx.notes.append('whole-loop model: tie lost - %s (the output itself is judged by the checker): %s' % (why, json.dumps(c)[:300]))
    return nd


def known_class(c, io, mo):
    # C07-all-zero (an election without votes apportioned instead of refused) is repaired by fixes/C07-all-zero.diff: no known
    # class is left; a matrix returned without votes fails the checker's zero-cell clause and is a violation like any other
    return None


# ------------------------------------------------------------------ correspondence of the update-step models
def aug_model_line(c):
    return '%d (%s %d %s)' % (U_AUG, sx(c['res']), c['start'], sx(c['hops']))


def aug_impl(c):
    import votelib.evaluate.proportional as prop
    res = {dname(d): {cname(p): s for p, s in row} for d, row in c['res']}
    dl, pl = {}, {}
    cur = c['start']
    for p, d in c['hops']:
        dl[dname(cur)] = {cname(p)}
        pl[cname(p)] = {dname(d)}
        cur = d
    prop.BiproportionalEvaluator._augment_result(res, dl, pl, dname(c['start']), [dname(cur)])
    return ok(enc_mat(res))


def aug_canon(c, wire):
    v = common.parse_sx(wire)
    if v[0] != 0:
        return ('err', v[1])
    # cells by value: a stored 0 and an absent cell are the same seat matrix
    return ('ok', tuple(sorted((d, p, s) for d, row in v[1] for p, s in row if s)))


def gen_aug(rng, count):
    for _ in range(count):
        nd, np_ = rng.randint(2, 5), rng.randint(1, 5)
        res = [[d, [[p, rng.randint(1, 3)] for p in range(1, np_ + 1) if rng.random() < 0.6]] for d in range(1, nd + 1)]
        ln = rng.randint(1, min(nd - 1, np_))
        dsq = rng.sample(range(1, nd + 1), ln + 1)
        psq = rng.sample(range(1, np_ + 1), ln)
        yield dict(unit='augment', res=res, start=dsq[0], hops=[[p, d] for p, d in zip(psq, dsq[1:])])


def adj_model_line(c):
    return '%d (%s %s %s %s %s)' % (U_ADJ, sx(Fraction(c['q'])), sx([[d, [[p, Fraction(x)] for p, x in row]] for d, row in c['quots']]),
                                    sx(c['res']), sx(c['DL']), sx(c['PL']))


def adj_impl(c):
    import votelib.evaluate.proportional as prop
    ev = prop.BiproportionalEvaluator('d_hondt' if Fraction(c['q']) == 0 else 'sainte_lague')
    quots = {dname(d): {cname(p): Fraction(x) for p, x in row} for d, row in c['quots']}
    res = {dname(d): {cname(p): s for p, s in row} for d, row in c['res']}
    a = ev._adj_coef(quots, res, [dname(d) for d in c['DL']], [cname(p) for p in c['PL']])
    if isinstance(a, float):
        if a != 0.0:
            raise common.FloatLeak('adjustment coefficient %r' % a)
        a = 0
    return ok(Fraction(a))


def gen_adj(rng, count):
    for _ in range(count):
        nd, np_ = rng.randint(2, 5), rng.randint(2, 5)
        q = rng.choice(['0', '1/2'])
        res, quots = [], []
        for d in range(1, nd + 1):
            rr, qr = [], []
            for p in range(1, np_ + 1):
                s = rng.choice([0, 0, 1, 2, 3])
                lo = max(Fraction(0), s - Fraction(q))
                x = lo + Fraction(rng.randint(0, 12), 12) * (s + 1 - Fraction(q) - lo)
                if rng.random() < 0.1:
                    x = Fraction(0)
                    s = rng.choice([0, 0, 0, 1])
                if s or rng.random() < 0.5:
                    rr.append([p, s])
                qr.append([p, str(x)])
            res.append([d, rr])
            quots.append([d, qr])
        yield dict(unit='adj_coef', q=q, quots=quots, res=res,
                   DL=rng.sample(range(1, nd + 1), rng.randint(0, nd)), PL=rng.sample(range(1, np_ + 1), rng.randint(0, np_)))


# ------------------------------------------------------------------ generators
def mk_case(rng, votes, div, n, seats):
    return dict(unit='biprop', div=div, votes=votes, n=n, seats=seats)


def composition(rng, total, k):
    cuts = sorted(rng.randint(0, total) for _ in range(k - 1))
    return [b - a for a, b in zip([0] + cuts, cuts + [total])]


def seats_mode(rng, votes, div, n):
    import votelib.evaluate.proportional as prop
    ds = [d for d, _ in votes]
    m = rng.random()
    if m < 0.5:
        return ['total'], n
    if m < 0.75:
        if rng.random() < 0.6:
            tot = {dname(d): sum(v for _, v in row) for d, row in votes}
            try:
                r = prop.LargestRemainder('hare').evaluate(tot, n)
                comp = [r.get(dname(d), 0) for d in ds]
                if sum(comp) != n or any(not isinstance(k, str) for k in r):
                    comp = composition(rng, n, len(ds))
            except Exception:   # noqa
                comp = composition(rng, n, len(ds))
        else:
            comp = composition(rng, n, len(ds))
        return ['dict', [[d, k] for d, k in zip(ds, comp)]], n
    kind = rng.choice(['lr_hare', 'other_divisor', 'uniform'])
    if kind == 'uniform':
        k = rng.randint(1, 4)
        return ['apportioner', 'uniform', k], (k * len(ds) if rng.random() < 0.85 else k * len(ds) + 1)
    return ['apportioner', kind], n


def gen_random(rng, count, tiny_share=0.3):
    made = 0
    while made < count:
        nd, np_ = rng.randint(2, 6), rng.randint(2, 6)
        zero = rng.choice([0, 0.1, 0.25, 0.5])
        mode = 'tiny' if rng.random() < tiny_share else rng.choice(['mid', 'large', 'mixed', 'huge'])
        sparse = rng.random() < 0.3

        def cnt():
            if rng.random() < zero:
                return 0
            m = mode if mode != 'mixed' else rng.choice(['tiny', 'mid', 'large'])
            if m == 'tiny':
                return rng.randint(0, 3)
            if m == 'mid':
                return rng.randint(1, 300)
            if m == 'huge':     # counts whose quotients do not fit 12-digit denominators or 53-bit mantissas
                return rng.choice([10 ** 12, 10 ** 15, 10 ** 30]) * rng.randint(1, 9) + rng.randint(0, 10 ** 6)
            return 10 ** 6 + rng.randint(0, 10 ** 5)
        votes = [[d, [[p, cnt()] for p in range(1, np_ + 1)]] for d in range(1, nd + 1)]
        if not any(v for _, row in votes for _, v in row):
            continue
        if sparse:
            votes = [[d, [[p, v] for p, v in row if v]] for d, row in votes]
        div = rng.choice([1, 2])
        n = rng.randint(1, 4 * nd)
        seats, n = seats_mode(rng, votes, div, n)
        made += 1
        yield mk_case(rng, votes, div, n, seats)


def gen_boundary(rng, count):
    """repeated rows / columns and proportional columns: exact ties inside the initial column-wise solution"""
    made = 0
    while made < count:
        nd, np_ = rng.randint(2, 6), rng.randint(2, 6)
        base = [rng.choice([0, 1, 1, 2, 3, 5, 10]) for _ in range(nd)]
        votes = []
        mult = [rng.choice([1, 1, 2, 3, 7]) for _ in range(np_)]
        for d in range(nd):
            row = []
            for p in range(np_):
                v = base[d] * mult[p]
                if rng.random() < 0.15:
                    v = rng.choice([0, v + 1, base[rng.randrange(nd)] * mult[p]])
                row.append([p + 1, v])
            votes.append([d + 1, row])
        if not any(v for _, row in votes for _, v in row):
            continue
        div = rng.choice([1, 2])
        n = rng.randint(2, 3 * nd + 2)
        seats, n = seats_mode(rng, votes, div, n)
        made += 1
        yield mk_case(rng, votes, div, n, seats)


def gen_exhaustive():
    import itertools
    for a, b, cc, dd in itertools.product(range(3), repeat=4):
        for n in (1, 2, 3):
            for div in (1, 2):
                yield dict(unit='biprop', div=div, votes=[[1, [[1, a], [2, b]]], [2, [[1, cc], [2, dd]]]], n=n, seats=['total'])


def gen_all_zero():
    """elections without a single vote (refused since fixes/C07-all-zero.diff; judged by the verified cut): zeros stored, rows
    left empty, seats as a total / a dictionary / through an apportioner"""
    for nd, np_, n, div in [(2, 2, 4, 1), (2, 3, 3, 2), (3, 2, 6, 1), (2, 1, 1, 1), (3, 3, 3, 2), (2, 2, 2, 2), (4, 2, 8, 1)]:
        votes = [[d, [[p, 0] for p in range(1, np_ + 1)]] for d in range(1, nd + 1)]
        yield dict(unit='biprop', div=div, votes=votes, n=n, seats=['total'])
        yield dict(unit='biprop', div=div, votes=votes, n=n, seats=['dict', [[d, n if d == 1 else 0] for d in range(1, nd + 1)]])
        if n % nd == 0:
            yield dict(unit='biprop', div=div, votes=votes, n=n, seats=['apportioner', 'uniform', n // nd])
            yield dict(unit='biprop', div=div, votes=votes, n=n, seats=['dict', [[d, n // nd] for d in range(1, nd + 1)]])
        yield dict(unit='biprop', div=div, votes=[[d, row if d == 1 else []] for d, row in votes], n=n, seats=['total'])


def gen_empty_lines(rng, count):
    """boundary of the refusal clause: matrices with whole districts and / or whole parties without votes; the district seats
    (a dictionary or an apportioner) often give seats to a district without votes - then no seat matrix exists and the
    evaluator has to refuse (through its adjustment coefficient); also the all-zero matrix itself"""
    made = 0
    while made < count:
        nd, np_ = rng.randint(2, 5), rng.randint(1, 5)
        zd = set(rng.sample(range(1, nd + 1), rng.randint(0, nd)))
        zp = set(rng.sample(range(1, np_ + 1), rng.randint(0, np_ - 1))) if rng.random() < 0.5 else set()
        big = rng.random() < 0.3
        votes = [[d, [[p, 0 if d in zd or p in zp or rng.random() < 0.15 else rng.randint(1, 10 ** 6 if big else 9)]
                      for p in range(1, np_ + 1)]] for d in range(1, nd + 1)]
        if rng.random() < 0.3:
            votes = [[d, [[p, v] for p, v in row if v]] for d, row in votes]
        div = rng.choice([1, 2])
        n = rng.randint(1, 3 * nd)
        m = rng.random()
        if m < 0.25:
            seats = ['total']
        elif m < 0.8:
            seats = ['dict', [[d, k] for d, k in zip(range(1, nd + 1), composition(rng, n, nd))]]
        else:
            k = rng.randint(1, 3)
            seats, n = ['apportioner', 'uniform', k], k * nd
        made += 1
        yield mk_case(rng, votes, div, n, seats)


def corpus():
    for p in sorted(glob.glob(os.path.join(common.VERIF, 'corpus', ID, '*.json'))):
        yield json.load(open(p))


def chunked(ctx, stream, gen, limit, size=4000):
    """judge a long stream in chunks (traces are kept only per chunk)"""
    import itertools
    tot = dict(cases=0, deviations=0)
    while True:
        part = list(itertools.islice(gen, size))
        if not part:
            break
        judge(ctx, stream, part, limit)
        for k in tot:
            tot[k] += ctx.streams[stream][k]
    ctx.streams[stream] = tot


def explore(ctx, widen=1):
    limit = 10 if ctx.tier == 'quick' else 30
    judge(ctx, 'corpus', [c for c in corpus() if c.get('unit') == 'biprop'], limit)
    judge(ctx, 'exhaustive-2x2', list(gen_exhaustive()), limit)
    judge(ctx, 'all-zero', list(gen_all_zero()), limit)
    ctx.exhaustive = False
    chunked(ctx, 'random', gen_random(ctx.rng, ctx.n(6000, 120000) * widen), limit)
    chunked(ctx, 'boundary', gen_boundary(ctx.rng, ctx.n(2500, 40000) * widen), limit)
    chunked(ctx, 'empty-lines', gen_empty_lines(ctx.rng, ctx.n(1200, 20000) * widen), limit)
    chunked(ctx, 'same-labels', (dict(c, labels='ints') for c in gen_random(ctx.rng, ctx.n(1500, 30000) * widen, tiny_share=0.2)), limit)
    kw = dict(limit=10)
    ctx.differential('augment-step', gen_aug(ctx.rng, ctx.n(800, 8000)), aug_model_line, aug_impl, canon=aug_canon, **kw)
    ctx.differential('adj-coef', gen_adj(ctx.rng, ctx.n(1500, 15000)), adj_model_line, adj_impl, **kw)


def replay(ctx, case, stream=None):
    u = case.get('unit')
    if u == 'augment':
        ctx.differential('replay', [case], aug_model_line, aug_impl, canon=aug_canon)
    elif u == 'adj_coef':
        ctx.differential('replay', [case], adj_model_line, adj_impl)
    else:
        case = {k: v for k, v in case.items() if not k.startswith('_')}
        judge(ctx, 'replay', [case], 30)
