"""C18 - the broad purity sweep: every public evaluator / converter / validator / calculator /
subsetter / scorer / transferer class found by introspection of the votelib package.

Implementation-side oracle (a TEST, not a proof):
  * deep, ORDER-SENSITIVE fingerprints of every argument before and after each call,
  * a history of other inputs on the shared object and of other objects of the library, then the probe
    input again: the answer must equal the answer of a fresh object (and, for a sample, of a fresh
    process), and must be the same when asked twice,
  * fingerprints of the constructor arguments, of every module-level object of the package and of
    every function default before / after the whole run.

Every case is identified by (target, seed): all inputs are regenerated from random.Random(seed), so
a replay file needs nothing else.
"""
import os, sys, ast, json, random, inspect, importlib, pkgutil, subprocess, types
from fractions import Fraction
from decimal import Decimal

if __name__ == '__main__':
    sys.path.insert(0, os.path.dirname(os.path.dirname(os.path.abspath(__file__))))
import common

CANDS = ['A', 'B', 'C', 'D', 'E']
METHODS = ('evaluate', 'convert', 'validate', 'calculate', 'subset', 'scores', 'subtract', 'transfer')


# ---------------------------------------------------------------- fingerprints / canonical results
def fp(x, memo=None):
    """deep structural fingerprint, sensitive to dict insertion order, list order, types, aliasing"""
    if memo is None:
        memo = {}
    if x is None or isinstance(x, (bool, int, str, bytes)):
        return (type(x).__name__, x)
    if isinstance(x, float):
        return ('float', repr(x))
    if isinstance(x, (Fraction, Decimal)):
        return (type(x).__name__, str(x))
    i = id(x)
    if i in memo:
        return ('ref', memo[i])
    memo[i] = len(memo)
    if isinstance(x, dict):
        extra = ()
        if hasattr(x, 'default_factory'):
            extra = (getattr(x.default_factory, '__qualname__', repr(x.default_factory)),)
        return ('dict', type(x).__name__, extra, tuple((fp(k, memo), fp(v, memo)) for k, v in x.items()))
    if isinstance(x, (list, tuple)):
        return (type(x).__name__, tuple(fp(y, memo) for y in x))
    if isinstance(x, (set, frozenset)):
        return (type(x).__name__, tuple(sorted((fp(y, memo) for y in x), key=repr)))
    if isinstance(x, (types.FunctionType, types.BuiltinFunctionType, types.MethodType, type, types.ModuleType)):
        return ('named', getattr(x, '__qualname__', getattr(x, '__name__', '?')))
    if type(x).__name__ == 'partial':
        return ('partial', fp(x.func, memo), fp(x.args, memo), fp(x.keywords, memo))
    d = getattr(x, '__dict__', None)
    if d is not None:
        return ('obj', type(x).__qualname__, tuple(sorted(((k, fp(v, memo)) for k, v in d.items()), key=lambda kv: kv[0])))
    return ('opaque', type(x).__qualname__)


def cstr(x):
    """canonical text of a result: what the property compares (dict / set order is not part of it)"""
    if x is None or isinstance(x, (bool, int, str)):
        return repr(x)
    if isinstance(x, float):
        return 'float:' + repr(x)
    if isinstance(x, Fraction):
        return '%d/%d' % (x.numerator, x.denominator) if x.denominator != 1 else repr(x.numerator)
    if isinstance(x, Decimal):
        return 'D' + str(x)
    if isinstance(x, dict):
        return '{' + ', '.join(sorted('%s: %s' % (cstr(k), cstr(v)) for k, v in x.items())) + '}'
    if isinstance(x, (set, frozenset)):
        return type(x).__name__ + '(' + ', '.join(sorted(cstr(y) for y in x)) + ')'
    if isinstance(x, list):
        return '[' + ', '.join(cstr(y) for y in x) + ']'
    if isinstance(x, tuple):
        return '(' + ', '.join(cstr(y) for y in x) + ')'
    return repr(x)


def show(x):
    """like cstr but keeps dictionary insertion order (a reordering is a mutation too)"""
    if isinstance(x, dict):
        return '{' + ', '.join('%s: %s' % (show(k), show(v)) for k, v in x.items()) + '}'
    if isinstance(x, list):
        return '[' + ', '.join(show(y) for y in x) + ']'
    if isinstance(x, tuple):
        return '(' + ', '.join(show(y) for y in x) + ')'
    return cstr(x)


def outcome(fn, limit=5):
    r = common.call_impl(fn, limit)
    if r[0] == 'ok':
        return ('ok', cstr(r[1]))
    return ('err', common.E_NAME.get(r[1], str(r[1])))


# ---------------------------------------------------------------- well-typed input generators
def wt(rng, big=False):
    if big and rng.random() < 0.1:
        return 10 ** 20 + rng.randint(0, 5)
    return rng.choice([rng.randint(1, 9), rng.randint(1, 9), rng.randint(10, 200), 1, 5])


def g_cands(rng, lo=2, hi=5):
    return rng.sample(CANDS, rng.randint(lo, hi))


def g_simple(rng, cands=None, zero=True):
    cands = cands or g_cands(rng)
    d = {c: wt(rng, True) for c in cands}
    if zero and rng.random() < 0.15:
        d[rng.choice(cands)] = 0
    if rng.random() < 0.3 and len(cands) > 1:
        a, b = rng.sample(cands, 2)
        d[a] = d[b]
    if rng.random() < 0.1:
        d = {c: Fraction(v, 2) for c, v in d.items()}
    return d


def g_approval(rng, cands=None):
    cands = cands or g_cands(rng, 2, 4)
    out = {}
    for _ in range(rng.randint(1, 5)):
        out[frozenset(rng.sample(cands, rng.randint(1, len(cands))))] = wt(rng)
    return out


def g_ranked_ballot(rng, cands, shared=0.2):
    perm = cands[:]
    rng.shuffle(perm)
    if rng.random() < 0.4:
        perm = perm[:rng.randint(1, len(perm))]
    b, i = [], 0
    while i < len(perm):
        if rng.random() < shared and i + 1 < len(perm):
            b.append(frozenset(perm[i:i + 2]))
            i += 2
        else:
            b.append(perm[i])
            i += 1
    return tuple(b)


def g_ranked(rng, cands=None, shared=0.2):
    cands = cands or g_cands(rng, 2, 5)
    out = {}
    for _ in range(rng.randint(1, 6)):
        out[g_ranked_ballot(rng, cands, shared)] = wt(rng)
    return out


def g_score(rng, cands=None):
    cands = cands or g_cands(rng, 2, 4)
    out = {}
    for _ in range(rng.randint(1, 5)):
        cs = rng.sample(cands, rng.randint(1, len(cands)))
        out[frozenset((c, rng.randint(0, 5)) for c in cs)] = rng.randint(1, 4)
    return out


def g_pairwise(rng, cands=None):
    cands = cands or g_cands(rng, 2, 5)
    out = {}
    for i, a in enumerate(cands):
        for b in cands[i + 1:]:
            x, y = rng.randint(0, 9), rng.randint(0, 9)
            if rng.random() < 0.2:
                y = x
            out[(a, b)] = x
            out[(b, a)] = y
    if rng.random() < 0.45 and len(out) > 2:
        # sparse dictionaries (a pair nobody ranked, a unanimous contest): evaluators that complete the pairs
        # must do so on a copy, never in the caller's dictionary
        keys = list(out)
        for k in rng.sample(keys, rng.randint(1, len(keys) - 1)):
            del out[k]
    return out


def g_nested(rng, inner=g_simple, cands=None):
    cands = cands or g_cands(rng, 2, 4)
    return {k: inner(rng, cands) for k in ['N', 'S', 'W'][:rng.randint(2, 3)]}


def g_gains(rng, cands, hi=2):
    return {c: rng.randint(0, hi) for c in rng.sample(cands, rng.randint(0, len(cands)))}


def g_caps(rng, cands):
    return {c: rng.randint(1, 4) for c in rng.sample(cands, rng.randint(0, len(cands)))}


def dist_kwargs(rng, cands, nested=None):
    """prev_gains / max_seats: explicit dictionaries (sometimes empty), or left to the shared defaults"""
    kw = {}
    if rng.random() < 0.6:
        kw['prev_gains'] = ({k: g_gains(rng, cands, 1) for k in nested if rng.random() < 0.7} if nested else g_gains(rng, cands, 1))
    if rng.random() < 0.4:
        kw['max_seats'] = ({k: g_caps(rng, cands) for k in nested if rng.random() < 0.7} if nested else g_caps(rng, cands))
    return kw


# argument kinds: rng -> (args, kwargs)
def a_sel_simple(rng):
    v = g_simple(rng)
    return (v, rng.randint(1, len(v))), {}


def a_sel_simple_default(rng):
    v = g_simple(rng)
    return ((v,), {}) if rng.random() < 0.3 else ((v, rng.randint(1, len(v))), {})


def a_seatless_simple(rng):
    return (g_simple(rng),), {}


def a_dist_simple(rng):
    v = g_simple(rng, zero=False)
    return (v, rng.randint(1, 12)), dist_kwargs(rng, list(v))


def a_dist_simple_noseats(rng):
    v = g_simple(rng, zero=False)
    return (v,), dist_kwargs(rng, list(v))


def a_dist_simple_noseats_mixed(rng):
    """simple votes whose counts may be Fractions / Decimals (refusal paths of evaluators that round with the decimal module)"""
    (v,), kw = a_dist_simple_noseats(rng)
    if rng.random() < 0.5:
        k = rng.choice(list(v))
        if isinstance(v[k], int):
            v[k] = rng.choice([Fraction(v[k]) + Fraction(1, 3), Decimal(v[k]) + Decimal('0.5')])
    return (v,), kw


def a_calc(rng):
    v = g_simple(rng, zero=False)
    kw = {}
    if rng.random() < 0.4:
        kw['max_seats'] = g_caps(rng, list(v))
    return (v, rng.randint(3, 12), g_gains(rng, list(v) + ['IND'], 3)), kw


def a_sel_approval(rng):
    v = g_approval(rng)
    n_c = len(set().union(*v))
    return (v, rng.randint(1, n_c)), {}


def a_sel_ranked(rng):
    v = g_ranked(rng)
    return (v, rng.randint(1, 3)), {}


def a_sel_ranked_plain(rng):
    v = g_ranked(rng, shared=0)
    return (v, rng.randint(1, 2)), {}


def a_dist_ranked(rng):
    v = g_ranked(rng)
    cands = sorted({c for b in v for r in b for c in (r if isinstance(r, frozenset) else [r])})
    return (v, rng.randint(1, 3)), dist_kwargs(rng, cands)


def a_sel_score(rng):
    v = g_score(rng)
    return (v, rng.randint(1, 2)), {}


def a_dist_score(rng):
    v = g_score(rng)
    cands = sorted({c for b in v for c, _ in b})
    return (v, rng.randint(1, 3)), dist_kwargs(rng, cands)


def a_sel_pairwise(rng):
    v = g_pairwise(rng)
    return (v, rng.randint(1, 3)), {}


def a_seatless_pairwise(rng):
    return (g_pairwise(rng),), {}


def a_nested_dist(rng):
    cands = g_cands(rng, 2, 4)
    v = g_nested(rng, lambda r, c: g_simple(r, c, zero=False), cands)
    return (v, rng.randint(2, 12)), dist_kwargs(rng, cands, nested=list(v))


def a_nested_dist_dictseats(rng):
    cands = g_cands(rng, 2, 4)
    v = g_nested(rng, lambda r, c: g_simple(r, c, zero=False), cands)
    seats = {k: rng.randint(1, 5) for k in v}
    return (v, seats), dist_kwargs(rng, cands, nested=list(v))


def a_nested_noseats(rng):
    cands = g_cands(rng, 2, 4)
    v = g_nested(rng, lambda r, c: g_simple(r, c, zero=False), cands)
    return (v,), dist_kwargs(rng, cands, nested=list(v))


def a_nested_calc(rng):
    cands = g_cands(rng, 2, 4)
    v = g_nested(rng, lambda r, c: g_simple(r, c, zero=False), cands)
    return (v, rng.randint(6, 14), {k: g_gains(rng, cands + ['IND'], 2) for k in v}), {}


def a_conv(gen):
    return lambda rng: ((gen(rng),), {})


def a_openlist(rng):
    cands = g_cands(rng, 2, 5)
    v = g_simple(rng, cands)
    lst = cands[:]
    rng.shuffle(lst)
    return (v, rng.randint(1, len(cands)), lst), {}


def a_subsetted(gen):
    def f(rng):
        cands = g_cands(rng, 3, 5)
        return (gen(rng, cands), rng.sample(cands, rng.randint(1, len(cands)))), {}
    return f


def a_subset_vote(kind):
    def f(rng):
        cands = g_cands(rng, 3, 5)
        sub = rng.sample(cands, rng.randint(1, len(cands)))
        if kind == 'simple':
            return (rng.choice(cands), sub), {}
        if kind == 'approval':
            return (frozenset(rng.sample(cands, rng.randint(1, len(cands)))), sub), {}
        if kind == 'ranked':
            return (g_ranked_ballot(rng, cands), sub), {}
        return (frozenset((c, rng.randint(0, 5)) for c in rng.sample(cands, rng.randint(1, len(cands)))), sub), {}
    return f


def a_validate(kind):
    def f(rng):
        cands = g_cands(rng, 2, 5)
        if kind == 'simple':
            return (rng.choice(cands + [None]),), {}
        if kind == 'approval':
            return (frozenset(rng.sample(cands, rng.randint(0, len(cands)))),), {}
        if kind == 'ranked':
            return (g_ranked_ballot(rng, cands, 0.3),), {}
        return (frozenset((c, rng.randint(0, 7)) for c in rng.sample(cands, rng.randint(0, len(cands)))),), {}
    return f


def people(rng):
    import votelib.candidate as cd
    parties = [cd.PoliticalParty('P%d' % i, number=i, properties={'minority': i % 2 == 0}) for i in range(1, 4)]
    persons = [cd.Person('Q%d' % i, number=10 - i, candidacy_for=rng.choice(parties + [None]), membership=rng.choice(parties + [None]))
               for i in range(1, rng.randint(3, 6))]
    return parties, persons


def a_person_votes(rng):
    _, persons = people(rng)
    return ({p: wt(rng) for p in persons},), {}


def a_person_sel(rng):
    _, persons = people(rng)
    return ({p: wt(rng) for p in persons}, rng.randint(1, 2)), {}


def a_person_result(rng):
    _, persons = people(rng)
    return (rng.sample(persons, rng.randint(1, len(persons))),), {}


def a_party_votes(rng):
    import votelib.candidate as cd
    parties, _ = people(rng)
    opts = parties + [cd.Coalition(parties[:2], number=7)]
    return ({p: wt(rng) for p in rng.sample(opts, rng.randint(2, len(opts)))},), {}


def a_nominate(rng):
    import votelib.candidate as cd
    parties, persons = people(rng)
    return (rng.choice(parties + persons + ['A', cd.Coalition(parties[:2]), cd.NoneOfTheAbove('NOTA'), cd.ReopenNominations('RON')]),), {}


def a_scores(rng):
    return (rng.randint(0, 6),), {}


def a_allocation(rng, second):
    cands = g_cands(rng, 3, 5)
    alloc = {}
    for c in cands[:rng.randint(2, len(cands))]:
        pile = {}
        for _ in range(rng.randint(1, 3)):
            rest = [x for x in cands if x != c]
            rng.shuffle(rest)
            pile[(c,) + tuple(rest[:rng.randint(0, len(rest))])] = rng.randint(1, 9)
        alloc[c] = pile
    if rng.random() < 0.3:
        alloc[None] = {(cands[-1],): 2}
    held = [c for c in alloc if c is not None]
    if second == 'elected':
        return (alloc, {c: rng.randint(1, 4) for c in rng.sample(held, rng.randint(0, len(held)))}), {}
    return (alloc, rng.sample(held, rng.randint(1, max(1, len(held) - 1)))), {}


def a_partylist(rng, with_list_votes=True):
    import votelib.candidate as cd
    parties = ['P1', 'P2', 'P3']
    v = {p: wt(rng) + 5 for p in parties}
    lists = {p: ['%s-%d' % (p, i) for i in range(1, 5)] for p in parties}
    kw = dict(party_lists=lists)
    if with_list_votes and rng.random() < 0.6:
        kw['list_votes'] = {p: {c: wt(rng) for c in lists[p]} for p in parties}
    return (v, rng.randint(2, 7)), kw


def a_merge_dist(rng):
    cands = g_cands(rng, 2, 4)
    d = {k: g_gains(rng, cands, 3) for k in ['N', 'S', 'W'][:rng.randint(1, 3)]}
    return ((d if rng.random() < 0.6 else list(d.values())),), {}


def a_merge_sel(rng):
    cands = g_cands(rng, 3, 5)
    d = {k: rng.sample(cands, rng.randint(1, 2)) for k in ['N', 'S', 'W'][:rng.randint(1, 3)]}
    return ((d if rng.random() < 0.6 else list(d.values())),), {}


def a_selection(rng):
    cands = g_cands(rng, 2, 5)
    return (cands,), {}


def a_thr_prev(rng):
    v = g_simple(rng)
    return (v, g_gains(rng, list(v), 2)), {}


def a_thr_alt(rng):
    v = g_simple(rng)
    return ((v,), {'prev_gains': g_gains(rng, list(v), 2)}) if rng.random() < 0.5 else ((v,), {})


def a_biprop(rng):
    cands = g_cands(rng, 2, 3)
    v = {k: {c: rng.randint(20, 300) for c in cands} for k in ['N', 'S']}
    return (v, rng.randint(3, 8)), {}


def _biprop_seat_map(rng):
    """seats per district as a dictionary the caller owns; a small district may be left out (it is due no seat)"""
    n = rng.randint(2, 4)
    t = rng.choice([None, None, 0, 1])
    m = {'N': n, 'S': 6 - n - (t or 0)}          # six seats in all
    if t is not None:
        m['T'] = t
    return m


def a_biprop_dict(rng):
    cands = g_cands(rng, 2, 3)
    v = {k: {c: rng.randint(20, 300) for c in cands} for k in ['N', 'S']}
    v['T'] = {c: rng.randint(1, 9) for c in cands}
    return (v, _biprop_seat_map(rng)), {}


def a_biprop_total(rng):
    cands = g_cands(rng, 2, 3)
    v = {k: {c: rng.randint(20, 300) for c in cands} for k in ['N', 'S']}
    v['T'] = {c: rng.randint(1, 9) for c in cands}
    return (v, 6), {}


# ---------------------------------------------------------------- recipes
class Stub:
    """a stage / inner evaluator with a fixed answer (fresh copy per call)"""
    def __init__(self, answer):
        self.answer = answer

    def evaluate(self, votes, n_seats=None, prev_gains={}, max_seats={}):
        import copy
        return copy.deepcopy(self.answer)


def recipes():
    """qualified class name -> list of (label, ctor(rng) -> object | (object, ctor_data), method, argkind, flags)"""
    import votelib.candidate as cd, votelib.vote as vv, votelib.convert as cv
    import votelib.component.rankscore as rs, votelib.component.transfer as tr
    import votelib.evaluate.core as core, votelib.evaluate.proportional as prop, votelib.evaluate.approval as ap
    import votelib.evaluate.auxiliary as aux, votelib.evaluate.cardinal as card, votelib.evaluate.condorcet as cond
    import votelib.evaluate.openlist as ol, votelib.evaluate.sequential as seq, votelib.evaluate.threshold as thr
    R = {}

    def add(cls, label, ctor, method, args, **flags):
        R.setdefault(cls.__module__ + '.' + cls.__qualname__, []).append((label, ctor, method, args, flags))

    ha = lambda rng: prop.HighestAverages(rng.choice(['d_hondt', 'sainte_lague', 'imperiali']))
    # --- candidate / vote
    add(cd.BasicNominator, 'default', lambda r: cd.BasicNominator(r.random() < 0.5), 'validate', a_nominate)
    add(cd.PersonNominator, 'default', lambda r: cd.PersonNominator(r.random() < 0.5, r.random() < 0.5), 'validate', a_nominate)
    add(cd.PartyNominator, 'default', lambda r: cd.PartyNominator(r.random() < 0.5, r.random() < 0.5), 'validate', a_nominate)
    add(vv.SimpleVoteValidator, 'default', lambda r: vv.SimpleVoteValidator(), 'validate', a_validate('simple'))
    add(vv.ApprovalVoteValidator, 'bounds', lambda r: vv.ApprovalVoteValidator((r.choice([None, 1]), r.choice([None, 2, 3]))), 'validate', a_validate('approval'))
    add(vv.RankedVoteValidator, 'bounds', lambda r: vv.RankedVoteValidator((r.choice([None, 1]), r.choice([None, 3])), r.choice([(1, 1), (1, 2)])), 'validate', a_validate('ranked'))
    add(vv.RankedVoteValidator, 'keyed', lambda r: _given(lambda g: vv.RankedVoteValidator(rank_vote_count_bounds=g), {0: (1, 1), 1: (1, 2)}), 'validate', a_validate('ranked'), ctor_data=True)
    add(vv.ScoreVoteValidator, 'bounds', lambda r: vv.ScoreVoteValidator((r.choice([None, 1]), r.choice([None, 3])), sum_bounds=(None, r.choice([None, 9]))), 'validate', a_validate('score'))
    add(vv.RangeVoteValidator, 'range', lambda r: vv.RangeVoteValidator(range=(0, r.choice([3, 5]))), 'validate', a_validate('score'))
    add(vv.EnumScoreVoteValidator, 'levels', lambda r: _given(lambda g: vv.EnumScoreVoteValidator(g), [0, 1, 2, 3, 5]), 'validate', a_validate('score'), ctor_data=True)
    add(vv.SimpleSubsetter, 'default', lambda r: vv.SimpleSubsetter(), 'subset', a_subset_vote('simple'))
    add(vv.ApprovalSubsetter, 'default', lambda r: vv.ApprovalSubsetter(), 'subset', a_subset_vote('approval'))
    add(vv.RankedSubsetter, 'default', lambda r: vv.RankedSubsetter(), 'subset', a_subset_vote('ranked'))
    add(vv.ScoreSubsetter, 'default', lambda r: vv.ScoreSubsetter(), 'subset', a_subset_vote('score'))
    # --- rank scorers / transferers
    add(rs.Borda, 'set', lambda r: _borda(rs, r), 'scores', a_scores)
    add(rs.Dowdall, 'default', lambda r: rs.Dowdall(), 'scores', a_scores)
    add(rs.Geometric, 'base', lambda r: rs.Geometric(r.choice([2, 3])), 'scores', a_scores)
    add(rs.ModifiedBorda, 'default', lambda r: rs.ModifiedBorda(), 'scores', a_scores)
    add(rs.FixedTop, 'top', lambda r: rs.FixedTop(r.randint(1, 5)), 'scores', a_scores)
    add(rs.SequenceBased, 'seq', lambda r: _given(lambda g: rs.SequenceBased(g), [5, 3, 1]), 'scores', a_scores, ctor_data=True)
    add(tr.Gregory, 'subtract', lambda r: tr.Gregory(), 'subtract', lambda r: a_allocation(r, 'elected'))
    add(tr.Gregory, 'transfer', lambda r: tr.Gregory(), 'transfer', lambda r: a_allocation(r, 'cands'))
    add(tr.Hare, 'subtract', lambda r: tr.Hare(seed=r.randint(0, 5)), 'subtract', lambda r: a_allocation(r, 'elected'))
    add(tr.Hare, 'transfer', lambda r: tr.Hare(seed=r.randint(0, 5)), 'transfer', lambda r: a_allocation(r, 'cands'))
    add(tr.Hare, 'unseeded', lambda r: tr.Hare(), 'subtract', lambda r: a_allocation(r, 'elected'), random=True)
    # --- converters
    add(cv.ApprovalToSimpleVotes, 'split', lambda r: cv.ApprovalToSimpleVotes(r.random() < 0.5), 'convert', a_conv(g_approval))
    add(cv.ByConstituency, 'inverted', lambda r: cv.ByConstituency(cv.InvertedSimpleVotes()), 'convert', a_conv(g_nested))
    add(cv.ByConstituency, 'positional', lambda r: cv.ByConstituency(cv.RankedToPositionalVotes(rs.Borda())), 'convert',
        a_conv(lambda r: g_nested(r, lambda rr, c: g_ranked(rr, c))))
    add(cv.Chain, 'ranked', lambda r: _given(lambda g: cv.Chain(g), [cv.RankedToFirstPreference(), cv.InvertedSimpleVotes()]), 'convert',
        a_conv(lambda r: g_ranked(r, shared=0)), ctor_data=True)
    add(cv.ConstituencyTotals, 'default', lambda r: cv.ConstituencyTotals(), 'convert', a_conv(g_nested))
    add(cv.GroupVotesByParty, 'default', lambda r: cv.GroupVotesByParty(), 'convert', a_person_votes)
    add(cv.IndividualToPartyResult, 'default', lambda r: cv.IndividualToPartyResult(), 'convert', a_person_result)
    add(cv.IndividualToPartyVotes, 'default', lambda r: cv.IndividualToPartyVotes(), 'convert', a_person_votes)
    add(cv.IndividualToPartyVotes, 'membership', lambda r: cv.IndividualToPartyVotes(cd.IndividualToPartyMapper('membership', r.choice(['aggregate', 'keep', 'ignore']))), 'convert', a_person_votes)
    add(cv.InvalidVoteEliminator, 'approval', lambda r: cv.InvalidVoteEliminator(vv.ApprovalVoteValidator((1, r.choice([1, 2])))), 'convert', a_conv(g_approval))
    add(cv.InvalidVoteEliminator, 'ranked', lambda r: cv.InvalidVoteEliminator(vv.RankedVoteValidator((1, r.choice([2, 3])))), 'convert', a_conv(g_ranked))
    add(cv.InvalidVoteEliminator, 'all-valid', lambda r: cv.InvalidVoteEliminator(vv.SimpleVoteValidator()), 'convert', a_conv(g_simple))
    add(cv.InvertedApprovalVotes, 'default', lambda r: cv.InvertedApprovalVotes(), 'convert', a_conv(g_approval))
    add(cv.InvertedSimpleVotes, 'default', lambda r: cv.InvertedSimpleVotes(), 'convert', a_conv(g_simple))
    add(cv.MergedDistributions, 'default', lambda r: cv.MergedDistributions(), 'convert', a_merge_dist)
    add(cv.MergedSelections, 'default', lambda r: cv.MergedSelections(), 'convert', a_merge_sel)
    add(cv.PartyTotals, 'default', lambda r: cv.PartyTotals(), 'convert', a_conv(g_nested))
    add(cv.RankedToApprovalVotes, 'default', lambda r: cv.RankedToApprovalVotes(), 'convert', a_conv(g_ranked))
    add(cv.RankedToCondorcetVotes, 'bottom', lambda r: cv.RankedToCondorcetVotes(r.random() < 0.5), 'convert', a_conv(g_ranked))
    add(cv.RankedToFirstNPreferences, 'n', lambda r: cv.RankedToFirstNPreferences(r.randint(1, 3)), 'convert', a_conv(lambda r: g_ranked(r, shared=0)))
    add(cv.RankedToFirstPreference, 'default', lambda r: cv.RankedToFirstPreference(), 'convert', a_conv(g_ranked))
    for nm, sc in [('borda', lambda r: rs.Borda(r.choice([0, 1]))), ('dowdall', lambda r: rs.Dowdall()), ('modified', lambda r: rs.ModifiedBorda()),
                   ('sequence', lambda r: rs.SequenceBased([4, 2, 1]))]:
        add(cv.RankedToPositionalVotes, nm, (lambda sc: lambda r: cv.RankedToPositionalVotes(sc(r)))(sc), 'convert', a_conv(g_ranked))
    add(cv.RankedToPresenceCounts, 'default', lambda r: cv.RankedToPresenceCounts(), 'convert', a_conv(g_ranked))
    add(cv.RoundedVotes, 'decimals', lambda r: cv.RoundedVotes(r.randint(0, 2)), 'convert', a_conv(g_simple))
    add(cv.ScoreToApprovalVotesThreshold, 'thr', lambda r: cv.ScoreToApprovalVotesThreshold(r.randint(1, 4)), 'convert', a_conv(g_score))
    add(cv.ScoreToRankedVotes, 'unscored', lambda r: cv.ScoreToRankedVotes(r.choice([None, 0, 2])), 'convert', a_conv(g_score))
    add(cv.ScoreToSimpleVotes, 'cfg', lambda r: cv.ScoreToSimpleVotes(r.choice(['mean', 'sum', 'median_low']), unscored_value=r.choice([None, 0, 'min']),
                                                                    truncation=r.choice([0, 1])), 'convert', a_conv(g_score))
    add(cv.SelectionToDistribution, 'amount', lambda r: cv.SelectionToDistribution(r.randint(1, 2)), 'convert', a_selection)
    add(cv.SubsettedVotes, 'simple', lambda r: cv.SubsettedVotes(), 'convert', a_subsetted(g_simple))
    add(cv.SubsettedVotes, 'ranked', lambda r: cv.SubsettedVotes(vv.RankedSubsetter()), 'convert', a_subsetted(g_ranked))
    add(cv.SubsettedVotes, 'approval', lambda r: cv.SubsettedVotes(vv.ApprovalSubsetter()), 'convert', a_subsetted(g_approval))
    add(cv.SubsettedVotes, 'nested', lambda r: cv.SubsettedVotes(depth=1), 'convert', a_subsetted(lambda r, c: g_nested(r, g_simple, c)))
    add(cv.VoteTotals, 'default', lambda r: cv.VoteTotals(), 'convert', a_conv(g_nested))
    # --- approval / auxiliary / cardinal / condorcet
    add(ap.ProportionalApproval, 'default', lambda r: ap.ProportionalApproval(), 'evaluate', a_sel_approval)
    add(ap.SequentialProportionalApproval, 'default', lambda r: ap.SequentialProportionalApproval(), 'evaluate', a_sel_approval)
    add(ap.QuotaSelector, 'cfg', lambda r: ap.QuotaSelector(r.choice(['droop', 'hare']), r.random() < 0.5, r.choice(['error', 'tie', 'select'])), 'evaluate', a_sel_simple_default)
    add(aux.CandidateNumberRanker, 'default', lambda r: aux.CandidateNumberRanker(), 'evaluate', a_person_sel)
    add(aux.InputOrderSelector, 'default', lambda r: aux.InputOrderSelector(), 'evaluate', a_sel_simple_default)
    add(aux.RFC3797Selector, 'sources', lambda r: _given(lambda g: aux.RFC3797Selector(g), [9319, [2, 5, 12, 8, 10], [9, 18, 26, 34, 41, 45]]), 'evaluate', a_sel_simple_default, ctor_data=True)
    add(aux.RandomUnrankedBallotSelector, 'seeded', lambda r: aux.RandomUnrankedBallotSelector(seed=r.randint(0, 5)), 'evaluate', a_sel_simple_default)
    add(aux.RandomUnrankedBallotSelector, 'unseeded', lambda r: aux.RandomUnrankedBallotSelector(), 'evaluate', a_sel_simple_default, random=True)
    add(aux.Sortitor, 'seeded', lambda r: aux.Sortitor(seed=r.randint(0, 5)), 'evaluate', a_sel_simple_default)
    add(aux.Sortitor, 'unseeded', lambda r: aux.Sortitor(), 'evaluate', a_sel_simple_default, random=True)
    add(card.ScoreVoting, 'cfg', lambda r: card.ScoreVoting(r.choice(['mean', 'sum']), unscored_value=r.choice([None, 0])), 'evaluate', a_sel_score)
    add(card.MajorityJudgment, 'cfg', lambda r: card.MajorityJudgment(tie_breaking=r.choice(['default', 'plus'])), 'evaluate', a_sel_score)
    add(card.STAR, 'default', lambda r: card.STAR(), 'evaluate', a_sel_score)
    add(card.STAR, 'named-runoff', lambda r: card.STAR(runoff_evaluator=r.choice(['schulze', 'copeland_2o', 'minimax_margins'])), 'evaluate', a_sel_score)
    add(card.AllocatedScoreSelector, 'quota', lambda r: card.AllocatedScoreSelector(r.choice(['droop', 'hare'])), 'evaluate', a_sel_score)
    add(card.AllocatedScoreDistributor, 'quota', lambda r: card.AllocatedScoreDistributor(r.choice(['droop', 'hare'])), 'evaluate', a_dist_score)
    add(cond.CondorcetWinner, 'default', lambda r: cond.CondorcetWinner(), 'evaluate', a_seatless_pairwise)
    add(cond.SmithSet, 'default', lambda r: cond.SmithSet(), 'evaluate', a_seatless_pairwise)
    add(cond.SchwartzSet, 'default', lambda r: cond.SchwartzSet(), 'evaluate', a_seatless_pairwise)
    add(cond.Copeland, 'order', lambda r: cond.Copeland(r.random() < 0.5), 'evaluate', a_sel_pairwise)
    add(cond.Schulze, 'default', lambda r: cond.Schulze(), 'evaluate', a_sel_pairwise)
    add(cond.KemenyYoung, 'default', lambda r: cond.KemenyYoung(), 'evaluate', a_sel_pairwise)
    add(cond.MinimaxCondorcet, 'scoring', lambda r: cond.MinimaxCondorcet(r.choice(['winning_votes', 'margins', 'pairwise_opposition'])), 'evaluate', a_sel_pairwise)
    add(cond.RankedPairs, 'scoring', lambda r: cond.RankedPairs(r.choice(['winning_votes', 'margins'])), 'evaluate', a_sel_pairwise)
    for key in sorted(cond.EVALUATORS):
        add(type(cond.EVALUATORS[key]), 'singleton:' + key, (lambda key: lambda r: cond.EVALUATORS[key])(key), 'evaluate', a_sel_pairwise, singleton=True)
    # --- core
    add(core.Plurality, 'default', lambda r: core.Plurality(), 'evaluate', a_sel_simple_default)
    add(core.UnknownEvaluator, 'default', lambda r: core.UnknownEvaluator(), 'evaluate', a_sel_simple)
    add(core.FixedSeatCount, 'plurality', lambda r: core.FixedSeatCount(core.Plurality(), r.randint(1, 2)), 'evaluate', a_seatless_simple)
    add(core.FixedSeatCount, 'ha', lambda r: core.FixedSeatCount(ha(r), r.randint(2, 9)), 'evaluate', a_dist_simple_noseats)
    add(core.PostConverted, 'sel-to-dist', lambda r: core.PostConverted(core.Plurality(), cv.SelectionToDistribution()), 'evaluate', a_sel_simple)
    add(core.PreConverted, 'borda', lambda r: core.PreConverted(cv.RankedToPositionalVotes(rs.Borda()), core.Plurality()), 'evaluate', a_sel_ranked)
    add(core.PreConverted, 'condorcet', lambda r: core.PreConverted(cv.RankedToCondorcetVotes(), cond.Schulze()), 'evaluate', a_sel_ranked)
    add(core.TieBreaking, 'sel', lambda r: core.TieBreaking(core.Plurality(), r.choice([aux.InputOrderSelector(), aux.Sortitor(seed=3)])), 'evaluate', a_sel_simple)
    add(core.TieBreaking, 'dist', lambda r: core.TieBreaking(ha(r), aux.InputOrderSelector()), 'evaluate', a_dist_simple)
    add(core.TieBreaking, 'stub-tie', lambda r: _tb_stub(core, aux), 'evaluate', a_dist_simple, ctor_data=True)
    add(core.Conditioned, 'threshold', lambda r: core.Conditioned(thr.RelativeThreshold(Fraction(1, r.choice([10, 20]))), ha(r)), 'evaluate', a_dist_simple)
    add(core.Conditioned, 'prevgain', lambda r: core.Conditioned(thr.AlternativeThresholds([thr.RelativeThreshold(Fraction(1, 10)), thr.PreviousGainThreshold(thr.AbsoluteThreshold(1))]), ha(r)),
        'evaluate', a_dist_simple)
    add(core.MultistageDistributor, 'flat', lambda r: _given(lambda g: core.MultistageDistributor(g), [ha(r), prop.LargestRemainder('hare')]), 'evaluate', a_dist_simple, ctor_data=True)
    add(core.MultistageDistributor, 'depth2', lambda r: _given(lambda g: core.MultistageDistributor(g, depth=2),
        [core.ByConstituency(ha(r)), core.ByConstituency(ha(r))]), 'evaluate', a_nested_dist_dictseats, ctor_data=True)
    add(core.UnusedVotesDistributor, 'flat', lambda r: core.UnusedVotesDistributor([prop.QuotaDistributor('hare'), ha(r)]), 'evaluate', a_dist_simple)
    add(core.UnusedVotesDistributor, 'depth2', lambda r: core.UnusedVotesDistributor(
        [core.ByConstituency(prop.QuotaDistributor('droop')), core.ByConstituency(ha(r))], quota_functions=['droop'], depth=2), 'evaluate', a_nested_dist_dictseats)
    add(core.AdjustedSeatCount, 'allow', lambda r: core.AdjustedSeatCount(core.AllowOverhang(ha(r)), ha(r)), 'evaluate', a_calc)
    add(core.AdjustedSeatCount, 'level', lambda r: core.AdjustedSeatCount(core.LevelOverhang(ha(r)), ha(r)), 'evaluate', a_calc)
    add(core.AllowOverhang, 'ha', lambda r: core.AllowOverhang(ha(r)), 'calculate', a_calc)
    add(core.LevelOverhang, 'ha', lambda r: core.LevelOverhang(ha(r)), 'calculate', a_calc)
    add(core.LevelOverhangByConstituency, 'ha', lambda r: core.LevelOverhangByConstituency(core.ByConstituency(ha(r), apportioner=ha(r)), ha(r)), 'calculate', a_nested_calc)
    add(core.ByConstituency, 'apportioned', lambda r: core.ByConstituency(ha(r), apportioner=r.choice([ha(r), prop.LargestRemainder('hare')])), 'evaluate', a_nested_dist)
    add(core.ByConstituency, 'dict-apportionment', lambda r: _given(lambda g: core.ByConstituency(ha(r), apportioner=g), {'N': 3, 'S': 2, 'W': 2}), 'evaluate', a_nested_noseats, ctor_data=True)
    add(core.ByConstituency, 'selector', lambda r: core.ByConstituency(core.Plurality(), apportioner=1), 'evaluate', a_conv(g_nested))
    add(core.ByConstituency, 'preselector', lambda r: core.ByConstituency(ha(r), apportioner=ha(r), preselector=thr.RelativeThreshold(Fraction(1, 20))), 'evaluate', a_nested_dist)
    add(core.PreApportioned, 'ha', lambda r: core.PreApportioned(core.ByConstituency(ha(r)), ha(r)), 'evaluate', a_nested_dist)
    add(core.PreApportioned, 'dict', lambda r: _given(lambda g: core.PreApportioned(core.ByConstituency(ha(r)), g), {'N': 3, 'S': 2, 'W': 1}), 'evaluate', a_nested_noseats, ctor_data=True)
    add(core.RemovedApportionment, 'ha', lambda r: core.RemovedApportionment(core.ByConstituency(ha(r), apportioner=ha(r))), 'evaluate', a_nested_dist_dictseats)
    add(core.ByParty, 'ha', lambda r: core.ByParty(ha(r)), 'evaluate', a_nested_dist)
    add(core.ByParty, 'allocator', lambda r: core.ByParty(ha(r), allocator=prop.LargestRemainder('hare')), 'evaluate', a_nested_dist)
    add(core.PartyListEvaluator, 'closed', lambda r: core.PartyListEvaluator(ha(r)), 'evaluate', lambda r: a_partylist(r, False))
    add(core.PartyListEvaluator, 'open', lambda r: core.PartyListEvaluator(ha(r), ol.ThresholdOpenList(jump_fraction=Fraction(1, 20))), 'evaluate', a_partylist)
    # --- openlist / proportional / sequential / threshold
    add(ol.ThresholdOpenList, 'jump', lambda r: ol.ThresholdOpenList(jump_fraction=Fraction(1, r.choice([5, 10, 20]))), 'evaluate', a_openlist)
    add(ol.ThresholdOpenList, 'quota', lambda r: ol.ThresholdOpenList(quota_function=r.choice(['hare', 'droop']), take_higher=r.random() < 0.5), 'evaluate', a_openlist)
    add(ol.ListOrderTieBreaker, 'plurality', lambda r: ol.ListOrderTieBreaker(core.Plurality()), 'evaluate', a_openlist)
    add(prop.HighestAverages, 'divisor', ha, 'evaluate', a_dist_simple)
    add(prop.LargestRemainder, 'quota', lambda r: prop.LargestRemainder(r.choice(['hare', 'droop', 'imperiali'])), 'evaluate', a_dist_simple)
    add(prop.QuotaDistributor, 'quota', lambda r: prop.QuotaDistributor(r.choice(['hare', 'droop']), on_overaward=r.choice(['error', 'ignore', 'subtract'])), 'evaluate', a_dist_simple)
    add(prop.PureProportionality, 'default', lambda r: prop.PureProportionality(), 'evaluate', a_dist_simple)
    add(prop.VotesPerSeat, 'cfg', lambda r: prop.VotesPerSeat(r.choice([3, 10, 25])), 'evaluate', a_dist_simple_noseats)
    add(prop.VotesPerSeat, 'rounding', lambda r: prop.VotesPerSeat(r.choice([3, 10, Fraction(7, 2)]), rounding=r.choice(['ROUND_HALF_UP', 'ROUND_UP', 'ROUND_HALF_EVEN', 'ROUND_DOWN']),
                                                        accept_equal=r.random() < 0.5), 'evaluate', a_dist_simple_noseats_mixed)
    add(prop.BiproportionalEvaluator, 'default', lambda r: prop.BiproportionalEvaluator(r.choice(['d_hondt', 'sainte_lague'])), 'evaluate', a_biprop)
    add(prop.BiproportionalEvaluator, 'seat-dict', lambda r: prop.BiproportionalEvaluator(r.choice(['d_hondt', 'sainte_lague'])), 'evaluate', a_biprop_dict)
    add(prop.BiproportionalEvaluator, 'apportioner-dict',
        lambda r: _given(lambda m: prop.BiproportionalEvaluator(r.choice(['d_hondt', 'sainte_lague']), apportioner=m), _biprop_seat_map(r)), 'evaluate', a_biprop_total)
    add(seq.TransferableVoteDistributor, 'gregory', lambda r: seq.TransferableVoteDistributor(quota_function=r.choice(['droop', 'hare'])), 'evaluate', a_dist_ranked)
    add(seq.TransferableVoteDistributor, 'hare-seeded', lambda r: seq.TransferableVoteDistributor(transferer=tr.Hare(seed=r.randint(0, 3)), quota_function='droop'), 'evaluate', a_dist_ranked)
    add(seq.TransferableVoteDistributor, 'default-transferer', lambda r: seq.TransferableVoteDistributor(), 'evaluate', a_dist_ranked)
    add(seq.TransferableVoteSelector, 'gregory', lambda r: seq.TransferableVoteSelector(quota_function='droop'), 'evaluate', a_sel_ranked)
    add(seq.TransferableVoteSelector, 'irv', lambda r: seq.TransferableVoteSelector(quota_function=None, transferer='Hare'), 'evaluate', lambda r: ((g_ranked(r, shared=0), 1), {}), random=True)
    add(seq.PreferenceAddition, 'default', lambda r: seq.PreferenceAddition(), 'evaluate', a_sel_ranked)
    add(seq.PreferenceAddition, 'coefs', lambda r: _given(lambda g: seq.PreferenceAddition(g, r.random() < 0.5), [1, Fraction(1, 2), Fraction(1, 4)]), 'evaluate', a_sel_ranked, ctor_data=True)
    add(seq.Benham, 'default', lambda r: seq.Benham(), 'evaluate', a_sel_ranked_plain)
    add(seq.Baldwin, 'default', lambda r: seq.Baldwin(), 'evaluate', a_sel_ranked_plain)
    add(seq.Baldwin, 'shared-converter', lambda r: seq.Baldwin(cv.RankedToPositionalVotes(rs.Borda(0))), 'evaluate', a_sel_ranked_plain)
    add(seq.TidemanAlternative, 'default', lambda r: seq.TidemanAlternative(), 'evaluate', a_sel_ranked_plain)
    add(seq.TidemanAlternative, 'schwartz', lambda r: seq.TidemanAlternative(cond.SchwartzSet()), 'evaluate', a_sel_ranked_plain)
    add(thr.AbsoluteThreshold, 'thr', lambda r: thr.AbsoluteThreshold(r.choice([1, 5, 50]), r.random() < 0.5), 'evaluate', a_seatless_simple)
    add(thr.RelativeThreshold, 'thr', lambda r: thr.RelativeThreshold(Fraction(1, r.choice([4, 10, 20])), r.random() < 0.5), 'evaluate', a_seatless_simple)
    add(thr.AlternativeThresholds, 'mix', lambda r: _given(lambda g: thr.AlternativeThresholds(g), [thr.RelativeThreshold(Fraction(1, 5)), thr.AbsoluteThreshold(40), thr.PreviousGainThreshold(thr.AbsoluteThreshold(2))]),
        'evaluate', a_thr_alt, ctor_data=True)
    add(thr.PreviousGainThreshold, 'abs', lambda r: thr.PreviousGainThreshold(thr.AbsoluteThreshold(r.randint(1, 2))), 'evaluate', a_thr_prev)
    add(thr.CoalitionMemberBracketer, 'cfg', lambda r: _given(lambda g: thr.CoalitionMemberBracketer(g, default=thr.RelativeThreshold(Fraction(1, 5))),
                                                                 {1: thr.RelativeThreshold(Fraction(1, 20)), 2: thr.RelativeThreshold(Fraction(1, 10))}), 'evaluate', a_party_votes, ctor_data=True)
    add(thr.PropertyBracketer, 'cfg', lambda r: _given(lambda g: thr.PropertyBracketer('minority', g), {True: None, False: thr.RelativeThreshold(Fraction(1, 10))}), 'evaluate', a_party_votes, ctor_data=True)
    return R


def _given(make, data):
    """object constructed from plain data + that data (fingerprinted before / after the calls)"""
    return make(data), data


def _borda(rs, r):
    b = rs.Borda(r.choice([0, 1]))
    b.set_n_candidates(6)
    return b


def _tb_stub(core, aux):
    """a main evaluator that hands out ITS OWN stored result containing a tie: TieBreaking must not edit it"""
    stored = {'A': 2, core.Tie(['B', 'C']): 1}

    class KeepsResult:
        def evaluate(self, votes, n_seats, prev_gains={}, max_seats={}):
            return stored
    return core.TieBreaking(KeepsResult(), aux.InputOrderSelector()), stored


# ---------------------------------------------------------------- introspection
def library_classes():
    import votelib
    out = {}
    for m in pkgutil.walk_packages(votelib.__path__, 'votelib.'):
        try:
            mod = importlib.import_module(m.name)
        except Exception:       # noqa  (optional dependencies of votelib.crit etc.)
            continue
        for name, cls in inspect.getmembers(mod, inspect.isclass):
            if cls.__module__ != mod.__name__ or inspect.isabstract(cls) or name.startswith('_'):
                continue
            meths = [x for x in METHODS if callable(getattr(cls, x, None))]
            if meths:
                out[cls.__module__ + '.' + cls.__qualname__] = (cls, meths)
    return out


GENERIC_ARGS = [a_sel_simple, a_seatless_simple, a_dist_simple, a_sel_approval, a_sel_ranked, a_sel_score, a_sel_pairwise,
                a_seatless_pairwise, a_nested_dist, a_conv(g_nested), a_conv(g_ranked), a_conv(g_approval), a_conv(g_score)]


def fallback_recipes(qual, cls, meths):
    """a class without a hand-written recipe: default constructor, first input kind that is accepted"""
    try:
        cls()
    except Exception:   # noqa
        return []
    out = []
    for meth in meths:
        for args in GENERIC_ARGS:
            rng = random.Random(1)
            a, kw = args(rng)
            r = common.call_impl(lambda: getattr(cls(), meth)(*a, **kw), 3)
            if r[0] == 'ok':
                out.append(('fallback:' + meth, (lambda cls: lambda r: cls())(cls), meth, args, {}))
                break
    return out


_TARGETS = None


def targets():
    """ordered list of (key, (label, ctor, method, args, flags)) + classes that could not be covered"""
    global _TARGETS
    if _TARGETS is None:
        R = recipes()
        found = library_classes()
        tl, uncovered = [], []
        for qual in sorted(found):
            cls, meths = found[qual]
            recs = R.get(qual) or fallback_recipes(qual, cls, meths)
            if not recs:
                uncovered.append(qual)
            for rec in recs:
                tl.append(('%s/%s/%s' % (qual, rec[2], rec[0]), rec))
        for qual in sorted(R):
            if qual not in found:
                uncovered.append(qual + ' (recipe without class)')
        _TARGETS = (tl, uncovered, sorted(found))
    return _TARGETS


def target_map():
    return dict(targets()[0])


# ---------------------------------------------------------------- one sweep case
def build(rec, seed):
    label, ctor, method, args, flags = rec
    obj = ctor(random.Random('cfg/%s' % seed))
    if isinstance(obj, tuple):
        return obj
    return obj, None


def call_once(obj, method, a, kw, limit=2, scramble=False):
    """returns outcome, and the list of mutated argument descriptions.
    scramble: after the answer has been recorded, the returned container is emptied in place, as a caller is free to do with a
    result it owns (unless the library handed back one of the caller's own arguments) - a library that keeps the same object
    (a cache, internal state) answers differently afterwards"""
    names = ['arg%d' % i for i in range(len(a))] + list(kw)
    vals = list(a) + [kw[k] for k in kw]
    before = [fp(v) for v in vals]
    import copy
    try:
        shown = [copy.deepcopy(v) for v in vals]
    except Exception:   # noqa
        shown = [None] * len(vals)
    import decimal
    dctx = decimal.getcontext().copy()
    r = common.call_impl(lambda: getattr(obj, method)(*a, **kw), limit)
    out = ('ok', cstr(r[1])) if r[0] == 'ok' else ('err', common.E_NAME.get(r[1], str(r[1])))
    dnow = decimal.getcontext()
    dchanged = [(f, getattr(dctx, f), getattr(dnow, f)) for f in ('prec', 'rounding', 'Emin', 'Emax', 'capitals', 'clamp') if getattr(dctx, f) != getattr(dnow, f)]
    if dchanged or dict(dctx.traps) != dict(dnow.traps):
        decimal.setcontext(dctx)          # put it back so that the rest of the run is not judged under a foreign context
    if scramble and r[0] == 'ok' and isinstance(r[1], (list, dict, set)) and not any(r[1] is v for v in vals):
        try:
            r[1].clear()
        except Exception:   # noqa
            pass
    mutated = []
    if dchanged:
        mutated.append('the decimal context of the calling thread: %s' % ', '.join('%s %s -> %s' % t for t in dchanged))
    for nm, v, b, s in zip(names, vals, before, shown):
        if fp(v) != b:
            mutated.append('%s: %s -> %s' % (nm, show(s) if s is not None else '?', show(v)))
            _observe(obj, method, nm, len(a))
    return out, mutated


# every argument mutation the sweep observes, as (module, qualified name of the function that was called, parameter name): the
# cross-check of props/c18.py holds them against the generated alias-and-mutation table (Gen/Mutation.v) - a site seen mutated that
# the table calls Untouched means the static scan is unsound
OBSERVED_MUTATIONS = []


def _observe(obj, method, nm, n_pos):
    import inspect
    try:
        f = inspect.getattr_static(type(obj), method)
        f = getattr(f, '__func__', f)
        params = [p for p in inspect.signature(f).parameters.values()]
        if nm.startswith('arg') and nm[3:].isdigit():
            i = int(nm[3:]) + (0 if isinstance(inspect.getattr_static(type(obj), method), staticmethod) else 1)
            pname = params[i].name if i < len(params) and params[i].kind in (params[i].POSITIONAL_ONLY, params[i].POSITIONAL_OR_KEYWORD) else \
                next((p.name for p in params if p.kind == p.VAR_POSITIONAL), nm)
        else:
            pname = nm if any(p.name == nm for p in params) else next((p.name for p in params if p.kind == p.VAR_KEYWORD), nm)
        rec = (f.__module__, f.__qualname__, pname)
    except Exception:   # noqa
        rec = (type(obj).__module__, '%s.%s' % (type(obj).__qualname__, method), nm)
    if rec not in OBSERVED_MUTATIONS:
        OBSERVED_MUTATIONS.append(rec)


def run_case(key, seed, tmap=None, fresh_only=False):
    """-> dict(problems=[...], fresh=outcome of a fresh object, after=outcome of the shared object after its history)

    Order matters: the history (including the near-probe calls) runs BEFORE the probe input is ever seen by this
    process, so that state kept anywhere (instance, class, module) by the earlier calls can show in the probe's
    answer; the reference answers are a fresh object (computed afterwards) and a fresh interpreter (fresh_only)."""
    tmap = tmap or target_map()
    rec = tmap[key]
    label, ctor, method, args, flags = rec
    problems = []
    probe = lambda: args(random.Random('probe/%s' % seed))

    def fresh_answer():
        a, kw = probe()
        fresh_obj, _ = build(rec, seed)
        if flags.get('singleton'):
            import copy
            try:
                fresh_obj = copy.deepcopy(fresh_obj)        # a private copy stands for "a fresh object"
            except Exception:   # noqa
                pass
        return call_once(fresh_obj, method, a, kw)
    if fresh_only:
        return dict(problems=[], fresh=fresh_answer()[0])
    # shared object with a history
    shared, given = build(rec, seed)
    ctor_before = fp(given) if given is not None else None
    hrng = random.Random('hist/%s' % seed)
    others = targets()[0]
    n_hist = hrng.randint(1, 3)
    for i in range(n_hist):
        if hrng.random() < 0.65:
            ha_, hkw = args(random.Random('h%d/%s' % (i, seed)))
            _, mut = call_once(shared, method, ha_, hkw)
            for m in mut:
                problems.append(('mutation', 'history call %d changed its argument %s' % (i, m)))
        else:
            okey, orec = others[hrng.randrange(len(others))]
            oobj, _ = build(orec, '%s/o%d' % (seed, i))
            oa, okw = orec[3](random.Random('o%d/%s' % (i, seed)))
            _, mut = call_once(oobj, orec[2], oa, okw, limit=3)
            for m in mut:
                problems.append(('mutation', 'call of %s (history step %d) changed its argument %s' % (okey, i, m)))
    # near-probe calls: the probe input with exactly one component taken from another input (same profile with another
    # seat count, same seat count with another profile, other prev_gains / max_seats ...)
    na, nkw = args(random.Random('near/%s' % seed))
    pa, pkw = probe()
    variants = []
    if len(na) == len(pa):
        for j in range(len(pa)):
            variants.append((tuple(na[i] if i == j else pa[i] for i in range(len(pa))), dict(pkw)))
    for k_ in sorted(set(pkw) | set(nkw)):
        kk = dict(pkw)
        if k_ in nkw:
            kk[k_] = nkw[k_]
        else:
            kk.pop(k_, None)
        variants.append((pa, kk))
    hrng.shuffle(variants)
    for va, vkw in variants[:3]:
        _, mut = call_once(shared, method, va, vkw)
        for m in mut:
            problems.append(('mutation', 'near-probe call changed its argument %s' % m))
    a1, kw1 = probe()
    r1, mut = call_once(shared, method, a1, kw1, scramble=True)
    for m in mut:
        problems.append(('mutation', 'probe call after %d earlier calls changed its argument %s' % (n_hist + len(variants[:3]), m)))
    if r1 == ('err', 'TIMEOUT'):
        # some evaluators do not return on some inputs (DESIGN.md 2.1): an outcome of its own, nothing to compare
        return dict(problems=problems, fresh=r1, after=r1, ok=False, random=bool(flags.get('random')), timeout=True)
    a2, kw2 = probe()
    r2, _ = call_once(shared, method, a2, kw2)
    r0, mut = fresh_answer()
    for m in mut:
        problems.append(('mutation', 'probe call on a fresh object changed its argument %s' % m))
    timeouts = ('err', 'TIMEOUT') in (r0, r1, r2)
    if not flags.get('random') and not timeouts:
        if r1 != r0:
            problems.append(('history', 'answer after %d earlier calls differs from a fresh object: %s vs fresh %s'
                             % (n_hist + len(variants[:3]), r1, r0)))
        if r2 != r1:
            problems.append(('repeat', 'second identical call answers %s, the first %s' % (r2, r1)))
    if ctor_before is not None and fp(given) != ctor_before:
        problems.append(('ctor-data', 'the data the object was constructed with changed, now: %s' % show(given)[:300]))
    return dict(problems=problems, fresh=r0, after=r1, ok=r0[0] == 'ok', random=bool(flags.get('random')), timeout=timeouts)


# ---------------------------------------------------------------- module-level objects and defaults
def module_state():
    """fingerprints of every module-level data object of the package and of every function default"""
    import votelib
    st = {}
    for m in pkgutil.walk_packages(votelib.__path__, 'votelib.'):
        mod = sys.modules.get(m.name)
        if mod is None:
            continue
        for name, val in vars(mod).items():
            if name.startswith('__') or isinstance(val, (types.ModuleType, type, types.FunctionType, types.BuiltinFunctionType)):
                continue
            if getattr(val, '__module__', '') in ('typing', 'logging') or type(val).__module__ in ('typing', 'logging', 're'):
                continue
            st['%s.%s' % (m.name, name)] = fp(val)
        for fn_name, fn in all_functions(mod):
            for pname, dv in live_defaults(fn):
                if not isinstance(dv, (type(None), bool, int, float, str, bytes, Fraction, Decimal, types.FunctionType, type)):
                    st['%s.%s(%s=)' % (m.name, fn_name, pname)] = fp(dv)
    # process-wide state the library shares with its caller: the thread's decimal context (precision, rounding mode, traps)
    import decimal
    c = decimal.getcontext()
    st['decimal.getcontext()'] = fp((c.prec, c.rounding, c.Emin, c.Emax, c.capitals, c.clamp, sorted(str(t) for t, on in c.traps.items() if on)))
    return st


def all_functions(mod):
    for name, val in vars(mod).items():
        if isinstance(val, types.FunctionType) and val.__module__ == mod.__name__:
            yield name, val
        elif isinstance(val, type) and val.__module__ == mod.__name__:
            for n2, v2 in vars(val).items():
                f = v2.__func__ if isinstance(v2, (staticmethod, classmethod)) else v2
                if isinstance(f, types.FunctionType):
                    yield '%s.%s' % (val.__qualname__, n2), f


def live_defaults(fn):
    try:
        sig = inspect.signature(fn)
    except (TypeError, ValueError):
        return
    for p in sig.parameters.values():
        if p.default is not inspect.Parameter.empty:
            yield p.name, p.default


def source_mutable_defaults(repo):
    """ast enumeration over the whole package: (module, qualname, param, literal value, source text)"""
    out = []
    root = os.path.join(repo, 'votelib')
    for dp, _, files in os.walk(root):
        for f in sorted(files):
            if not f.endswith('.py'):
                continue
            path = os.path.join(dp, f)
            rel = os.path.relpath(path, repo)
            modname = rel[:-3].replace(os.sep, '.')
            if modname.endswith('.__init__'):
                modname = modname[:-9]
            src = open(path).read()
            tree = ast.parse(src)

            def visit(node, prefix):
                for ch in ast.iter_child_nodes(node):
                    if isinstance(ch, ast.ClassDef):
                        visit(ch, prefix + [ch.name])
                    elif isinstance(ch, (ast.FunctionDef, ast.AsyncFunctionDef)):
                        a = ch.args
                        pos = a.posonlyargs + a.args
                        pairs = list(zip(pos[len(pos) - len(a.defaults):], a.defaults)) + \
                            [(k, d) for k, d in zip(a.kwonlyargs, a.kw_defaults) if d is not None]
                        for arg, d in pairs:
                            mutable = isinstance(d, (ast.Dict, ast.List, ast.Set, ast.ListComp, ast.DictComp, ast.SetComp)) or (
                                isinstance(d, ast.Call) and isinstance(d.func, ast.Name) and d.func.id in ('dict', 'list', 'set', 'defaultdict', 'Counter', 'OrderedDict'))
                            if mutable:
                                try:
                                    lit = ast.literal_eval(d)
                                except Exception:   # noqa
                                    lit = None
                                out.append(dict(module=modname, qualname='.'.join(prefix + [ch.name]), param=arg.arg,
                                                literal=lit, source=ast.get_source_segment(src, d), line=d.lineno))
                        visit(ch, prefix + [ch.name + '.<locals>'])
            visit(tree, [])
    return out


def check_source_defaults(repo):
    """every mutable default literal of the package still equals its source literal"""
    bad, n = [], 0
    for e in source_mutable_defaults(repo):
        if '<locals>' in e['qualname']:
            continue
        try:
            obj = importlib.import_module(e['module'])
            for part in e['qualname'].split('.'):
                obj = inspect.getattr_static(obj, part) if isinstance(obj, type) else getattr(obj, part)
                if isinstance(obj, (staticmethod, classmethod)):
                    obj = obj.__func__
            live = dict(live_defaults(obj))[e['param']]
        except Exception as exc:    # noqa
            bad.append(dict(e, problem='cannot resolve the live default: %s' % exc))
            continue
        n += 1
        if e['literal'] is None or type(live) is not type(e['literal']) or live != e['literal']:
            bad.append(dict(e, problem='shared default %s.%s(%s=%s) now holds %s' % (e['module'], e['qualname'], e['param'], e['source'], cstr(live)[:200])))
    return n, bad


# ---------------------------------------------------------------- fresh-process helper
def fresh_process(cases, repo):
    """[(key, seed)] -> list of fresh outcomes computed by a new interpreter"""
    env = dict(os.environ, PYTHONPATH=repo, PYTHONDONTWRITEBYTECODE='1', VERIF_REPO=repo)
    p = subprocess.run([sys.executable, os.path.abspath(__file__), '--fresh'], input=json.dumps(cases), capture_output=True,
                       text=True, timeout=600, env=env)
    if p.returncode != 0:
        raise RuntimeError('fresh-process helper failed: %s' % p.stderr[-800:])
    return [tuple(x) for x in json.loads(p.stdout.strip().split('\n')[-1])]


if __name__ == '__main__' and '--fresh' in sys.argv:
    cases = json.load(sys.stdin)
    tm = target_map()
    print(json.dumps([list(run_case(k, s, tm, fresh_only=True)['fresh']) for k, s in cases]))
