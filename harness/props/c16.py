"""C16 - thresholds, bracketers, quota selector, open lists."""
import itertools
from fractions import Fraction
from decimal import Decimal
import common
from common import sx, q, jq, cname, ok
from units import U

ID = 'C16'
ZERO_LABELS = True      # a share of the cases is asked with candidates numbered from 0 (harness/common.py LABEL_MODE)
LEVEL = 'proof'
# translator ties (tools/py2v.py typed method translator): unit of Gen/STATUS.json -> the file proving generated = model.
# A unit the translator rejects falls back to the correspondence streams below on a denser grid (run.py records it in
# coverage.translator_fallback); a GenTie lemma that no longer checks is a broken obligation of C16 and widens the search.
GEN_TIES = {'Threshold': 'Props/GenTie_Threshold.v', 'Approval': 'Props/GenTie_Approval.v', 'Openlist': 'Props/GenTie_Openlist.v',
            # wave 7 (tools/py2v.py part 6): the whole of ThresholdOpenList.evaluate; Tie.any / Tie.break_by_list / ListOrderTieBreaker.evaluate
            'OpenlistEval': 'Props/GenTie_OpenlistEval.v', 'TieBreak': 'Props/GenTie_TieBreak.v'}
TIE = {'threshold.py AbsoluteThreshold / RelativeThreshold evaluate (acceptance predicate and whole body), AlternativeThresholds (union)':
           'translator (Gen/Threshold.v regenerated on every run; Props/GenTie_Threshold.v proves it equal to passes / sel_eval of '
           'Model/Threshold.v) + correspondence',
       'threshold.py CoalitionMemberBracketer.evaluate (whole body: member-count table, dispatch with default, membership filter)':
           'translator (Gen/Threshold.v; GenTie_Threshold.v tie_coalition_evaluate: = bracket_eval for a votes dictionary) + correspondence',
       'threshold.py PropertyBracketer (caching loop with hasattr / getattr), order of AlternativeThresholds': 'correspondence',
       'approval.QuotaSelector quota comparison and over-quota dictionary': 'translator (Gen/Approval.v, Props/GenTie_Approval.v: = fulfills / '
           'the filter of qsel_evaluate) + correspondence (quota-selector stream: C09 model unit, votes placed on the quota)',
       'openlist.ThresholdOpenList jump threshold (fraction of the total, quota, max / min) and jump test (the jumping comprehension)':
           'translator (Gen/Openlist.v, Props/GenTie_Openlist.v: = ol_threshold / ol_jumping) + correspondence',
       'openlist.ThresholdOpenList.evaluate as a whole (threshold, jumping, cut to n seats by votes or with list precedence, fill-up loop with break)':
           'translator (Gen/OpenlistEval.v, Props/GenTie_OpenlistEval.v tie_ol_evaluate: = openlist_eval for a votes dictionary whose candidates '
           'are on the list; ValueError of a jumper missing from the list as a result) + correspondence',
       'core.Tie.any / Tie.break_by_list, openlist.ListOrderTieBreaker.evaluate (whole bodies)':
           'translator (Gen/TieBreak.v, Props/GenTie_TieBreak.v: = break_by_list for ties inside the breaker list, IndexError / ValueError as '
           'results) + correspondence (streams break-by-list, break-by-list-boundary)',
       'openlist.ThresholdOpenList constructor (quota_fraction wrapper)': 'correspondence',
       'component/quota.py': 'translator (C02)'}
RULE = ('corpus; threshold stream: Abs/Rel/Alternative (nested) with thresholds as Fraction/Decimal/int, vote totals built so that '
        'one candidate sits exactly on every threshold (e.g. 5 of 100 at 5 %), accept_equal both ways; bracketers by coalition size '
        'and by property with defaults/None; open lists of 1..8 members with every combination of jump_fraction, quota (name/callable), '
        'quota_fraction, take_higher, accept_equal, list_precedence, 1<=n<=len; break_by_list through ListOrderTieBreaker(Plurality); '
        'quota selector: 7 named quotas x accept_equal x select/error with one (or two) candidates placed exactly on the computed quota. '
        'non-trivial = some candidate exactly on a threshold, or jumpers outnumber seats, or a tie to break; distinct by case hash')
PARTIAL = []
TRUSTED = []
QN = {1: 'hare', 2: 'hare_rounded', 3: 'droop', 4: 'hagenbach_bischoff', 5: 'hagenbach_bischoff_ceil',
      6: 'hagenbach_bischoff_rounded', 7: 'imperiali'}


def pynum(s):
    """'d:0.05' Decimal, 'f:1/20' Fraction, 'i:5' int"""
    k, v = s.split(':')
    return {'d': Decimal, 'f': Fraction, 'i': int}[k](v)


def qn(s):
    return Fraction(pynum(s))


# ------------------------------------------------------------------ thresholds
def sel_obj(s):
    import votelib.evaluate.threshold as th
    if s[0] == 0:
        return th.AbsoluteThreshold(pynum(s[1]), accept_equal=s[2])
    if s[0] == 1:
        return th.RelativeThreshold(pynum(s[1]), accept_equal=s[2])
    return th.AlternativeThresholds([sel_obj(p) for p in s[1]])


def sel_sx(s):
    if s[0] in (0, 1):
        return sx([s[0], qn(s[1]), 1 if s[2] else 0])
    return '(2 (%s))' % ' '.join(sel_sx(p) for p in s[1])


def thr_model_line(c):
    return '%d (%s %s)' % (U['threshold'], sel_sx(c['sel']), sx([[k, q(v)] for k, v in c['votes']]))


def thr_impl(c):
    votes = {cname(k): int(q(v)) if q(v).denominator == 1 else q(v) for k, v in c['votes']}
    return ok([common.cnum(x) for x in sel_obj(c['sel']).evaluate(votes)])


def canon_list(votes, wire, as_set):
    v = common.parse_sx(wire)
    if v[0] != 0:
        return ('err', v[1])
    if as_set:
        return ('ok', tuple(sorted(v[1])))
    # ordered by votes; equal-vote runs sorted
    val = {k: q(x) for k, x in votes}
    out, run = [], []
    for r in v[1]:
        if run and val.get(run[-1]) != val.get(r):
            out += sorted(run)
            run = []
        run.append(r)
    out += sorted(run)
    return ('ok', tuple(out), len(set(v[1])) == len(v[1]))


def thr_canon(c, wire):
    return canon_list(c['votes'], wire, as_set=(c['sel'][0] == 2))


def on_threshold(c):
    tot = sum(q(v) for _, v in c['votes'])

    def chk(s):
        if s[0] == 0:
            return any(q(v) == qn(s[1]) for _, v in c['votes'])
        if s[0] == 1:
            return tot != 0 and any(q(v) / tot == qn(s[1]) for _, v in c['votes'])
        return any(chk(p) for p in s[1])
    return chk(c['sel'])


REL = ['f:1/20', 'd:0.05', 'f:1/10', 'd:0.1', 'f:7/100', 'd:0.07', 'f:1/3', 'f:1/2', 'i:1', 'i:0', 'd:0.5']


def rand_sel(rng, depth=0):
    r = rng.random()
    if r < 0.15 and depth < 2:
        return [2, [rand_sel(rng, depth + 1) for _ in range(rng.randint(1, 3))]]
    if r < 0.55:
        return [1, rng.choice(REL), rng.random() < 0.5]
    return [0, rng.choice(['i:5', 'i:10', 'i:100', 'f:15/2', 'd:7.5', 'i:0', 'i:1000', 'd:50']), rng.random() < 0.5]


def gen_thr(rng, count):
    for _ in range(count):
        s = rand_sel(rng)
        m = rng.randint(1, 7)
        ids = list(range(1, m + 1))
        rng.shuffle(ids)
        # huge totals with non-zero low digits: a threshold given as Decimal times such a total does not fit the 28-digit decimal context
        total = rng.choice([100, 200, 1000, 60, 10 ** 21, 300 * (10 ** 30 + 7), 300 * (10 ** 27 + 1), 600 * (10 ** 40 + 3)])
        # put one candidate exactly on the (first relative / absolute) threshold
        flat = [s] if s[0] != 2 else [p for p in s[1] if p[0] != 2] or [[0, 'i:5', True]]
        target = rng.choice(flat)
        on = qn(target[1]) * total if target[0] == 1 else qn(target[1])
        votes = []
        rest = total
        for i, k in enumerate(ids):
            if i == 0 and on.denominator == 1 and 0 <= on <= total and rng.random() < 0.8:
                v = int(on) + (rng.choice([0, 0, 1, -1]) if total > 10 ** 9 else rng.choice([0, 0, 0, 1, -1]))
                v = min(max(v, 0), total)
            elif i == m - 1 and target[0] == 1:
                v = max(rest, 0)
            else:
                v = rng.randint(0, max(rest, 0)) if rng.random() < 0.7 else rng.choice([0, 5, 10, 50])
            rest -= v
            votes.append([k, v])
        if sum(v for _, v in votes) == 0:
            votes[0][1] = 1
        yield dict(unit='threshold', sel=s, votes=votes)


# ------------------------------------------------------------------ bracketers
def br_model_line(c):
    def optsel(s):
        return '()' if s is None else '(%s)' % sel_sx(s)
    ev = '(%s)' % ' '.join('(%d %s)' % (b, optsel(s)) for b, s in c['evals'])
    return '%d (%s %s %s %s)' % (U['bracket'], ev, optsel(c['default']), sx([[k, b] for k, b in c['bracket']]),
                                 sx([[k, q(v)] for k, v in c['votes']]))


def br_impl(c):
    import votelib.evaluate.threshold as th
    import votelib.candidate as cd
    objs = {}
    br = dict(c['bracket'])
    for k, _ in c['votes']:
        b = br.get(k, 1)
        if c['kind'] == 'coalition':
            if b == 1:
                objs[k] = cd.PoliticalParty(cname(k))
            else:
                objs[k] = cd.Coalition([cd.PoliticalParty('%s%d' % (cname(k), i)) for i in range(b)], name=cname(k))
        else:
            objs[k] = cd.PoliticalParty(cname(k), properties=({'minority': b} if b != 1 else {}))
    votes = {objs[k]: int(q(v)) for k, v in c['votes']}
    if c['kind'] == 'coalition':
        ev = th.CoalitionMemberBracketer({b: sel_obj(s) for b, s in c['evals']}, sel_obj(c['default']))
    else:
        ev = th.PropertyBracketer('minority', {b: (sel_obj(s) if s is not None else None) for b, s in c['evals']},
                                  sel_obj(c['default']) if c['default'] is not None else None)
    inv = {v: k for k, v in objs.items()}
    return ok([inv[x] for x in ev.evaluate(votes)])


def br_canon(c, wire):
    return canon_list(c['votes'], wire, as_set=False)


def simple_sel(rng):
    if rng.random() < 0.7:
        return [1, rng.choice(REL[:8]), rng.random() < 0.5]
    return [0, rng.choice(['i:5', 'i:10', 'i:100']), rng.random() < 0.5]


def gen_br(rng, count):
    for _ in range(count):
        kind = rng.choice(['coalition', 'property'])
        m = rng.randint(1, 6)
        ids = list(range(1, m + 1))
        rng.shuffle(ids)
        votes = [[k, rng.choice([5, 10, 7, 20, 50, 100, 3])] for k in ids]
        tot = sum(v for _, v in votes)
        if rng.random() < 0.5:
            votes[0][1] += (100 - tot) if tot < 95 else 0
        bracket = [[k, rng.choice([1, 1, 2, 3, 4])] for k in ids]
        evals = []
        for b in rng.sample([1, 2, 3, 4], rng.randint(0, 3)):
            s = simple_sel(rng)
            if kind == 'property' and rng.random() < 0.25:
                s = None
            evals.append([b, s])
        default = simple_sel(rng)
        if kind == 'property' and rng.random() < 0.3:
            default = None
        if kind == 'property':
            # the property is absent for bracket value 1: dispatches to the default
            evals = [[b, s] for b, s in evals if b != 1]
        yield dict(unit='bracket', kind=kind, evals=evals, default=default, bracket=bracket, votes=votes)


# ------------------------------------------------------------------ open lists
def ol_model_line(c):
    j = '()' if c['jump'] is None else '(%s)' % sx(qn(c['jump']))
    if c['quota'] is None:
        qf = '()'
    else:
        qf = '(%s %s)' % (sx([c['quota']]), sx(qn(c['qfrac'])))
    return '%d (%s %s %d %d %d %s %d %s)' % (
        U['openlist'], j, qf, c['th'], c['ae'], c['lp'], sx([[k, q(v)] for k, v in c['votes']]), c['n'], sx(c['list']))


def ol_impl(c):
    import votelib.evaluate.openlist as ol
    import votelib.component.quota as vq
    kw = {}
    if c['jump'] is not None:
        kw['jump_fraction'] = pynum(c['jump'])
    if c['quota'] is not None:
        kw['quota_function'] = QN[c['quota']] if c['qname'] else vq.get(QN[c['quota']])
        if c['qfrac'] != 'i:1' or c.get('pass_qfrac'):
            kw['quota_fraction'] = pynum(c['qfrac'])
    ev = ol.ThresholdOpenList(take_higher=bool(c['th']), accept_equal=bool(c['ae']), list_precedence=bool(c['lp']), **kw)
    votes = {cname(k): int(q(v)) for k, v in c['votes']}
    return ok([common.cnum(x) for x in ev.evaluate(votes, c['n'], [cname(k) for k in c['list']])])


def ol_canon(c, wire):
    v = common.parse_sx(wire)
    if v[0] != 0:
        return ('err', v[1])
    return ('ok', tuple(v[1]))      # exact order: jumpers by votes (stable), then list order


def ol_spec(c, io, mo):
    """declarative clauses on the implementation's output: exactly n distinct list members, no leapfrogging"""
    v = common.parse_sx(io)
    if v[0] != 0:
        return None
    res = v[1]
    if len(res) != c['n'] or len(set(res)) != len(res) or any(r not in c['list'] for r in res):
        return 'open list result is not exactly n distinct list members: %s' % (res,)
    return None


def gen_ol(rng, count):
    for _ in range(count):
        m = rng.randint(1, 8)
        lst = list(range(1, m + 1))
        rng.shuffle(lst)
        n = rng.randint(1, m)
        voted = [k for k in lst if rng.random() < 0.85] or [lst[0]]
        rng.shuffle(voted)
        total = rng.choice([100, 120, 1000, 60])
        jump = rng.choice([None, 'f:1/10', 'd:0.1', 'f:1/20', 'd:0.05', 'f:1/4', 'i:0'])
        quota = rng.choice([None, None, 1, 3, 4, 7])
        qfrac = rng.choice(['i:1', 'i:1', 'f:1/2', 'f:1/4', 'f:3/2']) if quota else 'i:1'
        # on-threshold construction
        thr = []
        if jump is not None:
            thr.append(qn(jump) * total)
        votes, rest = [], total
        for i, k in enumerate(voted):
            if i == 0 and thr and thr[0].denominator == 1 and rng.random() < 0.7:
                v = int(thr[0])
            elif i == len(voted) - 1:
                v = max(rest, 0)
            else:
                v = rng.randint(0, max(rest, 0) // 2 + 1)
            rest -= v
            votes.append([k, v])
        if rng.random() < 0.3 and len(votes) > 2:
            votes[1][1] = votes[2][1]        # equal votes among (potential) jumpers
        if sum(v for _, v in votes) == 0:
            votes[0][1] = 1
        yield dict(unit='openlist', jump=jump, quota=quota, qname=rng.random() < 0.5, qfrac=qfrac, th=rng.randint(0, 1),
                   ae=rng.randint(0, 1), lp=rng.randint(0, 1), votes=votes, n=n, list=lst)


# ------------------------------------------------------------------ break_by_list
def bl_model_line(c):
    return '%d (%s %s)' % (U['break_by_list'], sx(c['elected']), sx(c['list']))


def bl_impl(c):
    import votelib.evaluate.core as core
    el = []
    ties = {}
    for e in c['elected']:
        if isinstance(e, list):
            key = tuple(sorted(e))
            if key not in ties:
                ties[key] = core.Tie([cname(k) for k in e])
            el.append(ties[key])
        else:
            el.append(cname(e))
    return ok([common.cnum(x) for x in core.Tie.break_by_list(el, [cname(k) for k in c['list']])])


def gen_bl(rng, count):
    import votelib.evaluate.core as core
    for _ in range(count):
        m = rng.randint(2, 8)
        lst = list(range(1, m + 1))
        rng.shuffle(lst)
        votes = {k: rng.choice([1, 2, 2, 3, 3, 3]) for k in lst}
        n = rng.randint(1, m)
        res = core.get_n_best({cname(k): v for k, v in votes.items()}, n)
        el = [sorted(common.cnum(x) for x in r) if isinstance(r, core.Tie) else common.cnum(r) for r in res]
        yield dict(unit='break_by_list', elected=el, list=lst)


def gen_bl_boundary(rng, count):
    """selections get_n_best cannot produce but ListOrderTieBreaker may meet (the shapes of seeded/C08-12, seeded/C16-14): ONE tie spread
       over 3+ seats, SEVERAL ties in one result (interleaved with each other and with plain winners), the same tie given by differently
       ordered member lists, a tie listed exactly / one more than its size (wrap-around), a one-member tie once / twice (IndexError)"""
    for _ in range(count):
        m = rng.randint(3, 9)
        lst = list(range(1, m + 1))
        rng.shuffle(lst)
        pool = lst[:]
        rng.shuffle(pool)
        kind = rng.choice(['one-wide', 'several', 'several', 'wrap', 'single'])
        el = []
        if kind == 'one-wide':
            k = rng.randint(3, m)
            t = pool[:k]
            el = [pool[i] for i in range(k, min(m, k + rng.randint(0, 2)))] + [t] * rng.randint(3, k)
        elif kind == 'wrap':
            k = rng.randint(2, min(4, m))
            t = pool[:k]
            el = [t] * (k + rng.randint(0, 2)) + [c for c in pool[k:k + rng.randint(0, 2)]]
        elif kind == 'single':
            t = pool[:1]
            el = [pool[1]] * rng.randint(0, 1) + [t] * rng.randint(1, 2) + [pool[2:4]] * rng.randint(0, 2)
        else:
            # two or three disjoint ties, each listed up to its size, interleaved, plain winners in between
            cuts = sorted(rng.sample(range(1, m), min(m - 1, rng.randint(2, 3))))
            groups = [pool[a:b] for a, b in zip([0] + cuts, cuts + [m])]
            ties = [g for g in groups if len(g) >= 2][:3]
            singles = [g[0] for g in groups if len(g) == 1]
            items = []
            for t in ties:
                for _j in range(rng.randint(1, len(t))):
                    tt = t[:]
                    if rng.random() < 0.5:
                        rng.shuffle(tt)          # the same frozenset, enumerated differently
                    items.append(tt)
            items += singles
            rng.shuffle(items)
            el = items
        if not any(isinstance(e, list) for e in el):
            el.append(pool[:2])
        yield dict(unit='break_by_list', elected=el, list=lst)



# ------------------------------------------------------------------ alternative thresholds with a previous-gains part (implementation side)
def _alt_part(pc):
    import votelib.evaluate.threshold as th
    kind, t, ae = pc
    if kind == 'abs':
        return th.AbsoluteThreshold(t, accept_equal=ae)
    if kind == 'rel':
        return th.RelativeThreshold(Fraction(t), accept_equal=ae)
    return th.PreviousGainThreshold(th.AbsoluteThreshold(min(t, 3), accept_equal=ae))


def alt_prev_one(ctx, case):
    """AlternativeThresholds passes the UNION of its parts - also of a part that looks at the seats gained before
    (PreviousGainThreshold) and so may pass a party that has no votes entry at all; -> 1 if the case deviates"""
    import votelib.evaluate.threshold as th
    import votelib.evaluate.core as core
    votes, prev, parts_cfg = dict(map(tuple, case['votes'])), dict(map(tuple, case['prev'])), case['parts']
    ctx.evaluations += 1
    ctx.dist['stream:alt-prev'] += 1
    if sum(votes.values()) == 0 and any(pc[0] == 'rel' for pc in parts_cfg):
        return 0
    r = common.call_impl(lambda: th.AlternativeThresholds([_alt_part(pc) for pc in parts_cfg]).evaluate(dict(votes), dict(prev)), 5)
    want = set()
    for pc in parts_cfg:
        part = _alt_part(pc)
        want |= set(part.evaluate(dict(votes), dict(prev)) if core.accepts_prev_gains(part) else part.evaluate(dict(votes)))
    if any(k not in votes for k in want):
        ctx.nontrivial.add(common.case_hash(case))
    if r[0] != 'ok' or set(r[1]) != want or len(set(r[1])) != len(r[1]):
        ctx.checker_false += 1
        ctx.report('alt-prev', case, str(r[1:])[:300], str(sorted(want)), 'alternative thresholds return %s, the union of the parts is %s' % (r[1:], sorted(want)))
        return 1
    return 0


def alt_prev_checks(ctx, count, rng):
    bad = 0
    for _ in range(count):
        m = rng.randint(2, 5)
        votes = {cname(k): rng.choice([0, 1, 5, 10, 40, 100]) for k in range(1, m + 1)}
        prev = {cname(k): rng.randint(0, 3) for k in rng.sample(range(1, m + 3), rng.randint(0, m + 1))}     # may name parties without votes
        parts_cfg = []
        for _p in range(rng.randint(1, 3)):
            kind = rng.choice(['abs', 'rel', 'prev'])
            parts_cfg.append([kind, rng.choice([0, 1, 2, 5, 10, 50]) if kind != 'rel' else rng.choice(['0', '1/10', '1/3', '1/2']), rng.random() < 0.5])
        bad += alt_prev_one(ctx, dict(unit='alt-prev', votes=[[k, v] for k, v in votes.items()], prev=[[k, v] for k, v in prev.items()], parts=parts_cfg))
    ctx.streams['alt-prev'] = dict(cases=count, deviations=bad)


def corpus():
    import os, json, glob
    for p in sorted(glob.glob(os.path.join(common.VERIF, 'corpus', ID, '*.json'))):
        yield json.load(open(p))


def run_cases(ctx, stream, cases):
    cases = list(cases)
    by = {}
    for c in cases:
        by.setdefault(c['unit'], []).append(c)
    for unit, cs in by.items():
        name = stream if len(by) == 1 else '%s:%s' % (stream, unit)
        if unit == 'threshold':
            ctx.differential(name, cs, thr_model_line, thr_impl, thr_canon, on_threshold)
        elif unit == 'bracket':
            ctx.differential(name, cs, br_model_line, br_impl, br_canon, lambda c: True)
        elif unit == 'openlist':
            ctx.differential(name, cs, ol_model_line, ol_impl, ol_canon, lambda c: True, spec=ol_spec)
        elif unit == 'break_by_list':
            ctx.differential(name, cs, bl_model_line, bl_impl, None, lambda c: any(isinstance(e, list) for e in c['elected']))
        elif unit == 'quota_selector':
            import props.c09 as c09
            ctx.differential(name, cs, c09.qs_model_line, c09.qs_impl, c09.canon, on_quota)


# ------------------------------------------------------------------ quota selector (model unit and encoding of C09)
def gen_qsel_boundary(rng, count):
    """QuotaSelector with one candidate exactly on the computed quota (where the quota is a whole number of votes)"""
    import votelib.component.quota as vq
    for _ in range(count):
        m = rng.randint(1, 6)
        ids = list(range(1, m + 1))
        rng.shuffle(ids)
        qi = rng.randint(1, 7)
        n = rng.randint(1, m + 1)
        total = rng.choice([60, 100, 120, 1000, 12 * 10 ** 20])
        qv = Fraction(vq.get(QN[qi])(total, n))
        votes, rest = [], total
        for i, k in enumerate(ids):
            if i == 0 and qv.denominator == 1 and 0 <= qv <= total and rng.random() < 0.85:
                v = int(qv)
            elif i == m - 1:
                v = max(rest, 0)
            else:
                v = rng.randint(0, max(rest, 0))
            rest -= v
            votes.append([k, v])
        if rng.random() < 0.3 and m > 1:
            votes[1][1] = votes[0][1]             # a second candidate on the quota
        yield dict(unit='quota_selector', quota=qi, ae=rng.random() < 0.5, select=rng.random() < 0.7, votes=votes, n=n)


def on_quota(c):
    import votelib.component.quota as vq
    qv = Fraction(vq.get(QN[c['quota']])(sum(q(v) for _, v in c['votes']), c['n']))
    return any(q(v) == qv for _, v in c['votes'])


def explore(ctx, widen=1):
    # a unit the translator rejected is tied by correspondence alone: denser grid (DESIGN.md 2.1)
    dense = lambda unit: 4 if unit in ctx.fallback else 1      # noqa
    run_cases(ctx, 'corpus', corpus())
    run_cases(ctx, 'thresholds', gen_thr(ctx.rng, ctx.n(2000, 30000) * widen * dense('Threshold')))
    run_cases(ctx, 'bracketers', gen_br(ctx.rng, ctx.n(800, 10000) * widen))
    run_cases(ctx, 'openlist', gen_ol(ctx.rng, ctx.n(2500, 40000) * widen * max(dense('Openlist'), dense('OpenlistEval'))))
    run_cases(ctx, 'break-by-list', gen_bl(ctx.rng, ctx.n(500, 5000) * widen * dense('TieBreak')))
    run_cases(ctx, 'break-by-list-boundary', gen_bl_boundary(ctx.rng, ctx.n(1500, 15000) * widen * dense('TieBreak')))
    run_cases(ctx, 'quota-selector', gen_qsel_boundary(ctx.rng, ctx.n(800, 10000) * widen * dense('Approval')))
    alt_prev_checks(ctx, ctx.n(600, 6000) * widen, ctx.rng)


def replay(ctx, case, stream=None):
    if case.get('unit') == 'alt-prev':
        alt_prev_one(ctx, case)
        return
    run_cases(ctx, 'replay', [case])
