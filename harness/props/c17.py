"""C17 - monotonicity: house / vote monotonicity of highest averages, sole-winner monotonicity of the
additive and pairwise rules.  The theorems (Props/C17.v) are about the HighestAverages model and the additive
fold; this check (a) keeps that model tied to HighestAverages.evaluate by a differential stream, (b) evaluates
the relational clauses on the IMPLEMENTATION: evaluate(n) vs evaluate(n+1), evaluate(votes) vs evaluate(votes+),
and every upward move of a sole winner on one ballot for ten rules; (c) keeps the PreferenceAddition (Bucklin / Oklahoma) model of
Model/Bucklin.v tied to the code by differential streams (the theorems C17_bucklin, C17_oklahoma, ... are about that model)."""
import itertools
from fractions import Fraction
import common
from common import sx, q, jq, cname, cnum, ok
from units import U, BLOCK
import props.c01 as c01
import props.c02 as c02
import props.c05 as c05

ID = 'C17'
LEVEL = 'proof'
# the monotonicity of the rank scorers GENERATED from rankscore.py is an obligation while the translator accepts the source
GEN_TIES = {'Rankscore': 'Props/GenTie_Rankscore_mono.v'}
TIE = {'HighestAverages.evaluate': 'correspondence (streams ha-tie and ha-mono-pairs, model shared with C01)',
       'component/divisor.py': 'translator (GenTie_Divisor.v, obligation of C01) + strictness lemmas Props/C17.v C17_builtin_strict',
       'component/rankscore.py': 'translator (GenTie_Rankscore.v, obligation of C13: all six scorers of Model/Convert.v rank_scores)',
       'convert.* additive folds, core.get_n_best': 'models shared with C13 / C09 (correspondence there); relational clauses on the implementation here',
       'convert.RankedToPositionalVotes.convert (shared ranks)': 'correspondence (stream pos-tie against Model/Convert.v img_positional, unit C13 convert; theorems '
                                                                 'C17_positional_shared / _leave_shared / _leave_pair / _rank_unranked / _added)',
       'LargestRemainder.evaluate': 'model of C02 (Model/QuotaDistributor.v, correspondence there); here: stream lr-hare-votes (the perturbed election against the model, spec = C17_lr_hare_votes) '
                                    'and the two elections of each paradox witness (corpus lr-*.json)',
       'condorcet.Copeland/MinimaxCondorcet/Schulze': 'models of C05 (Model/Condorcet.v, correspondence there); relational clauses on the implementation here',
       'convert.RankedToCondorcetVotes.convert': 'correspondence (stream rc-tie against Model/Hybrids.v pairwise, unit C05+2; theorems C17_ballot_pairwise_exact, '
                                                 'C17_ballot_raises, C17_copeland_ballots, C17_minimax_ballots) + the exact delta evaluated on the implementation (stream rc-move-exact)',
       'component/rankscore.py': 'translator (GenTie_Rankscore.v, obligation of C13) + C17_gen_scorers_nonincreasing on the generated expressions; '
                                 'rank_scores model shared with C13 (correspondence there); stream scorer-nonincreasing on the implementation',
       'sequential.PreferenceAddition.evaluate (+ _decouple_equal_rankings, _add_round_votes, Tie.reconcile)':
           'correspondence (streams pa-exhaustive-small, pa-random against Model/Bucklin.v; theorems C17_bucklin, C17_oklahoma, C17_preference_addition*)'}
RULE = ('ha-tie: C01 generators (random, constructed quotient ties, zero-vote/caps) against the model. house: every such case and the '
        'exhaustive small domain (<=3 parties, votes 0..3, n 1..4, 5 divisors) evaluated at n and n+1 on the implementation, judged by the statement of '
        'C17_house_exact: no party\'s sure seats drop; a tie Tie(T, r) at n is kept as Tie(T, r+1) with the same sure seats or resolved into one more '
        'seat for every member. votes: one party gets +1 / +10% / x2 / +1e30 / +1/3 votes (also from zero; exhaustive small domain: every party +1), '
        'the others keep theirs, judged by C17_votes_full: its sure seats and its possible total (tie seat included) do not drop, whatever way either '
        'run ends. ha-mono-pairs: the perturbed election (n+1 / more votes) against the model, spec = the same two clauses against the base election. '
        'sole-winner-positional-shared: 7 rank scorers, profiles with shared ranks: the sole winner moves up past plain / shared ranks, leaves a shared '
        'rank, gets ranked when unranked, a ballot with it on top (shared ranks below) is added; pos-tie: the converter against the model on those '
        'profiles. rc-rank-added-exact: ranking an unranked candidate / adding a ballot changes the pairwise dictionary exactly as C17_ballot_rank_exact / '
        'C17_ballot_added_exact say; sole Copeland / minimax winner stays where proved (bullet: all; longer ballot: minimax margins / opposition). sole-winner: random ranked / approval / score profiles '
        '(3..5 candidates, 2..7 ballot types, truncation), every rule of the property; whenever evaluate(votes, 1) == [w], every single-ballot '
        'upward move of w (one place up, to the top; approve w; raise w\'s score) and every added ballot ranking w first (a bullet vote for all rules; '
        'also longer ballots for the additive rules and Oklahoma) must again give [w]. pa-*: PreferenceAddition.evaluate against the model on random / small exhaustive '
        'ranked profiles (truncation, shared ranks, 6 coefficient specs incl. an empty list, split on/off, 1..4 seats). sole-winner-shared-ranks: Bucklin / Oklahoma, every upward move of '
        'the sole winner on a ballot WITH shared ranks (to a higher place; out of a shared rank to a place of its own). rc-tie: RankedToCondorcetVotes.convert against the model '
        '(profiles with shared ranks, truncation, zero weights, and their moved copies). rc-move-exact: on the implementation, moving a candidate up on x units of one ballot changes the '
        'pairwise dictionary exactly as C17_ballot_pairwise_exact says and keeps its candidates; a sole Copeland / minimax winner stays. scorer-nonincreasing: every built-in scorer on a small '
        'exhaustive parameter domain returns n_ranked non-increasing scores. non-trivial = a tie in either result / '
        'a binding cap / previous gains (house, votes), or the move changes some candidate\'s standing (sole-winner); distinct by case hash')
PARTIAL = ['Schulze sole-winner monotonicity: REFUTED for votelib\'s ranking by the number of path-wins (C17_schulze_refuted, witnesses C17_schulze_witness / '
           'C17_schulze_witness_loses, known finding C17-schulze-path-win-count, corpus/C17/schulze-winner-*.json); proved instead: the winner keeps every path-win, '
           'gets no path-defeat and its count does not drop (C17_schulze_partial)',
           'Bucklin / Oklahoma with split shared ranks: proved for the repaired splicing loop also when the CHANGED ballot has shared ranks - the winner on a rank of its own moves up past '
           'plain or shared ranks (C17_bucklin_shared, C17_oklahoma_shared, C17_preference_addition_shared) or leaves a shared rank for a place of its own (C17_bucklin_leave_shared, '
           'C17_oklahoma_leave_shared, C17_preference_addition_leave_shared / _leave_pair); refuted for the loop as written: C17_bucklin_shared_refuted, finding C17-bucklin-splice-offset (fixed). '
           'Other single-ballot improvements of a ballot with shared ranks (e.g. several steps at once that are not a chain of these) fall under C17_preference_addition_split_general per case',
           'Bucklin with a new ballot that ranks further candidates below the winner: refuted (C17_bucklin_added_full_refuted, the participation failure of Bucklin); proved for the bullet vote and for any such ballot under Oklahoma',
           'highest averages: both clauses proved in full (C17_house_exact / C17_house_tie, C17_votes_full: non-strict divisors, zero votes, caps, ties in either run); '
           'hypotheses: divisor positive and non-decreasing on seat counts >= 0, votes >= 0, previous gains >= 0, the party present in both vote vectors',
           'largest remainder is not claimed by the property: Alabama paradox and the loss of a seat after gaining a vote under a rounded quota are kernel-checked on the '
           'model (C17_lr_house_refuted, C17_lr_votes_droop_refuted) and replayed; vote monotonicity under the exact Hare quota (no caps, no previous gains) is proved: C17_lr_hare_votes',
           'positional rules: proved for every built-in scorer that is non-increasing along the ballot - all of Borda, Dowdall, modified Borda, fixed top; Geometric with base >= 1; '
           'SequenceBased with a non-increasing sequence ending non-negative (C17_scorer_ok, C17_positional_any); refuted otherwise (C17_scorers_conditions_needed); '
           'changed ballots with shared ranks: C17_positional_shared / _leave_shared / _leave_pair; an unranked winner ranked and an added ballot need non-negative scores '
           '(C17_positional_rank_unranked, C17_positional_added; Borda with a negative base refuted: C17_positional_negative_refuted)',
           'Copeland / minimax on ballots: proved through the converter model for a winner moving up from a rank of its own or out of a shared rank (C17_copeland_ballots, C17_minimax_ballots, '
           'C17_copeland_ballots_leave, C17_minimax_ballots_leave; unranked_at_bottom=True, the default), an unranked winner being ranked (C17_copeland_ballots_rank, '
           'C17_minimax_ballots_rank), an added bullet vote (C17_*_ballots_added_bullet), any added ballot with the winner alone on top for minimax margins / pairwise opposition '
           '(C17_minimax_ballots_added); REFUTED for a longer added ballot under Copeland and minimax winning votes (C17_copeland_added_long_refuted, '
           'C17_minimax_winvotes_added_long_refuted: participation failures of the methods, like Bucklin); unranked_at_bottom=False is not modelled']
TRUSTED = []
ASSUMPTIONS = ['a "single ballot" is one unit of weight of one ballot type of the profile dictionary']


# ------------------------------------------------------------------ highest averages, relational
def ha_eval(c, n=None, votes=None):
    import votelib.evaluate.proportional as prop
    import votelib.evaluate.core as core
    ev = prop.HighestAverages(c01.divisor_obj(c['div']))
    vv = votes if votes is not None else c['votes']
    pv = {cname(k): (int(q(v)) if q(v).denominator == 1 else q(v)) for k, v in vv}
    kw = {}
    if c['prev']:
        kw['prev_gains'] = {cname(k): v for k, v in c['prev']}
    if c['caps']:
        kw['max_seats'] = {cname(k): v for k, v in c['caps']}
    r = ev.evaluate(pv, c['n'] if n is None else n, **kw)
    seats, tie = {}, None
    for k, v in r.items():
        if isinstance(k, core.Tie):
            tie = (sorted(cnum(x) for x in k), v)
        else:
            seats[cnum(k)] = v
    return seats, tie


def house_clause(n, ra, rb):
    """C17_house / C17_house_exact on two results (seats, tie) for n and n + 1 seats -> None or the reason it fails.
    No tie at n: nobody's sure seats drop.  Tie(T, r) at n: the larger house has the same sure seats and reports Tie(T, r + 1), or
    (r + 1 = |T|) gives every member of T one more sure seat and reports no tie."""
    (sa, ta), (sb, tb) = ra, rb
    for p, s in sa.items():
        if sb.get(p, 0) < s:
            return 'party %d: %d seats in a house of %d, %d in a house of %d' % (p, s, n, sb.get(p, 0), n + 1)
    if ta:
        T, r = sorted(ta[0]), ta[1]
        if tb:
            if sorted(tb[0]) != T or tb[1] != r + 1 or sb != sa:
                return 'Tie(%s, %d) in a house of %d became %s with sure seats %s -> %s (expected the same tie with %d seats)' % (T, r, n, tb, sa, sb, r + 1)
        else:
            exp = dict(sa)
            for p in T:
                exp[p] = exp.get(p, 0) + 1
            if len(T) != r + 1 or sb != exp:
                return 'Tie(%s, %d) in a house of %d was resolved to %s (expected every member one more seat: %s)' % (T, r, n, sb, exp)
    return None


def votes_clause(p, ra, rb):
    """C17_votes_full on two results (seats, tie), party p has gained votes in the second: (i) its sure seats do not drop,
    (ii) its possible total (sure seats + the seat it may get out of a reported tie) does not drop - whatever way either run ends."""
    (sa, ta), (sb, tb) = ra, rb
    pa = 1 if ta and p in ta[0] else 0
    pb = 1 if tb and p in tb[0] else 0
    if sb.get(p, 0) < sa.get(p, 0):
        return 'party %d holds %d seats for certain, %d after gaining votes' % (p, sa.get(p, 0), sb.get(p, 0))
    if sb.get(p, 0) + pb < sa.get(p, 0) + pa:
        return 'party %d can reach %d seats (tie included), only %d after gaining votes' % (p, sa.get(p, 0) + pa, sb.get(p, 0) + pb)
    return None


def house_checks(ctx, stream, cases):
    bad = 0
    cases = list(cases)
    for c in cases:
        ctx.evaluations += 1
        ctx.dist['stream:' + stream] += 1
        ra = common.call_impl(lambda: ha_eval(c), 5)
        rb = common.call_impl(lambda: ha_eval(c, n=c['n'] + 1), 5)
        if ra[0] != 'ok' or rb[0] != 'ok':
            # ValueError (nobody eligible) must occur at both sizes or at neither... only when no party is eligible
            if (ra[0] == 'ok') != (rb[0] == 'ok') and not (ra[0] == 'err' and ra[1] == common.E['VALUE']):
                ctx.dist['house:one-side-error'] += 1
            continue
        (sa, ta), (sb, tb) = ra[1], rb[1]
        if ta or tb or c['prev'] or c['caps']:
            ctx.nontrivial.add(common.case_hash(c))
        if ta:
            ctx.dist['house:tie-at-n'] += 1
            ctx.dist['house:tie-at-n:%s' % ('kept' if tb else 'resolved')] += 1
        why = house_clause(c['n'], ra[1], rb[1])
        if why:
            bad += 1
            ctx.checker_false += 1
            ctx.report(stream, dict(c, kind='house'), '%s | %s' % (ra[1], rb[1]), 'n/a', 'house monotonicity: ' + why)
        elif len(ctx.samples) < 2 and ta:
            ctx.samples.append(dict(stream=stream, case=c, impl='n: %s ; n+1: %s' % (ra[1], rb[1]), model='theorem C17_house_exact'))
    ctx.streams[stream] = dict(cases=len(cases), deviations=bad)


def vote_increment(rng, vp):
    return rng.choice([1, 1, max(1, vp // 10), vp if vp else 7, 10 ** 30, Fraction(1, 3)])


def votes_checks(ctx, stream, cases, rng):
    bad = n = 0
    for c in cases:
        ids = [k for k, _ in c['votes']]
        if not ids:
            continue
        p = rng.choice(ids)
        vp = q(dict((k, v) for k, v in c['votes'])[p])
        inc = vote_increment(rng, vp)
        v2 = [[k, jq(q(v) + inc) if k == p else v] for k, v in c['votes']]
        n += 1
        ctx.evaluations += 1
        ctx.dist['stream:' + stream] += 1
        ra = common.call_impl(lambda: ha_eval(c), 5)
        rb = common.call_impl(lambda: ha_eval(c, votes=v2), 5)
        if ra[0] != 'ok' or rb[0] != 'ok':
            continue
        (sa, ta), (sb, tb) = ra[1], rb[1]
        case = dict(c, kind='votes', party=p, inc=jq(inc))
        if ta or tb or c['prev'] or c['caps']:
            ctx.nontrivial.add(common.case_hash(case))
        if tb:
            ctx.dist['votes:tie-after'] += 1
        if vp == 0:
            ctx.dist['votes:from-zero'] += 1
        why = votes_clause(p, ra[1], rb[1])
        if why:
            bad += 1
            ctx.checker_false += 1
            ctx.report(stream, case, '%s | %s' % (ra[1], rb[1]), 'n/a', 'vote monotonicity: %s (+%s votes)' % (why, inc))
    ctx.streams[stream] = dict(cases=n, deviations=bad)


def votes_exhaustive(ctx, stream, cases):
    """the exhaustive small domain (<= 3 parties, votes 0..3, n 1..4, five divisors): EVERY party gains one vote"""
    bad = n = 0
    for c in cases:
        ra = common.call_impl(lambda: ha_eval(c), 5)
        for p, vp in c['votes']:
            v2 = [[k, v + 1 if k == p else v] for k, v in c['votes']]
            n += 1
            ctx.evaluations += 1
            ctx.dist['stream:' + stream] += 1
            rb = common.call_impl(lambda: ha_eval(c, votes=v2), 5)
            if ra[0] != 'ok' or rb[0] != 'ok':
                continue
            case = dict(c, kind='votes', party=p, inc=1)
            if ra[1][1] or rb[1][1]:
                ctx.nontrivial.add(common.case_hash(case))
            why = votes_clause(p, ra[1], rb[1])
            if why:
                bad += 1
                ctx.checker_false += 1
                ctx.report(stream, case, '%s | %s' % (ra[1], rb[1]), 'n/a', 'vote monotonicity: %s (+1 vote)' % why)
    ctx.streams[stream] = dict(cases=n, deviations=bad)


# ---- the perturbed election itself against the model, judged by the generalised clauses (spec=): stream ha-mono-pairs
def ha_wire_result(wire):
    """(seats, tie) out of the wire value of c01.impl / the model, or None for an error"""
    v = common.parse_sx(wire)
    if v[0] != 0:
        return None
    gains, tie = v[1]
    return {k: s for k, s in gains}, ((sorted(tie[0]), tie[1]) if tie else None)


def mono_pairs(rng, cases):
    """every base case twice: with one more seat, and with more votes for one party; the case is the PERTURBED election and carries
    what has to be undone to get the base election back"""
    for c in cases:
        yield dict(c, n=c['n'] + 1, mono=['house'])
        ids = [k for k, _ in c['votes']]
        if ids:
            p = rng.choice(ids)
            vp = q(dict((k, v) for k, v in c['votes'])[p])
            inc = vote_increment(rng, vp)
            yield dict(c, votes=[[k, jq(q(v) + inc) if k == p else v] for k, v in c['votes']], mono=['votes', p, jq(vp)])


def mono_base(c):
    m = c['mono']
    base = {k: v for k, v in c.items() if k != 'mono'}
    if m[0] == 'house':
        base['n'] = c['n'] - 1
    else:
        base['votes'] = [[k, m[2] if k == m[1] else v] for k, v in c['votes']]
    return base


def mono_spec(c, io, mo):
    """the declarative clauses of C17_house_exact / C17_votes_full on the IMPLEMENTATION's output for the perturbed election (io) and
    its output for the base election"""
    rb = ha_wire_result(io)
    if rb is None:
        return None
    base = mono_base(c)
    r = common.call_impl(lambda: c01.impl(base), 5)
    ra = ha_wire_result(r[1]) if r[0] == 'ok' else None
    if ra is None:
        return None
    if c['mono'][0] == 'house':
        why = house_clause(base['n'], ra, rb)
        return 'house monotonicity: ' + why if why else None
    why = votes_clause(c['mono'][1], ra, rb)
    return 'vote monotonicity: ' + why if why else None


def mono_nontrivial(c):
    return bool(c['prev'] or c['caps'] or any(q(v) == 0 for _, v in c['votes']) or c01.nontrivial(c))


# ------------------------------------------------------------------ sole-winner monotonicity
RANKED_RULES = ['plurality', 'borda', 'borda0', 'dowdall', 'geometric', 'modified_borda', 'fixed_top', 'sequence',
                'bucklin', 'oklahoma', 'copeland_raw', 'copeland_2o', 'minimax_winvotes', 'minimax_margins', 'minimax_pwo', 'schulze']


ADDITIVE = {'plurality', 'borda', 'borda0', 'dowdall', 'geometric', 'modified_borda', 'fixed_top', 'sequence'}
# a longer new ballot with the winner on top is also safe under Oklahoma (coefficients of the later places <= 1/2: C17_oklahoma_added)
LONG_ADDED = ADDITIVE | {'oklahoma', 'minimax_margins', 'minimax_pwo'}


def evalreg_cands(prof):
    out = []
    for b, _ in prof:
        for k in b:
            if k not in out:
                out.append(k)
    return out


def ranked_evaluator(rule):
    import votelib.evaluate.core as core, votelib.convert as conv, votelib.component.rankscore as rs
    import votelib.evaluate.condorcet as cd, votelib.evaluate.sequential as seq
    P = core.Plurality()
    if rule == 'plurality':
        return core.PreConverted(conv.RankedToFirstPreference(), P)
    scorers = dict(borda=lambda: rs.Borda(), borda0=lambda: rs.Borda(base=0), dowdall=lambda: rs.Dowdall(),
                   geometric=lambda: rs.Geometric(2), modified_borda=lambda: rs.ModifiedBorda(),
                   fixed_top=lambda: rs.FixedTop(3), sequence=lambda: rs.SequenceBased([5, 3, 3, 1]))
    if rule in scorers:
        return core.PreConverted(conv.RankedToPositionalVotes(scorers[rule]()), P)
    if rule == 'bucklin':
        return seq.PreferenceAddition()
    if rule == 'oklahoma':
        return seq.PreferenceAddition(coefficients=lambda i: Fraction(1, i + 1))
    return core.PreConverted(conv.RankedToCondorcetVotes(), cd.EVALUATORS[rule])


def gen_ranked_profile(rng, big=False):
    m = rng.randint(5, 6) if big else rng.randint(3, 5)
    ids = list(range(1, m + 1))
    prof = {}
    short = rng.random() < 0.3 and not big   # every ballot truncated: an added ballot can be longer than all existing ones
    for _ in range(rng.randint(4, 9) if big else rng.randint(2, 7)):
        perm = ids[:]
        rng.shuffle(perm)
        if short:
            perm = perm[:rng.randint(1, m - 1)]
        elif rng.random() < 0.35:
            perm = perm[:rng.randint(1, m)]
        prof[tuple(perm)] = prof.get(tuple(perm), 0) + rng.randint(1, 4)
    return [[list(b), w] for b, w in prof.items()]


def py_ranked(prof):
    return {tuple(cname(k) for k in b): w for b, w in prof}


def sole_winner(res):
    import votelib.evaluate.core as core
    if isinstance(res, list) and len(res) == 1 and not isinstance(res[0], core.Tie):
        return cnum(res[0])
    return None


def moved(prof, bi, b2):
    """one unit of weight of ballot type bi becomes ballot b2"""
    out = []
    for i, (b, w) in enumerate(prof):
        if i == bi:
            if w > 1:
                out.append([b, w - 1])
        else:
            out.append([b, w])
    for x in out:
        if x[0] == b2:
            x[1] += 1
            return out
    out.append([b2, 1])
    return out


def upward_moves(b, w):
    if w not in b:
        # an unranked candidate counts as ranked below everybody on the ballot (last for the positional scorers, never
        # reached by Bucklin, unranked_at_bottom for the pairwise rules): ranking it anywhere is an upward move
        yield b + [w]
        if len(b) > 1:
            yield b[:len(b) // 2] + [w] + b[len(b) // 2:]
        yield [w] + b
        return
    i = b.index(w)
    if i == 0:
        return
    yield b[:i - 1] + [w, b[i - 1]] + b[i + 1:]
    if i > 1:
        yield [w] + b[:i] + b[i + 1:]


def strongest_paths(pairs, cands):
    """independent reference: strength of the strongest beat-path a -> b = the largest s such that b is reachable from a
    through direct wins carried by at least s winning votes (threshold search, no Floyd-Warshall)"""
    link = {}
    for a in cands:
        for b in cands:
            if a != b and pairs.get((a, b), 0) > pairs.get((b, a), 0):
                link[a, b] = pairs[a, b]
    levels = sorted(set(link.values()), reverse=True)
    P = {}
    for a in cands:
        for s in levels:
            seen, todo = {a}, [a]
            while todo:
                x = todo.pop()
                for y in cands:
                    if y not in seen and link.get((x, y), 0) >= s:
                        seen.add(y)
                        todo.append(y)
            for y in seen:
                if y != a and (a, y) not in P:
                    P[a, y] = s
    return P


def moved_profile(case):
    if case.get('kind') == 'sole-ranked':
        return moved([[list(b), w] for b, w in case['profile']], case['ballot'], list(case['new_ballot']))
    if case.get('kind') == 'sole-added':
        p2 = [[list(b), w] for b, w in case['profile']]
        for x in p2:
            if x[0] == list(case['new_ballot']):
                x[1] += 1
                return p2
        return p2 + [[list(case['new_ballot']), 1]]
    return None


def schulze_known_class(case, io, mo):
    """C17-schulze-path-win-count (refuted: Props/C17.v C17_schulze_refuted): votelib ranks by the NUMBER of path-wins.
    The deviation belongs to this class iff, by an independent strongest-path computation on both profiles, the old winner
    kept every path-win and suffers no path-defeat (what C17_schulze_partial proves) - i.e. only the others' counts rose."""
    if case.get('rule') != 'schulze':
        return None
    import votelib.convert as conv
    p2 = moved_profile(case)
    if p2 is None:
        return None
    w = cname(case['winner'])
    cv = conv.RankedToCondorcetVotes()
    v1, v2 = cv.convert(py_ranked(case['profile'])), cv.convert(py_ranked(p2))
    cs = sorted({x for pr in list(v1) + list(v2) for x in pr})
    P1, P2 = strongest_paths(v1, cs), strongest_paths(v2, cs)
    for x in cs:
        if x == w:
            continue
        if P2.get((w, x), 0) < P1.get((w, x), 0) or P2.get((x, w), 0) > P1.get((x, w), 0):
            return None          # a path out of the winner weakened / into it strengthened: NOT the known class
        if P2.get((x, w), 0) > P2.get((w, x), 0):
            return None          # the old winner is path-defeated: a different (unexpected) failure

    # ... and the failure must be the one the path-win COUNT of the true strongest paths produces: the reference count makes w
    # the sole leader before the move and not after it (a failure the true table does not explain is a violation)
    def ref_sole(P):
        wins = {a: sum(1 for x in cs if x != a and P.get((a, x), 0) > P.get((x, a), 0)) for a in cs}
        top = max(wins.values())
        lead = [a for a in cs if wins[a] == top]
        return lead[0] if len(lead) == 1 else None
    if ref_sole(P1) != w or ref_sole(P2) == w:
        return None
    return 'C17-schulze-path-win-count'


def sole_winner_ranked(ctx, stream, count, rng, beatpath=False):
    bad = n = 0
    pairwise = [r for r in RANKED_RULES if r not in ADDITIVE and r not in ('bucklin', 'oklahoma')]
    for _ in range(count):
        big = rng.random() < 0.25          # 5-6 candidates, many ballot types: long beat-paths and top cycles (pairwise rules)
        prof = gen_beatpath_profile(rng) if beatpath else gen_ranked_profile(rng, big)
        rule = (rng.choice(pairwise + ['schulze'] * len(pairwise)) if beatpath else rng.choice(pairwise) if big
                else rng.choice(RANKED_RULES + ['modified_borda', 'modified_borda', 'sequence', 'fixed_top']))
        r0 = common.call_impl(lambda: ranked_evaluator(rule).evaluate(py_ranked(prof), 1), 10)
        ctx.evaluations += 1
        ctx.dist['stream:' + stream] += 1
        if r0[0] != 'ok':
            ctx.dist['sole:%s:refused' % rule] += 1
            continue
        w = sole_winner(r0[1])
        if w is None:
            ctx.dist['sole:no-sole-winner'] += 1
            continue
        ctx.dist['sole:' + rule] += 1
        # a new ballot that ranks the winner first: a bullet vote for every rule; for the additive rules also ballots
        # that go on to rank (some of) the others (for pairwise rules and Bucklin those change the contests among the
        # others - the participation failure of such methods, not a monotonicity defect; see DESIGN.md C17)
        others = [k for k in evalreg_cands(prof) if k != w]
        added = [[w]]
        if rule in LONG_ADDED:
            rng.shuffle(others)
            added += [[w] + others, [w] + others[:rng.randint(0, len(others))], [w] + others[::-1], [w] + others[1:] + others[:1]]
        for nb in added:
            p2 = [[list(b), wt] for b, wt in prof]
            for x in p2:
                if x[0] == nb:
                    x[1] += 1
                    break
            else:
                p2.append([nb, 1])
            n += 1
            r1 = common.call_impl(lambda: ranked_evaluator(rule).evaluate(py_ranked(p2), 1), 10)
            case = dict(kind='sole-added', rule=rule, profile=prof, new_ballot=nb, winner=w)
            ctx.evaluations += 1          # every moved / added variant is an implementation run of its own
            ctx.nontrivial.add(common.case_hash(case))
            got = sole_winner(r1[1]) if r1[0] == 'ok' else None
            if got != w:
                bad += 1
                ctx.checker_false += 1
                ctx.report(stream, case, str(r1[1:]), 'n/a',
                           '%s: sole winner %s no longer the sole winner after ADDING the ballot %s: %s' % (rule, cname(w), nb, r1[1:]),
                           known_class=schulze_known_class)
        for bi, (b, _) in enumerate(prof):
            for b2 in upward_moves(b, w):
                p2 = moved(prof, bi, b2)
                n += 1
                r1 = common.call_impl(lambda: ranked_evaluator(rule).evaluate(py_ranked(p2), 1), 10)
                case = dict(kind='sole-ranked', rule=rule, profile=prof, ballot=bi, new_ballot=b2, winner=w)
                ctx.evaluations += 1          # every moved / added variant is an implementation run of its own
                ctx.nontrivial.add(common.case_hash(case))
                got = sole_winner(r1[1]) if r1[0] == 'ok' else None
                if got != w:
                    bad += 1
                    ctx.checker_false += 1
                    ctx.report(stream, case, str(r1[1:]), 'n/a',
                               '%s: sole winner %s no longer the sole winner after moving it up on one ballot (%s -> %s): %s'
                               % (rule, cname(w), b, b2, r1[1:]), known_class=schulze_known_class)
    ctx.streams[stream] = dict(cases=n, deviations=bad)


def gen_beatpath_profile(rng):
    """six candidates, strict complete rankings, a handful of voters: close pairwise contests, top cycles and long beat-paths"""
    ids = list(range(1, 7))
    prof = {}
    for _ in range(rng.randint(4, 9)):
        perm = ids[:]
        rng.shuffle(perm)
        prof[tuple(perm)] = prof.get(tuple(perm), 0) + 1
    return [[list(b), w] for b, w in prof.items()]


def sole_winner_cardinal(ctx, stream, count, rng):
    import votelib.evaluate.core as core, votelib.convert as conv, votelib.evaluate.cardinal as card
    bad = n = 0
    for _ in range(count):
        m = rng.randint(3, 5)
        ids = list(range(1, m + 1))
        kind = rng.choice(['approval', 'sav', 'score_sum', 'score_sum_unscored0', 'score_sum_unscored_min', 'score_sum_unscored_mean',
                           'score_sum_unscored_median'])
        ctx.evaluations += 1
        ctx.dist['stream:' + stream] += 1
        if kind in ('approval', 'sav'):
            prof = {}
            for _ in range(rng.randint(2, 7)):
                b = tuple(sorted(rng.sample(ids, rng.randint(1, m - 1))))
                prof[b] = prof.get(b, 0) + rng.randint(1, 4)
            prof = [[list(b), w] for b, w in prof.items()]
            ev = core.PreConverted(conv.ApprovalToSimpleVotes(split=(kind == 'sav')), core.Plurality())
            py = lambda p: {frozenset(cname(k) for k in b): w for b, w in p}     # noqa
            def moves(b, w):     # noqa
                if w not in b:
                    yield sorted(b + [w])
        else:
            prof = {}
            for _ in range(rng.randint(2, 7)):
                cs = rng.sample(ids, rng.randint(1, m))
                b = tuple(sorted((k, rng.randint(1 if kind.endswith('min') else 0, 5)) for k in cs))
                prof[b] = prof.get(b, 0) + rng.randint(1, 4)
            prof = [[[list(x) for x in b], w] for b, w in prof.items()]
            ev = card.ScoreVoting('sum', unscored_value=(0 if kind.endswith('0') else kind.rsplit('_', 1)[1] if kind.count('unscored') else None))
            py = lambda p: {frozenset((cname(k), s) for k, s in b): w for b, w in p}     # noqa
            def moves(b, w):     # noqa
                for i, (k, s) in enumerate(b):
                    if k == w and s < 5:
                        yield b[:i] + [[k, s + 1]] + b[i + 1:]
                        yield b[:i] + [[k, 5]] + b[i + 1:]
        r0 = common.call_impl(lambda: ev.evaluate(py(prof), 1), 10)
        if r0[0] != 'ok':
            continue
        w = sole_winner(r0[1])
        if w is None:
            continue
        ctx.dist['sole:' + kind] += 1
        for bi, (b, _) in enumerate(prof):
            for b2 in moves(b, w):
                p2 = moved(prof, bi, b2)
                n += 1
                r1 = common.call_impl(lambda: ev.evaluate(py(p2), 1), 10)
                case = dict(kind='sole-' + kind, profile=prof, ballot=bi, new_ballot=b2, winner=w)
                ctx.evaluations += 1          # every moved / added variant is an implementation run of its own
                ctx.nontrivial.add(common.case_hash(case))
                got = sole_winner(r1[1]) if r1[0] == 'ok' else None
                if got != w:
                    bad += 1
                    ctx.checker_false += 1
                    ctx.report(stream, case, str(r1[1:]), 'n/a',
                               '%s: sole winner %s lost after raising it on one ballot (%s -> %s): %s' % (kind, cname(w), b, b2, r1[1:]))
    ctx.streams[stream] = dict(cases=n, deviations=bad)


# ------------------------------------------------------------------ PreferenceAddition (Bucklin / Oklahoma) vs the model
PA_COEFS = [['list', [1]], ['harmonic'], ['list', [1, '1/2', '1/4']], ['list', [1, 0, 2]], ['list', ['1/2', 1]], ['list', []]]


def pa_py_ballot(b):
    """case ballot (ints = plain ranks, lists = shared ranks) -> Python tuple"""
    return tuple(frozenset(cname(k) for k in it) if isinstance(it, list) else cname(it) for it in b)


def pa_py_coefs(spec):
    if spec[0] == 'harmonic':
        return lambda i: Fraction(1, i + 1)
    return [int(q(x)) if q(x).denominator == 1 else q(x) for x in spec[1]]


_SPLICE = []


def pa_splice_fixed():
    """which splicing loop does the implementation's _decouple_equal_rankings have?  As written (0) the second shared rank of a
    ballot stays in the ballot; with fixes/C17-bucklin-splice-offset.diff (1) it does not.  The model has both (Model/Bucklin.v fx)."""
    if not _SPLICE:
        import votelib.evaluate.sequential as seq
        d = seq.PreferenceAddition()._decouple_equal_rankings({(frozenset(['A']), frozenset(['B']), 'C'): 1})
        _SPLICE.append(0 if any(isinstance(it, frozenset) for b in d for it in b) else 1)
    return _SPLICE[0]


def pa_model_line(c):
    votes = []
    for b, w in c['votes']:
        # a shared rank goes to the model in the ITERATION order of the frozenset the implementation will see
        mb = [[cnum(x) for x in it] if isinstance(it, frozenset) else cnum(it) for it in pa_py_ballot(b)]
        votes.append([mb, q(w)])
    cs = [1] if c['coefs'][0] == 'harmonic' else [0, [q(x) for x in c['coefs'][1]]]
    return '%d (%d %s %d %s %d)' % (BLOCK['C17'] + 0, pa_splice_fixed(), sx(cs), 1 if c['split'] else 0, sx(votes), c['n'])


def pa_evaluator(c):
    import votelib.evaluate.sequential as seq
    return seq.PreferenceAddition(coefficients=pa_py_coefs(c['coefs']), split_equal_rankings=c['split'])


def pa_impl(c):
    import votelib.evaluate.core as core
    votes = {pa_py_ballot(b): (int(q(w)) if q(w).denominator == 1 else q(w)) for b, w in c['votes']}
    res = pa_evaluator(c).evaluate(votes, c['n'])
    return ok([sorted(cnum(x) for x in r) if isinstance(r, core.Tie) else cnum(r) for r in res])


def pa_canon(c, wire):
    v = common.parse_sx(wire)
    if v[0] == 4:
        return ('unmodelled',)
    if v[0] != 0:
        return ('err', v[1])
    return ('ok', tuple(tuple(sorted(r)) if isinstance(r, list) else r for r in v[1]))


def pa_nontrivial(c):
    return c['n'] > 1 or any(isinstance(it, list) for b, _ in c['votes'] for it in b) or c['coefs'] != ['list', [1]]


def pa_spec(c, io, mo):
    """declarative clause on the implementation's output: a single Bucklin winner holds more than half of the (weighted)
    ballots within the preferences counted when it is elected, i.e. within all of them"""
    v = common.parse_sx(io)
    if v[0] != 0 or c['n'] != 1 or c['coefs'] != ['list', [1]] or len(v[1]) != 1 or isinstance(v[1][0], list):
        return None
    w = v[1][0]
    tot = sum(q(x) for _, x in c['votes'])
    sup = sum(q(x) for b, x in c['votes'] if any((w in it) if isinstance(it, list) else w == it for it in b))
    if not sup * 2 > tot:
        return 'Bucklin winner %s is ranked on %s of %s ballots only: no majority at any round' % (cname(w), sup, tot)
    return None


def pa_diff_known(c, io, mo):
    """the majority clause can fail through the splicing defect (a ballot with two shared ranks counts a candidate twice: as a member
    of the shared rank that stays and as the permuted copy) - only when the model agrees with the implementation about the result"""
    if (not pa_splice_fixed() and c['split'] and pa_canon(c, io) == pa_canon(c, mo)
            and any(sum(isinstance(it, list) for it in b) >= 2 for b, _ in c['votes'])):
        return 'C17-bucklin-splice-offset'
    return None


def gen_pa_ballot(rng, ids, shared_p):
    perm = ids[:]
    rng.shuffle(perm)
    if rng.random() < 0.45:
        perm = perm[:rng.randint(0 if rng.random() < 0.05 else 1, len(perm))]
    out, i = [], 0
    while i < len(perm):
        if rng.random() < shared_p:
            k = rng.randint(1, min(3, len(perm) - i))
            out.append(sorted(perm[i:i + k], key=lambda _: rng.random()))
            i += k
        else:
            out.append(perm[i])
            i += 1
    return out


def gen_pa(rng, count):
    for _ in range(count):
        m = rng.randint(2, 5)
        ids = list(range(1, m + 1))
        shared_p = rng.choice([0, 0, 0.15, 0.4])
        prof = []
        seen = set()
        for _ in range(rng.randint(0 if rng.random() < 0.02 else 1, 7)):
            b = gen_pa_ballot(rng, ids, shared_p)
            key = pa_py_ballot(b)
            if key in seen:
                continue
            seen.add(key)
            w = rng.choice([rng.randint(1, 4), rng.randint(1, 4), rng.randint(0, 12), jq(Fraction(rng.randint(1, 9), rng.randint(1, 4)))])
            prof.append([b, w])
        coefs = rng.choice([PA_COEFS[0]] * 4 + [PA_COEFS[1]] * 3 + PA_COEFS[2:5] + ([PA_COEFS[5]] if rng.random() < 0.1 else []))
        yield dict(unit='preference_addition', coefs=coefs, split=rng.random() < 0.75, votes=prof, n=rng.randint(1, min(4, m)))


def gen_pa_exhaustive():
    """all profiles of <= 2 ballot types over 3 candidates (full and truncated strict rankings, one shared pair), weights 1..2,
    Bucklin and Oklahoma, 1..2 seats"""
    ballots = []
    for k in (1, 2, 3):
        ballots += [list(p) for p in itertools.permutations([1, 2, 3], k)]
    ballots += [[[1, 2], 3], [3, [1, 2]], [[2, 3]], [1, [2, 3]]]
    for i, a in enumerate(ballots):
        for b in ballots[i + 1:]:
            for wa, wb in ((1, 1), (2, 1), (1, 2)):
                for coefs in PA_COEFS[:2]:
                    for n in (1, 2):
                        yield dict(unit='preference_addition', coefs=coefs, split=True, votes=[[a, wa], [b, wb]], n=n)


# ------------------------------------------------------------------ Bucklin / Oklahoma: upward moves on ballots WITH shared ranks
KNOWN_SPLICE = 'C17-bucklin-splice-offset'


def n_shared(b):
    return sum(isinstance(it, list) for it in b)


def shared_moves(b, w, rng):
    """w (a plain rank) moves to any higher place; w leaves a shared rank for a place of its own above it"""
    for i, it in enumerate(b):
        if it == w:
            for j in range(i):
                yield b[:j] + [w] + b[j:i] + b[i + 1:]
        elif isinstance(it, list) and w in it and len(it) > 1:
            rest = [k for k in it if k != w]
            r = [rest[0]] if len(rest) == 1 and rng.random() < 0.5 else [rest]
            for j in range(i + 1):
                yield b[:j] + [w] + b[j:i] + r + b[i + 1:]


def pa_known_class(case, io, mo):
    if not pa_splice_fixed() and (n_shared(case['old_ballot']) >= 2 or n_shared(case['new_ballot']) >= 2):
        return KNOWN_SPLICE
    return None


def shared_case_check(ctx, stream, case):
    """re-evaluate one recorded move; report when the sole winner is lost (True = a failure outside the known class)"""
    ev = ranked_evaluator(case['rule'])
    def run(p):     # noqa
        votes = {}
        for b, x in p:
            k = pa_py_ballot(b)
            votes[k] = votes.get(k, 0) + x
        return common.call_impl(lambda: ev.evaluate(votes, 1), 10)
    r0 = run(case['profile'])
    if r0[0] != 'ok' or sole_winner(r0[1]) != case['winner']:
        return False
    p2 = [[b, x - (1 if i == case['ballot'] else 0)] for i, (b, x) in enumerate(case['profile'])]
    p2 = [bx for bx in p2 if bx[1] > 0] + [[case['new_ballot'], 1]]
    r1 = run(p2)
    if r1[0] == 'ok' and sole_winner(r1[1]) == case['winner']:
        return False
    known = pa_known_class(case, None, None)
    if not known:
        ctx.checker_false += 1
    ctx.report(stream, case, str(r1[1:]), 'n/a', '%s: sole winner %s no longer the sole winner after moving it up on the ballot %s -> %s: %s'
               % (case['rule'], cname(case['winner']), case['old_ballot'], case['new_ballot'], r1[1:]), pa_known_class)
    return not known


def sole_winner_shared(ctx, stream, count, rng):
    bad = n = 0
    for _ in range(count):
        m = rng.randint(3, 5)
        ids = list(range(1, m + 1))
        prof, seen = [], set()
        for _ in range(rng.randint(1, 6)):
            b = gen_pa_ballot(rng, ids, rng.choice([0.2, 0.5]))
            if not b or pa_py_ballot(b) in seen:
                continue
            seen.add(pa_py_ballot(b))
            prof.append([b, rng.randint(1, 4)])
        if not prof:
            continue
        rule = rng.choice(['bucklin', 'oklahoma'])
        ctx.evaluations += 1
        ctx.dist['stream:' + stream] += 1
        ev = ranked_evaluator(rule)
        r0 = common.call_impl(lambda: ev.evaluate({pa_py_ballot(b): x for b, x in prof}, 1), 10)
        w = sole_winner(r0[1]) if r0[0] == 'ok' else None
        if w is None:
            continue
        for bi, (b, _) in enumerate(prof):
            if not n_shared(b):
                continue
            for b2 in shared_moves(b, w, rng):
                n += 1
                case = dict(kind='sole-shared', rule=rule, profile=prof, ballot=bi, old_ballot=b, new_ballot=b2, winner=w)
                ctx.evaluations += 1          # every moved / added variant is an implementation run of its own
                ctx.nontrivial.add(common.case_hash(case))
                ctx.dist['shared-move:%d-shared-ranks' % min(2, max(n_shared(b), n_shared(b2)))] += 1
                if shared_case_check(ctx, stream, case):
                    bad += 1
    ctx.streams[stream] = dict(cases=n, deviations=bad)


# ------------------------------------------------------------------ positional rules: the changed ballot WITH shared ranks
# (Proofs/PositionalShared_proofs.v: C17_positional_shared / _leave_shared / _leave_pair / _rank_unranked / _added are about Model/Convert.v
# [img_positional]; unit C13 `convert` kind positional is that model on the wire - stream pos-tie)
POS_CFGS = [['borda', 1], ['borda', 0], ['dowdall', 0], ['geometric', 2], ['modified', 0], ['fixedtop', 3], ['sequence', [5, 3, 3, 1]]]


def pos_evaluate(cfg, prof):
    import votelib.evaluate.core as core
    import props.c13 as c13
    conv = c13.converter(dict(kind='positional', cfg=cfg))
    votes = {}
    for b, x in prof:
        k = pa_py_ballot(b)
        votes[k] = votes.get(k, 0) + x
    return common.call_impl(lambda: core.PreConverted(conv, core.Plurality()).evaluate(votes, 1), 10)


def positional_moves(b, w, others, rng):
    """upward moves of w on a ballot with shared ranks: to a higher place / out of a shared rank to a place of its own (shared_moves);
    an unranked w gets ranked at any place"""
    if w in rc_flat(b):
        for b2 in shared_moves(b, w, rng):
            yield 'move', b2
    else:
        for j in range(len(b) + 1):
            yield 'rank', b[:j] + [w] + b[j:]


def positional_case_check(ctx, stream, case):
    """re-evaluate one recorded change; -> True when the sole winner is lost"""
    r0 = pos_evaluate(case['cfg'], case['profile'])
    if r0[0] != 'ok' or sole_winner(r0[1]) != case['winner']:
        return False
    if case['what'] == 'added':
        p2 = case['profile'] + [[case['new_ballot'], 1]]
    else:
        p2 = [[b, x - (1 if i == case['ballot'] else 0)] for i, (b, x) in enumerate(case['profile'])]
        p2 = [bx for bx in p2 if bx[1] > 0] + [[case['new_ballot'], 1]]
    r1 = pos_evaluate(case['cfg'], p2)
    if r1[0] == 'ok' and sole_winner(r1[1]) == case['winner']:
        return False
    ctx.checker_false += 1
    ctx.report(stream, case, str(r1[1:]), 'n/a', 'positional %s: sole winner %s no longer the sole winner after %s: %s'
               % (case['cfg'], cname(case['winner']), ('adding the ballot %s' % case['new_ballot']) if case['what'] == 'added'
                  else 'the change %s -> %s on one ballot' % (case['profile'][case['ballot']][0], case['new_ballot']), r1[1:]))
    return True


def sole_winner_positional_shared(ctx, stream, count, rng):
    import props.c13 as c13
    bad = n = 0
    ties = []
    for _ in range(count):
        m = rng.randint(3, 5)
        ids = list(range(1, m + 1))
        prof, seen = [], set()
        for _ in range(rng.randint(1, 6)):
            b = gen_pa_ballot(rng, ids, rng.choice([0.2, 0.5]))
            if not b or pa_py_ballot(b) in seen:
                continue
            seen.add(pa_py_ballot(b))
            prof.append([b, rng.randint(1, 4)])
        if not prof:
            continue
        cfg = rng.choice(POS_CFGS)
        ctx.evaluations += 1
        ctx.dist['stream:' + stream] += 1
        r0 = pos_evaluate(cfg, prof)
        w = sole_winner(r0[1]) if r0[0] == 'ok' else None
        if w is None:
            continue
        cands = sorted({k for b, _ in prof for k in rc_flat(b)})
        others = [k for k in cands if k != w]
        changes = []
        for bi, (b, _) in enumerate(prof):
            for what, b2 in positional_moves(b, w, others, rng):
                if what == 'rank' or n_shared(b) or n_shared(b2):
                    changes.append((what, bi, b2))
        if others:
            for _ in range(2):
                rest = gen_pa_ballot(rng, others, rng.choice([0.3, 0.6]))
                changes.append(('added', None, [w] + rest))
        for what, bi, b2 in changes:
            n += 1
            case = dict(kind='sole-positional', what=what, cfg=cfg, profile=prof, ballot=bi, new_ballot=b2, winner=w)
            ctx.evaluations += 1
            ctx.nontrivial.add(common.case_hash(case))
            ctx.dist['positional-shared:%s' % what] += 1
            if positional_case_check(ctx, stream, case):
                bad += 1
            elif rng.random() < 0.06:
                p2 = rc_replace(prof + [[b2, 1]], len(prof), b2, 1) if what == 'added' else rc_replace(prof, bi, b2, 1)
                ties.append(dict(kind='positional', cfg=cfg, votes=prof))
                ties.append(dict(kind='positional', cfg=cfg, votes=p2))
    ctx.streams[stream] = dict(cases=n, deviations=bad)
    ctx.differential('pos-tie', ties, c13.model_line, c13.impl, canon=c13.canon, nontrivial=lambda c: True)


# ------------------------------------------------------------------ RankedToCondorcetVotes: model tie + the exact effect of ONE moved ballot
# (Proofs/RaisesBallot_proofs.v: pairwise_move_exact / pairwise_move_cands / copeland_ballot_monotone / minimax_ballot_monotone are
# about Model/Hybrids.v [pairwise]; unit C05+2 is that model on the wire)
def rc_flat(items):
    return [x for it in items for x in (it if isinstance(it, list) else [it])]


def rc_replace(prof, bi, b2, x):
    """x units of ballot type bi become ballot b2 (merged with an equal ballot: a Python dict has one entry per ballot)"""
    out = []
    for i, (b, w) in enumerate(prof):
        if i == bi:
            if w - x > 0:
                out.append([b, w - x])
        else:
            out.append([b, w])
    for y in out:
        if pa_py_ballot(y[0]) == pa_py_ballot(b2):
            y[1] += x
            return out
    out.append([b2, x])
    return out


def gen_rc_profile(rng):
    m = rng.randint(2, 6)
    ids = list(range(1, m + 1))
    prof, seen = [], set()
    sp = rng.choice([0, 0.2, 0.5])
    for _ in range(rng.randint(1, 7)):
        b = gen_pa_ballot(rng, ids, sp)
        if pa_py_ballot(b) in seen:
            continue
        seen.add(pa_py_ballot(b))
        prof.append([b, rng.choice([1, rng.randint(1, 4), rng.randint(1, 4), rng.randint(0, 12)])])
    return prof


def rc_convert(prof):
    import votelib.convert as conv
    import evalreg
    d = conv.RankedToCondorcetVotes().convert(evalreg.to_python('ranked', prof))
    return {(cnum(a), cnum(b)): n for (a, b), n in d.items()}


PAIRWISE_MONO = ['copeland_raw', 'copeland_2o', 'minimax_winvotes', 'minimax_margins', 'minimax_pwo']


def rc_move_check(ctx, stream, case):
    """the theorem's statement on the implementation: moving w (on a rank of its own) up past the items b[j:i] of ballot bi, for x units
    of that ballot, adds x * (number of times c was jumped) to count(w, c), takes the same from count(c, w), changes nothing else and keeps
    the candidates of the dictionary; a sole Copeland / minimax winner w stays the sole winner.  With `member`: w leaves the shared rank b[i]
    for a place of its own at j <= i - count(w, c) also rises by x for every other member c of that rank (C17_ballot_leave_exact; the
    candidate set is compared when the old dictionary is not empty).  -> True if it fails"""
    import evalreg
    prof, bi, i, j, x = case['profile'], case['ballot'], case['i'], case['j'], case['x']
    b = prof[bi][0]
    if case.get('member') is not None:
        # w leaves the shared rank b[i] for a place of its own at j <= i (C17_ballot_leave_exact, then C17_ballot_pairwise_exact)
        w = case['member']
        rest = [k for k in b[i] if k != w]
        jumped = rc_flat(b[j:i])
        below = rest
        b2 = b[:j] + [w] + b[j:i] + ([rest[0]] if len(rest) == 1 and case.get('plain_rest') else [rest]) + b[i + 1:]
    else:
        w = b[i]
        jumped = rc_flat(b[j:i])
        below = []
        b2 = b[:j] + [w] + b[j:i] + b[i + 1:]
    p2 = rc_replace(prof, bi, b2, x)
    r0 = common.call_impl(lambda: rc_convert(prof), 10)
    r1 = common.call_impl(lambda: rc_convert(p2), 10)
    if r0[0] != 'ok' or r1[0] != 'ok':
        if r0[0] != r1[0]:
            ctx.checker_false += 1
            ctx.report(stream, case, str(r1[1:]), str(r0[1:]), 'RankedToCondorcetVotes: one of the two conversions failed: %s / %s' % (r0, r1))
            return True
        return False
    d0, d1 = r0[1], r1[1]
    why = None
    if w in jumped or w in below:
        return False          # outside the statement (w ranked twice)
    for (a, c) in set(d0) | set(d1):
        exp = d0.get((a, c), 0) + x * ((1 if a == w else 0) * (jumped.count(c) + below.count(c)) - jumped.count(a) * (1 if c == w else 0))
        if d1.get((a, c), 0) != exp:
            why = 'count(%s, %s) is %s after %s moved up past %s on %d unit(s) of ballot %s, expected %s (was %s)' % (
                cname(a), cname(c), d1.get((a, c), 0), cname(w), jumped, x, b, exp, d0.get((a, c), 0))
            break
    if not why and (d0 or not below) and {k for pr in d0 for k in pr} != {k for pr in d1 for k in pr}:
        why = 'the candidates of the pairwise dictionary changed: %s -> %s' % (sorted({k for pr in d0 for k in pr}), sorted({k for pr in d1 for k in pr}))
    if not why and case.get('rule'):
        import votelib.evaluate.condorcet as cd
        ev = cd.EVALUATORS[case['rule']]
        py = lambda d: {(cname(a), cname(c)): n for (a, c), n in d.items()}     # noqa
        e0 = common.call_impl(lambda: ev.evaluate(py(d0), 1), 10)
        if e0[0] == 'ok' and sole_winner(e0[1]) == w:
            ctx.dist['rc-move:sole-winner-moved'] += 1
            e1 = common.call_impl(lambda: ev.evaluate(py(d1), 1), 10)
            if not (e1[0] == 'ok' and sole_winner(e1[1]) == w):
                why = '%s: sole winner %s no longer the sole winner after moving up past %s on ballot %s: %s' % (case['rule'], cname(w), jumped, b, e1[1:])
    if why:
        ctx.checker_false += 1
        ctx.report(stream, case, str(sorted(d1.items())), str(sorted(d0.items())), why)
        return True
    return False


def rc_pair_coef(cs, r, a, c):
    """what one unit of ballot r adds to count(a, c) (unranked_at_bottom=True; cs = the candidates of the profile): a on a higher rank than c,
    or a ranked and c not ranked on r"""
    pos = {}
    for i, it in enumerate(r):
        for k in (it if isinstance(it, list) else [it]):
            pos.setdefault(k, []).append(i)
    n = sum(1 for i in pos.get(a, []) for j in pos.get(c, []) if i < j)
    if c not in pos and c in cs:
        n += len(pos.get(a, []))
    return n


def rc_delta_check(ctx, stream, case):
    """C17_ballot_rank_exact / C17_ballot_added_exact / C17_ballot_bullet_exact on the implementation, and the sole winner where proved.
    kind rc-rank: candidate w, not on ballot bi, gets ranked at place j on x units of it; kind rc-added: x units of the ballot `new_ballot`
    (w alone on top) are added.  -> True if it fails"""
    prof, x, w = case['profile'], case['x'], case['cand']
    cs = sorted({k for b, _ in prof for k in rc_flat(b)})
    if case['kind'] == 'rc-rank':
        b = prof[case['ballot']][0]
        b2 = b[:case['j']] + [w] + b[case['j']:]
        p2 = rc_replace(prof, case['ballot'], b2, x)
        below = rc_flat(b[case['j']:])
        still = [k for k in cs if k not in rc_flat(b2)]
        exp = lambda a, c: x * ((1 if a == w else 0) * (below.count(c) + still.count(c)) - below.count(a) * (1 if c == w else 0))     # noqa
        proved = PAIRWISE_MONO
    else:
        b2 = case['new_ballot']
        p2 = [[bb, wt] for bb, wt in prof]
        for y in p2:
            if pa_py_ballot(y[0]) == pa_py_ballot(b2):
                y[1] += x
                break
        else:
            p2.append([b2, x])
        exp = lambda a, c: x * rc_pair_coef(cs, b2, a, c)     # noqa
        proved = PAIRWISE_MONO if len(b2) == 1 else ['minimax_margins', 'minimax_pwo']
    r0 = common.call_impl(lambda: rc_convert(prof), 10)
    r1 = common.call_impl(lambda: rc_convert(p2), 10)
    if r0[0] != 'ok' or r1[0] != 'ok':
        if r0[0] != r1[0]:
            ctx.checker_false += 1
            ctx.report(stream, case, str(r1[1:]), str(r0[1:]), 'RankedToCondorcetVotes: one of the two conversions failed: %s / %s' % (r0, r1))
            return True
        return False
    d0, d1 = r0[1], r1[1]
    why = None
    for a in cs:
        for c in cs:
            if a != c and d1.get((a, c), 0) != d0.get((a, c), 0) + exp(a, c):
                why = 'count(%s, %s) is %s after %s, expected %s + %s' % (cname(a), cname(c), d1.get((a, c), 0),
                      ('%s was ranked on ballot %s -> %s' % (cname(w), prof[case['ballot']][0], b2)) if case['kind'] == 'rc-rank' else 'the ballot %s was added' % b2,
                      d0.get((a, c), 0), exp(a, c))
                break
        if why:
            break
    if not why and d0 and {k for pr in d0 for k in pr} != {k for pr in d1 for k in pr}:
        why = 'the candidates of the pairwise dictionary changed: %s -> %s' % (sorted({k for pr in d0 for k in pr}), sorted({k for pr in d1 for k in pr}))
    if not why and case.get('rule') in proved:
        import votelib.evaluate.condorcet as cd
        ev = cd.EVALUATORS[case['rule']]
        py = lambda d: {(cname(a), cname(c)): n for (a, c), n in d.items()}     # noqa
        e0 = common.call_impl(lambda: ev.evaluate(py(d0), 1), 10)
        if e0[0] == 'ok' and sole_winner(e0[1]) == w:
            ctx.dist['%s:sole-winner' % case['kind']] += 1
            e1 = common.call_impl(lambda: ev.evaluate(py(d1), 1), 10)
            if not (e1[0] == 'ok' and sole_winner(e1[1]) == w):
                why = '%s: sole winner %s no longer the sole winner (%s): %s' % (case['rule'], cname(w), case['kind'], e1[1:])
    if why:
        ctx.checker_false += 1
        ctx.report(stream, case, str(sorted(d1.items())), str(sorted(d0.items())), why)
        return True
    return False


def rc_delta_cases(rng, prof, w0, rule):
    """for one profile: the sole winner (or, when there is none, any candidate) gets ranked on ballots that leave it out; ballots with it on top are added"""
    cs = sorted({k for b, _ in prof for k in rc_flat(b)})
    if not cs:
        return
    w = w0 if w0 is not None else rng.choice(cs)
    outs = [bi for bi, (b, wt) in enumerate(prof) if w not in rc_flat(b) and wt >= 1]
    rng.shuffle(outs)
    for bi in outs[:2]:
        b, wt = prof[bi]
        for x in {1, wt}:
            yield dict(kind='rc-rank', profile=prof, ballot=bi, j=rng.randint(0, len(b)), x=x, cand=w, rule=rule)
    others = [k for k in cs if k != w]
    yield dict(kind='rc-added', profile=prof, new_ballot=[w], x=rng.randint(1, 3), cand=w, rule=rule)
    if others:
        rest = gen_pa_ballot(rng, others, rng.choice([0, 0.3]))
        if rest:
            yield dict(kind='rc-added', profile=prof, new_ballot=[w] + rest, x=rng.randint(1, 3), cand=w, rule=rule)


def rc_streams(ctx, count, rng):
    ties, n, bad = [], 0, 0
    nd = badd = 0
    for _ in range(count):
        prof = gen_rc_profile(rng)
        if not prof:
            continue
        ctx.dist['stream:rc-move-exact'] += 1
        ties.append(dict(unit='hybrid', method='to_condorcet', profile=prof, n=1))
        rule = rng.choice(PAIRWISE_MONO)
        # the candidate to move: the sole winner under a pairwise rule when there is one (half of the time), else anybody
        w0 = None
        if rng.random() < 0.6:
            import votelib.evaluate.condorcet as cd
            r = common.call_impl(lambda: cd.EVALUATORS[rule].evaluate({(cname(a), cname(c)): k for (a, c), k in rc_convert(prof).items()}, 1), 10)
            w0 = sole_winner(r[1]) if r[0] == 'ok' else None
        moves = [(bi, i, j, None) for bi, (b, _) in enumerate(prof) for i, it in enumerate(b) if not isinstance(it, list) and (w0 is None or it == w0)
                 for j in range(i)]
        moves += [(bi, i, j, m) for bi, (b, _) in enumerate(prof) for i, it in enumerate(b) if isinstance(it, list) and len(it) > 1
                  for m in it if (w0 is None or m == w0) for j in range(i + 1)]
        rng.shuffle(moves)
        for case in rc_delta_cases(rng, prof, w0, rule):
            nd += 1
            ctx.evaluations += 1
            ctx.dist['stream:rc-rank-added-exact'] += 1
            ctx.nontrivial.add(common.case_hash(case))
            if case['kind'] == 'rc-added' and len(case['new_ballot']) > 1:
                ctx.dist['rc-added:longer-ballot'] += 1
            if rc_delta_check(ctx, 'rc-rank-added-exact', case):
                badd += 1
        for bi, i, j, member in moves[:4]:
            wt = prof[bi][1]
            for x in {1, wt} if wt >= 1 else {0}:
                case = dict(kind='rc-move', profile=prof, ballot=bi, i=i, j=j, x=x, rule=rule)
                if member is not None:
                    case.update(member=member, plain_rest=rng.random() < 0.5)
                    ctx.dist['rc-move:leaves-a-shared-rank'] += 1
                n += 1
                ctx.evaluations += 1
                ctx.nontrivial.add(common.case_hash(case))
                if any(isinstance(it, list) for it in prof[bi][0][j:i]):
                    ctx.dist['rc-move:jumps-a-shared-rank'] += 1
                if rc_move_check(ctx, 'rc-move-exact', case):
                    bad += 1
                elif member is None and rng.random() < 0.15:
                    b = prof[bi][0]
                    ties.append(dict(unit='hybrid', method='to_condorcet', n=1,
                                     profile=rc_replace(prof, bi, b[:j] + [b[i]] + b[j:i] + b[i + 1:], x)))
    ctx.streams['rc-move-exact'] = dict(cases=n, deviations=bad)
    ctx.streams['rc-rank-added-exact'] = dict(cases=nd, deviations=badd)
    ctx.differential('rc-tie', ties, c05.hyb_line, c05.hyb_impl, canon=c05.hyb_canon, nontrivial=lambda c: True)


# ------------------------------------------------------------------ rank scorers: non-increasing along the ballot (C17_scorer_ok on the implementation)
def scorer_cases(rng, extra):
    for base in range(-2, 4):
        for n in range(1, 9):
            for k in range(0, n + 1):
                yield dict(kind='scorer', scorer=['borda', base], n_cands=n, n_ranked=k)
    for k in range(0, 13):
        yield dict(kind='scorer', scorer=['dowdall'], n_cands=k, n_ranked=k)
        yield dict(kind='scorer', scorer=['modified_borda'], n_cands=k, n_ranked=k)
        for base in range(1, 7):
            yield dict(kind='scorer', scorer=['geometric', base], n_cands=k, n_ranked=k)
        for top in range(-1, 9):
            yield dict(kind='scorer', scorer=['fixed_top', top], n_cands=k, n_ranked=k)
    for _ in range(extra):
        sq = sorted([rng.choice([rng.randint(0, 12), jq(Fraction(rng.randint(0, 20), rng.randint(1, 4)))]) for _ in range(rng.randint(0, 6))],
                    key=q, reverse=True)
        yield dict(kind='scorer', scorer=['sequence', sq], n_cands=9, n_ranked=rng.randint(0, 9))


def scorer_check(ctx, stream, c):
    import votelib.component.rankscore as rs
    sp = c['scorer']

    def make():
        if sp[0] == 'borda':
            o = rs.Borda(base=sp[1])
            o.set_n_candidates(c['n_cands'])
            return o
        if sp[0] == 'sequence':
            return rs.SequenceBased([int(q(x)) if q(x).denominator == 1 else q(x) for x in sp[1]])
        return dict(dowdall=lambda: rs.Dowdall(), modified_borda=lambda: rs.ModifiedBorda(), geometric=lambda: rs.Geometric(sp[1]),
                    fixed_top=lambda: rs.FixedTop(sp[1]))[sp[0]]()
    r = common.call_impl(lambda: list(make().scores(c['n_ranked'])), 5)
    why = None
    if r[0] != 'ok':
        why = 'scores(%d) failed: %s' % (c['n_ranked'], r[1:])
    elif len(r[1]) != c['n_ranked']:
        why = '%d scores for %d ranks' % (len(r[1]), c['n_ranked'])
    else:
        for i in range(len(r[1]) - 1):
            if not r[1][i + 1] <= r[1][i]:
                why = 'score of rank %d (%s) exceeds the score of rank %d (%s)' % (i + 1, r[1][i + 1], i, r[1][i])
                break
    if why:
        ctx.checker_false += 1
        ctx.report(stream, c, str(r[1:]), 'n/a', 'rank scorer %s: %s' % (sp, why))
        return True
    return False


def scorer_stream(ctx, rng):
    n = bad = 0
    for c in scorer_cases(rng, ctx.n(300, 3000)):
        n += 1
        ctx.evaluations += 1
        ctx.dist['stream:scorer-nonincreasing'] += 1
        if c['n_ranked'] >= 2:
            ctx.nontrivial.add(common.case_hash(c))
        if scorer_check(ctx, 'scorer-nonincreasing', c):
            bad += 1
    ctx.streams['scorer-nonincreasing'] = dict(cases=n, deviations=bad)


def lr_paradox(ctx, stream, c):
    """largest remainder is NOT among the rules the property claims monotone; the kernel-checked witnesses C17_lr_house_refuted /
    C17_lr_votes_droop_refuted (Props/C17.v) are about the model of LargestRemainder.evaluate: both elections of a witness are
    compared with that model here, and the loss of the seat is re-observed on the implementation (counted, never a violation)"""
    two = [dict(unit='largest_remainder', quota=c['quota'], ae=True, pol=1, votes=c['votes'], n=c['n'], prev=[], caps=[]),
           dict(unit='largest_remainder', quota=c['quota'], ae=True, pol=1, votes=c['votes2'], n=c['n2'], prev=[], caps=[])]
    ctx.differential(stream, two, c02.model_line, c02.impl, canon=c02.canon, nontrivial=lambda c: True)
    got = []
    for e in two:
        r = common.call_impl(lambda: c02.impl(e), 5)
        v = common.parse_sx(r[1]) if r[0] == 'ok' else [1]
        got.append(dict((k, s) for k, s in v[1] if not isinstance(k, list)).get(c['party'], 0) if v[0] == 0 else None)
    ctx.dist['lr-paradox:%s:%s' % (c['what'], 'reproduced' if got == c['seats'] else 'gone')] += 1


# ---- largest remainder, exact Hare quota: vote monotonicity (C17_lr_hare_votes; not claimed by the property, proved over the model of C02)
def lr_wire_result(wire):
    v = common.parse_sx(wire)
    if v[0] != 0:
        return None
    sure = {k: s for k, s in v[1] if not isinstance(k, list)}
    tied = {x for k, s in v[1] if isinstance(k, list) for x in k}
    return sure, tied


def lr_hare_case(votes, n, **kw):
    return dict(unit='largest_remainder', quota=[1], ae=True, pol=1, votes=votes, n=n, prev=[], caps=[], **kw)


def lr_hare_pairs(rng, count):
    for _ in range(count):
        m = rng.randint(1, 6)
        ids = list(range(1, m + 1))
        rng.shuffle(ids)
        style = rng.choice(['small', 'small', 'mid', 'frac', 'equal'])
        votes = []
        for k in ids:
            v = (rng.randint(0, 6) if style == 'small' else rng.randint(0, 1000) if style == 'mid' else rng.choice([0, 12, 12, 24, 36]) if style == 'equal'
                 else Fraction(rng.randint(0, 40), rng.randint(1, 3)))
            votes.append([k, jq(v)])
        if sum(q(v) for _, v in votes) == 0:
            continue
        n = rng.randint(1, rng.choice([3, 8, 20]))
        p = rng.choice(ids)
        vp = q(dict((k, v) for k, v in votes)[p])
        inc = rng.choice([1, 1, 2, max(1, vp // 10), vp if vp else 5, Fraction(1, 3)])
        v2 = [[k, jq(q(v) + inc) if k == p else v] for k, v in votes]
        if rng.random() < 0.5:
            rng.shuffle(v2)                      # the new dictionary in another insertion order
        yield lr_hare_case(v2, n, mono=['votes', p, jq(vp)], base_votes=votes)


def lr_hare_spec(c, io, mo):
    rb = lr_wire_result(io)
    if rb is None:
        return 'LargestRemainder(hare) failed on a non-empty profile: %s' % io
    base = lr_hare_case(c['base_votes'], c['n'])
    r = common.call_impl(lambda: c02.impl(base), 5)
    ra = lr_wire_result(r[1]) if r[0] == 'ok' else None
    if ra is None:
        return 'LargestRemainder(hare) failed on the base profile: %s' % (r[1:],)
    p = c['mono'][1]
    sa, sb = ra[0].get(p, 0), rb[0].get(p, 0)
    if sb < sa:
        return 'largest remainder (Hare): party %d holds %d seats for certain, %d after gaining votes' % (p, sa, sb)
    if sb + (1 if p in rb[1] else 0) < sa + (1 if p in ra[1] else 0):
        return 'largest remainder (Hare): party %d can reach %d seats (tie included), only %d after gaining votes' % (p, sa + (p in ra[1]), sb + (p in rb[1]))
    return None


def corpus():
    import os, json, glob
    for p in sorted(glob.glob(os.path.join(common.VERIF, 'corpus', ID, '*.json'))):
        yield json.load(open(p))


def run_corpus_case(ctx, c, stream='corpus'):
    k = c.get('kind')
    if k == 'house':
        house_checks(ctx, stream, [c])
    elif k == 'votes':
        # re-evaluate with the recorded increment
        p, inc = c['party'], q(c['inc'])
        v2 = [[kk, jq(q(v) + inc) if kk == p else v] for kk, v in c['votes']]
        ra = common.call_impl(lambda: ha_eval(c), 5)
        rb = common.call_impl(lambda: ha_eval(c, votes=v2), 5)
        ctx.evaluations += 1
        why = votes_clause(p, ra[1], rb[1]) if ra[0] == 'ok' and rb[0] == 'ok' else None
        if why:
            ctx.checker_false += 1
            ctx.report(stream, c, '%s | %s' % (ra[1], rb[1]), 'n/a', 'vote monotonicity: ' + why)
    elif k == 'sole-added':
        ctx.evaluations += 1
        ev = ranked_evaluator(c['rule'])
        p2 = [[list(b), w] for b, w in c['profile']] + [[list(c['new_ballot']), 1]]
        r0 = common.call_impl(lambda: ev.evaluate(py_ranked(c['profile']), 1), 10)
        r1 = common.call_impl(lambda: ev.evaluate(py_ranked(p2), 1), 10)
        if r0[0] == 'ok' and sole_winner(r0[1]) == c['winner'] and not (r1[0] == 'ok' and sole_winner(r1[1]) == c['winner']):
            ctx.checker_false += 1
            ctx.report(stream, c, str(r1[1:]), 'n/a', '%s: sole winner lost after adding a ballot that ranks it first' % c['rule'],
                       known_class=schulze_known_class)
    elif k == 'sole-ranked':
        ctx.evaluations += 1
        ev = ranked_evaluator(c['rule'])
        p2 = moved([[list(b), w] for b, w in c['profile']], c['ballot'], list(c['new_ballot']))
        r0 = common.call_impl(lambda: ev.evaluate(py_ranked(c['profile']), 1), 10)
        r1 = common.call_impl(lambda: ev.evaluate(py_ranked(p2), 1), 10)
        if r0[0] == 'ok' and sole_winner(r0[1]) == c['winner'] and not (r1[0] == 'ok' and sole_winner(r1[1]) == c['winner']):
            ctx.checker_false += 1
            ctx.report(stream, c, str(r1[1:]), 'n/a', '%s: sole winner lost after an upward move' % c['rule'],
                       known_class=schulze_known_class)
    elif k == 'sole-shared':
        ctx.evaluations += 1
        shared_case_check(ctx, stream, c)
    elif k == 'rc-move':
        ctx.evaluations += 1
        rc_move_check(ctx, stream, c)
    elif k in ('rc-rank', 'rc-added'):
        ctx.evaluations += 1
        rc_delta_check(ctx, stream, c)
    elif k == 'sole-positional':
        ctx.evaluations += 1
        positional_case_check(ctx, stream, c)
    elif k == 'scorer':
        ctx.evaluations += 1
        scorer_check(ctx, stream, c)
    elif c.get('unit') == 'hybrid':
        ctx.differential(stream, [c], c05.hyb_line, c05.hyb_impl, canon=c05.hyb_canon, nontrivial=lambda c: True)
    elif c.get('unit') == 'preference_addition':
        ctx.differential(stream, [c], pa_model_line, pa_impl, canon=pa_canon, nontrivial=pa_nontrivial, spec=pa_spec, known_class=pa_diff_known)
    elif k == 'lr-paradox':
        lr_paradox(ctx, stream, c)
    elif c.get('unit') == 'largest_remainder' and c.get('mono'):
        ctx.differential(stream, [c], c02.model_line, c02.impl, canon=c02.canon, nontrivial=lambda c: True, spec=lr_hare_spec)
    elif c.get('unit') == 'highest_averages' and c.get('mono'):
        ctx.differential(stream, [c], c01.model_line, c01.impl, canon=c01.canon, nontrivial=mono_nontrivial, spec=mono_spec)
    elif c.get('unit') == 'highest_averages':
        ctx.differential(stream, [c], c01.model_line, c01.impl, canon=c01.canon, nontrivial=c01.nontrivial)


def explore(ctx, widen=1):
    rng = ctx.rng
    for c in corpus():
        run_corpus_case(ctx, c)
    kw = dict(canon=c01.canon, nontrivial=c01.nontrivial)
    ctx.differential('ha-tie', itertools.chain(c01.gen_random(rng, ctx.n(500, 6000) * widen), c01.gen_ties(rng, ctx.n(200, 2000) * widen),
                                               c01.gen_zero_caps(rng, ctx.n(100, 1000))), c01.model_line, c01.impl, **kw)
    ctx.differential('ha-mono-pairs', mono_pairs(rng, itertools.chain(c01.gen_random(rng, ctx.n(700, 8000) * widen), c01.gen_ties(rng, ctx.n(500, 6000) * widen),
                                                                     c01.gen_zero_caps(rng, ctx.n(300, 3000) * widen))),
                     c01.model_line, c01.impl, canon=c01.canon, nontrivial=mono_nontrivial, spec=mono_spec)
    ctx.differential('lr-hare-votes', lr_hare_pairs(rng, ctx.n(1500, 20000) * widen), c02.model_line, c02.impl, canon=c02.canon,
                     nontrivial=lambda c: True, spec=lr_hare_spec)
    pex = list(gen_pa_exhaustive())
    ctx.differential('pa-exhaustive-small', pex if ctx.tier != 'quick' else pex[::3], pa_model_line, pa_impl, canon=pa_canon,
                     nontrivial=pa_nontrivial, spec=pa_spec, known_class=pa_diff_known)
    ctx.differential('pa-random', gen_pa(rng, ctx.n(4000, 60000) * widen), pa_model_line, pa_impl, canon=pa_canon,
                     nontrivial=pa_nontrivial, spec=pa_spec, known_class=pa_diff_known)
    ex = list(c01.gen_exhaustive())
    if ctx.tier == 'quick':
        ex = ex[::2]
    else:
        ctx.exhaustive = True
    house_checks(ctx, 'house-exhaustive-small', ex)
    house_checks(ctx, 'house-random', itertools.chain(c01.gen_random(rng, ctx.n(1500, 20000) * widen), c01.gen_ties(rng, ctx.n(600, 8000) * widen),
                                                      c01.gen_zero_caps(rng, ctx.n(300, 3000) * widen)))
    votes_checks(ctx, 'votes-random', itertools.chain(c01.gen_random(rng, ctx.n(1500, 20000) * widen), c01.gen_ties(rng, ctx.n(600, 8000) * widen),
                                                      c01.gen_zero_caps(rng, ctx.n(300, 3000) * widen)), rng)
    votes_exhaustive(ctx, 'votes-exhaustive-small', ex)
    sole_winner_ranked(ctx, 'sole-winner-ranked', ctx.n(8000, 60000) * widen, rng)
    sole_winner_ranked(ctx, 'sole-winner-beatpath', ctx.n(3000, 20000) * widen, rng, beatpath=True)
    sole_winner_shared(ctx, 'sole-winner-shared-ranks', ctx.n(2500, 30000) * widen, rng)
    sole_winner_positional_shared(ctx, 'sole-winner-positional-shared', ctx.n(1500, 20000) * widen, rng)
    sole_winner_cardinal(ctx, 'sole-winner-cardinal', ctx.n(1500, 15000) * widen, rng)
    rc_streams(ctx, ctx.n(2500, 30000) * widen, rng)
    scorer_stream(ctx, rng)


def replay(ctx, case, stream=None):
    run_corpus_case(ctx, case, 'replay')
