"""C03, Hare (random whole-ballot) transferer: model run on the SAME draws as the implementation.

votelib.component.transfer draws through the module attribute `random` (random.seed / random.sample) inside
distribute_n_random.  The harness replaces, from the harness process and only while a case runs, the attributes
`random` and `distribute_n_random` of the imported module object by proxies (no source change):

  * record mode  - the proxy owns a private Mersenne Twister (random.Random), seeds it as Hare asks (seed k before every
                   draw) and records what random.sample(range(N), k) answered;  or it invents the answer itself
                   ('low' = the first k numbers, 'high' = the last k, 'rand' = harness rng, 'comb' = evenly spread) -
                   any list of k distinct numbers below N is a possible answer of random.sample;
  * replay mode  - the proxy answers with the recorded tape (a stored case is self-contained: the draws are part of it).

The tape is the oracle argument of the extracted model (unit stv_hare).  Draws of Hare._subtract ('sub' entries) are
over the pile in dict order - the model keeps its piles in that order and the comparison includes the order.  Draws of
_distribute_equal_ranking ('split' entries) are over {target: remainder for target in frozenset}: the iteration order
of a frozenset of str depends on the hash seed of the process.  A split entry is therefore stored with its targets, in
coordinates where the targets stand in candidate-number order; the proxy translates at the call (the permutation is
observed at the call, not assumed).  The same hash order decides the order of the candidates of a shared rank in
util.all_ranked_candidates, i.e. the key order of the allocation: model_line writes the members of every shared rank in
the order of this process (GORDER: ranks traversed as all_ranked_candidates does, the frozensets iterated as they are)
and moves the split entries to those coordinates, so that allocations are compared WITH their key order.
"""
import random as _random
import collections
from fractions import Fraction
import common
from common import sx, q, ok, cname, cnum
from units import BLOCK

U_HARE = BLOCK['C03'] + 0
E_ORACLE = 30
E_UNMODELLED = 31
QN = {1: 'hare', 3: 'droop', 4: 'hagenbach_bischoff'}


class TapeError(Exception):
    pass


class _RandomProxy:
    def __init__(self, tape):
        self.tape = tape

    def seed(self, s=None):
        # seed None = "fresh entropy before every draw": taken from the harness rng so that a run is reproducible
        self.tape.rng.seed(self.tape.aux.getrandbits(64) if s is None else s)

    def sample(self, population, k):
        return self.tape.sample(population, k)

    def random(self):
        raise TapeError('random.random() called: float branch of distribute_n_random (non-integer total weight)')

    def __getattr__(self, name):
        raise TapeError('unexpected use of random.%s' % name)


class Tape:
    """mode: ('seed', salt) real generator; ('low'|'high'|'rand'|'comb', salt) invented draws; ('replay', tape)"""

    def __init__(self, mode, arg=None):
        self.mode, self.arg = mode, arg
        self.rng = _random.Random()
        self.aux = _random.Random(arg if mode != 'replay' else 0)
        self.out = []            # recorded draws in model coordinates
        self.pos = 0             # replay position
        self.ctx = None
        self.problems = []

    # -- context manager: swap the module attributes
    def __enter__(self):
        import votelib.component.transfer as tr
        self.tr = tr
        self.saved = (tr.random, tr.distribute_n_random)
        orig = tr.distribute_n_random
        tape = self

        def wrapped(cand_weights, n, limit_by_weight=False):
            tape.ctx = dict(keys=list(cand_weights), weights=list(cand_weights.values()), n=n, limit=limit_by_weight, draws=None)
            res = orig(cand_weights, n, limit_by_weight)
            cx = tape.ctx
            if cx['draws'] is not None and all(isinstance(w, int) for w in cx['weights']):
                # what bisect + Counter (+ the largest-remainder pass, the identity here) must hand back
                cum, acc = [], 0
                for w in cx['weights']:
                    acc += w
                    cum.append(acc)
                exp = collections.Counter()
                for d in cx['draws']:
                    i = next(j for j, cv in enumerate(cum) if d < cv)
                    exp[cx['keys'][i]] += 1
                if {k: v for k, v in res.items() if v} != dict(exp):
                    tape.problems.append('distribute_n_random: draws %s over weights %s give %s, returned %s'
                                         % (cx['draws'], cx['weights'], dict(exp), res))
            tape.ctx = None
            return res
        tr.random = _RandomProxy(self)
        tr.distribute_n_random = wrapped
        return self

    def __exit__(self, *a):
        self.tr.random, self.tr.distribute_n_random = self.saved
        return False

    # -- coordinates of a split draw (frozenset order at the call <-> candidate-number order)
    def _perm(self):
        cx = self.ctx
        keys = cx['keys']
        return sorted(range(len(keys)), key=lambda i: cnum(keys[i])), cx['n']     # canonical position -> impl position

    def _to_canon(self, draws):
        order, r = self._perm()
        if not r:
            return list(draws)
        inv = {imp: can for can, imp in enumerate(order)}
        return [inv[d // r] * r + d % r for d in draws]

    def _to_impl(self, draws):
        order, r = self._perm()
        if not r:
            return list(draws)
        return [order[d // r] * r + d % r if 0 <= d // r < len(order) else d for d in draws]

    def sample(self, population, k):
        if not isinstance(population, range) or population.start != 0 or population.step != 1 or self.ctx is None:
            raise TapeError('random.sample over %r outside distribute_n_random' % (population,))
        n = len(population)
        split = not self.ctx['limit']
        targets = sorted(cnum(x) for x in self.ctx['keys']) if split else None
        if self.mode == 'replay':
            if not 0 <= k <= n:
                raise ValueError('Sample larger than population or is negative')
            [None] * k                                    # TypeError for a Fraction, as random.sample
            if self.pos >= len(self.arg):
                raise TapeError('tape exhausted at draw %d' % self.pos)
            e = self.arg[self.pos]
            self.pos += 1
            if (e['k'] == 'split') != split or (split and e['t'] != targets):
                raise TapeError('tape entry %d (%s) does not belong to this draw (%s)' % (self.pos - 1, e, targets))
            draws = self._to_impl(e['d']) if split else list(e['d'])
            if len(draws) != k or len(set(draws)) != k or any(not 0 <= d < n for d in draws):
                raise TapeError('tape entry %d (%s) is not a sample of %d from range(%d)' % (self.pos - 1, draws, k, n))
        elif self.mode == 'seed':
            draws = self.rng.sample(population, k)
        else:
            if not 0 <= k <= n:
                raise ValueError('Sample larger than population or is negative')
            [None] * k
            if self.mode == 'low':
                draws = list(range(k))
            elif self.mode == 'high':
                draws = list(range(n - k, n))
            elif self.mode == 'comb':
                draws = [(i * n) // k for i in range(k)] if k else []
            else:
                draws = self.aux.sample(population, k)
                if self.aux.random() < 0.5:
                    draws.sort()
        self.ctx['draws'] = list(draws)
        if split:
            self.out.append(dict(k='split', t=targets, d=self._to_canon(draws)))
        else:
            self.out.append(dict(k='sub', d=list(draws)))
        return draws

    def left(self):
        return len(self.arg) - self.pos if self.mode == 'replay' else 0


# ---------------------------------------------------------------- wire
def gorder(c):
    """the candidates in the order util.all_ranked_candidates meets them in THIS process (own traversal, same frozensets)"""
    votes = py_votes(c['votes'])
    out, i = [], 0
    while any(len(b) > i for b in votes):
        for b in votes:
            if len(b) > i:
                for x in ([b[i]] if isinstance(b[i], str) else b[i]):
                    if x not in out:
                        out.append(x)
        i += 1
    return {cnum(x): p for p, x in enumerate(out)}


def model_line(c):
    cf = c['cfg']
    go = gorder(c)
    qs = '()' if cf['quota'] is None else '((%d))' % cf['quota']

    def bsx(b):
        return sx([i if isinstance(i, int) else sorted(i, key=go.get) for i in b])

    def entry(e):
        if e['k'] != 'split' or not e['d']:
            return list(e['d'])
        t, r = e['t'], len(e['d'])                 # r draws over |t| stretches of length r
        pos = {can: sorted(t, key=go.get).index(x) for can, x in enumerate(t)}
        return [pos[d // r] * r + d % r for d in e['d']]
    return '%d ((%s %d %d %d) %s %d %s %s %s)' % (
        U_HARE, qs, cf['ae'], cf['mq'], cf['step'],
        '(' + ' '.join('(%s %s)' % (bsx(b), sx(q(w))) for b, w in c['votes']) + ')', c['n'],
        sx([[k, v] for k, v in c['prev']]), sx([[k, v] for k, v in c['caps']]), sx([entry(e) for e in c['tape']]))


def py_votes(votes):
    return {tuple(cname(i) if isinstance(i, int) else frozenset(cname(x) for x in i) for i in b): int(w) for b, w in votes}


def ballot_num(b):
    return [cnum(i) if isinstance(i, str) else sorted(cnum(x) for x in i) for i in b]


def alloc_num(a):
    return [[[] if k is None else cnum(k), [[ballot_num(b), q(w)] for b, w in p.items()]] for k, p in a.items()]


def run_impl(c, tape, check=None):
    """nth_count driven through the public next_count, every allocation recorded (piles in dict order)"""
    import votelib.evaluate.sequential as seq
    import votelib.evaluate.core as core
    import votelib.component.transfer as tr
    import votelib.util
    cf = c['cfg']
    with tape:
        dist = seq.TransferableVoteDistributor(
            transferer=tr.Hare(seed=c.get('seed')), eliminate_step=cf['step'],
            quota_function=None if cf['quota'] is None else QN[cf['quota']],
            accept_quota_equal=bool(cf['ae']), mandatory_quota=bool(cf['mq']))
        votes = py_votes(c['votes'])
        caps = {cname(k): v for k, v in c['caps']}
        seats = {cname(k): v for k, v in c['prev']}
        total = sum(votes.values())

        def code(exc):
            if isinstance(exc, TapeError):
                return E_ORACLE
            return common.classify_exc(exc)
        try:
            allocation = seq.initial_allocation(votes, dist.transferer)
        except Exception as exc:   # noqa
            return [[], [], [[cnum(k), v] for k, v in seats.items()], code(exc), 0]
        init = alloc_num(allocation)
        counts, stop = [], 0
        if check:
            check('init', None, allocation, {}, dict(seats), votes, total, dist)
        new_allocation = None
        for _ in range(200):
            if sum(seats.values()) == c['n']:
                break
            if new_allocation is not None:
                allocation = new_allocation
            try:
                new_allocation, newly = dist.next_count(allocation, c['n'], total, prev_gains=seats, max_seats=caps)
            except Exception as exc:   # noqa
                stop = code(exc)
                break
            if not newly and new_allocation == allocation:
                stop = common.E['VSE']
                break
            if check:
                check('count', allocation, new_allocation, dict(newly), dict(seats), votes, total, dist)
            votelib.util.add_dict_to_dict(seats, newly)
            counts.append([alloc_num(new_allocation), [[cnum(k), v] for k, v in newly.items()]])
        return [[init], counts, [[cnum(k), v] for k, v in seats.items()], stop, tape.left()]


def impl(c):
    tape = Tape('replay', c['tape'])
    out = run_impl(c, tape)
    if tape.problems:
        raise TapeError(tape.problems[0])
    return ok(out)


def canon(c, wire):
    v = common.parse_sx(wire)
    if v[0] != 0:
        return ('err', v[1])
    init, counts, seats, stop, left = v[1]

    def al(a):
        # a ballot entry of weight 0 holds no stretch of the range the draws are taken from: not compared
        return tuple((repr(k), tuple((tuple(i if isinstance(i, int) else frozenset(i) for i in b), common.unq(w))
                                     for b, w in p if common.unq(w) != 0)) for k, p in a)
    return ('ok', tuple(al(a) for a in init), tuple((al(a), tuple((k, s) for k, s in el)) for a, el in counts),
            tuple(sorted((k, s) for k, s in seats if s)), stop, left if stop in (0, common.E['VSE']) else None)


def spec(c, io, mo):
    import props.c03 as c03
    problems = []
    tape = Tape('replay', c['tape'])
    try:
        chk = c03.make_checker(c, problems, whole=True)
        run_impl(c, tape, chk)
    except Exception as e:   # noqa
        problems.append('exception while checking: %r' % e)
    problems += tape.problems
    v = common.parse_sx(mo)
    vi = common.parse_sx(io)
    if vi[0] == 0 and v[0] == 0 and vi[1][3] == common.E['TYPE'] and v[1][3] != common.E['TYPE']:
        problems.insert(0, 'the count raised TypeError although the number of ballots to draw (seats x quota) is a whole number')
    if v[0] == 0 and v[1][3] in (E_ORACLE, E_UNMODELLED, common.E['FUEL']):
        problems.append('the model stopped with code %d on a tape recorded from the implementation' % v[1][3])
    if problems:
        c['_class'] = 'invariant'
        return problems[0]
    return None


def nontrivial(c):
    return len(c['votes']) > 1 and len(c['tape']) > 0


# ---------------------------------------------------------------- generators
def record(c, mode, arg=None):
    """run the implementation once with a recording proxy; the draws become part of the case"""
    tape = Tape(mode, arg)
    r = common.call_impl(lambda: run_impl(dict(c, tape=[]), tape), 5)
    c['_end'] = ('%d counts, stop %s' % (min(len(r[1][1]), 6), common.E_NAME.get(r[1][3], r[1][3]))) if r[0] == 'ok' else 'exception'
    c['tape'] = list(tape.out)
    c['draws'] = mode if mode != 'seed' else 'seed %s' % c.get('seed')
    return c


def base_case(rng):
    """longer counts than the C03 base generator: 3..7 candidates, 3..14 distinct ballots, 1..4 seats"""
    import props.c03 as c03
    m = rng.randint(3, 7)
    ids = list(range(1, m + 1))
    style = rng.choice(['plain', 'plain', 'shared', 'shared', 'exhausted', 'zero-first'])
    votes, seen = [], set()
    for _ in range(rng.randint(3, 14)):
        if style == 'exhausted':
            b = c03.rand_ballot(rng, ids[:max(2, m - 1)], 0)[:rng.randint(1, 2)]
        elif style == 'zero-first':
            b = c03.rand_ballot(rng, ids[:-1], 0) + ([ids[-1]] if rng.random() < 0.5 else [])
        else:
            b = c03.rand_ballot(rng, ids, 0.3 if style == 'shared' else 0)
        if repr(b) in seen:
            continue
        seen.add(repr(b))
        votes.append([b, rng.choice([rng.randint(1, 12), rng.randint(1, 60), rng.randint(1, 12) * 20])])
    if rng.random() < 0.05:
        votes.append([[], 3])
    cs = sorted({x for b, _ in votes for i in b for x in ([i] if isinstance(i, int) else i)})
    n = rng.randint(1, min(4, len(cs)))
    cfg = dict(quota=rng.choice([3, 3, 3, 3, 3, 3, 1, 4, None]), ae=rng.randint(0, 1),
               mq=rng.randint(0, 1) if rng.random() < 0.15 else 0, step=rng.choice([-1, -1, -1, -2]))
    if rng.random() < 0.75:
        caps = [[k, 1] for k in cs]
    else:
        caps = [[k, rng.randint(1, 3)] for k in cs]
        n = rng.randint(1, min(6, sum(v for _, v in caps)))
    if cfg['quota'] in (1, 4) and votes and rng.random() < 0.7:
        d = n if cfg['quota'] == 1 else n + 1
        votes[-1][1] += (-sum(w for _, w in votes)) % d          # a whole quota (still a Fraction object)
    return dict(unit='stv_hare', cfg=cfg, votes=votes, n=n, prev=[], caps=caps)


def gen(rng, count, boundary=False):
    for _ in range(count):
        c = base_case(rng)
        if boundary:
            shape_boundary(rng, c)
        mode = rng.choice(['seed', 'seed', 'rand', 'rand', 'low', 'high', 'comb'])
        if mode == 'seed':
            c['seed'] = rng.choice([0, 1, 2, 3, 4, 5, 17, None])
            record(c, 'seed', rng.randint(0, 10 ** 6))
        else:
            record(c, mode, rng.randint(0, 10 ** 6))
        yield c


def shape_boundary(rng, c):
    """aim at what the Hare code distinguishes: shared ranks whose weight does not divide, piles exactly at the quota,
    several candidates elected in one count, a Fraction quota (integral / not), zero-weight ballots, caps above one"""
    ids = sorted({x for b, _ in c['votes'] for i in b for x in ([i] if isinstance(i, int) else i)})
    kind = rng.choice(['shared', 'shared', 'exact', 'fraction', 'zero', 'caps', 'multi'])
    c['kind'] = kind
    if kind == 'shared':
        for bw in c['votes']:
            if len(ids) >= 2 and rng.random() < 0.6:
                k = rng.randint(2, min(4, len(ids)))
                grp = sorted(rng.sample(ids, k))
                rest = [x for x in ids if x not in grp]
                rng.shuffle(rest)
                pos = rng.choice([0, 0, 1])
                tail = rest[:rng.randint(0, len(rest))]
                bw[0] = (tail[:pos] + [grp] + tail[pos:])
                bw[1] = rng.choice([0, 1, 2, k - 1, k, k + 1, 2 * k + 1, rng.randint(1, 40)])
        seen, out = set(), []
        for b, w in c['votes']:
            if repr(b) not in seen:
                seen.add(repr(b))
                out.append([b, w])
        c['votes'] = out
        c['cfg'] = dict(c['cfg'], quota=rng.choice([3, 3, 1, None]))
    elif kind == 'exact':
        tot = sum(w for _, w in c['votes'])
        qv = tot // (c['n'] + 1) + 1
        if c['votes']:
            c['votes'][0][1] = qv
        c['cfg'] = dict(c['cfg'], quota=3, ae=rng.randint(0, 1))
    elif kind == 'fraction':
        c['cfg'] = dict(c['cfg'], quota=rng.choice([1, 4]))
        tot = sum(w for _, w in c['votes'])
        d = c['n'] if c['cfg']['quota'] == 1 else c['n'] + 1
        if c['votes'] and rng.random() < 0.7:
            c['votes'][-1][1] += (-tot) % d           # make the quota a whole number (still a Fraction object)
    elif kind == 'zero':
        for bw in c['votes']:
            if rng.random() < 0.35:
                bw[1] = 0
        c['cfg'] = dict(c['cfg'], quota=rng.choice([3, 3, None]))
    elif kind == 'caps':
        c['caps'] = [[k, rng.randint(1, 3)] for k in ids]
        c['n'] = rng.randint(1, sum(v for _, v in c['caps']))
        c['cfg'] = dict(c['cfg'], quota=3)
    else:
        c['n'] = max(2, min(len(ids), c['n'] + 1))
        c['caps'] = [[k, 1] for k in ids]
        c['cfg'] = dict(c['cfg'], quota=3, mq=0)
    return c


def corpus():
    import os, json, glob
    for p in sorted(glob.glob(os.path.join(common.VERIF, 'corpus', 'C03', 'hare-*.json'))):
        yield json.load(open(p))


def counted(ctx, cases):
    for c in cases:
        ctx.dist['hare draws:' + c['draws'].split()[0]] += 1
        ctx.dist['hare tape: %s' % ('no draw' if not c['tape'] else
                                    '+'.join(sorted({e['k'] for e in c['tape']})))] += 1
        ctx.dist['hare draws consumed'] += len(c['tape'])
        if c.get('kind'):
            ctx.dist['hare boundary:' + c['kind']] += 1
        ctx.dist['hare end:%s' % c.pop('_end', '?')] += 1
        yield c


def explore(ctx, widen=1):
    kw = dict(canon=canon, nontrivial=nontrivial, spec=spec, limit=20)
    ctx.differential('hare-corpus', corpus(), model_line, impl, **kw)
    ctx.differential('hare-oracle', counted(ctx, gen(ctx.rng, ctx.n(700, 12000) * widen)), model_line, impl, **kw)
    ctx.differential('hare-boundary', counted(ctx, gen(ctx.rng, ctx.n(500, 8000) * widen, boundary=True)), model_line, impl, **kw)


def replay(ctx, case):
    ctx.differential('replay', [case], model_line, impl, canon=canon, nontrivial=nontrivial, spec=spec)
