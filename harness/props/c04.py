"""C04 - STV outcomes: exact count, majority winner, proportionality for solid coalitions, Gregory reference."""
import itertools
from fractions import Fraction
import common
from common import sx, q, ok, cname, cnum
from units import U
import props.c03 as c03
import props.c03_hare as c03_hare

ID = 'C04'
ZERO_LABELS = True      # a share of the cases is asked with candidates numbered from 0 (harness/common.py LABEL_MODE)
NO_LABEL_STREAMS = ('hare-oracle',)      # a recorded draw tape replays only under the labels it was recorded with (as in c03.py)
LEVEL = 'proof'
TIE = c03.TIE
RULE = ('corpus; ranked profiles as in C03 (2..6 candidates, truncation, shared ranks 20 %), 1<=n<=|C|, quota in {droop, hare}, '
        'Gregory (model = independent weighted-inclusive-Gregory reference, compared on final outcomes and refusals); Hare with '
        'seeds 0..3 on integer quotas (implementation-side checks) and Hare against its model (Model/STVHare.v, stream hare-oracle: the '
        'profiles and recorded draws of props/c03_hare.py - 3..7 candidates, whole weights, seeds {0..5, 17, None} or invented draws -, '
        'the PUBLIC evaluate() of the selector / distributor run on the replayed draws, final seats and refusals compared with the '
        'model run on the same draws). Declarative clauses on every implementation outcome: exactly n '
        'distinct winners when n candidates stand and the count is not refused; majority first choice wins one seat; every solid '
        'coalition (all non-empty candidate subsets, every k) holding k quotas gets min(k,|S|) seats (ballots without shared ranks). '
        'non-trivial = more than one count; distinct by case hash')
PARTIAL = ['PSC: theorem for all inputs of the Gregory model (C04_psc, Proofs/STV_psc_proofs.v); additionally decided per case on '
           'every implementation outcome by a brute-force checker over all candidate subsets',
           'majority clause: theorem from the first count on; first-preference link decided per case',
           'Hare transferer: PSC is a theorem for every oracle (C04_psc_hare_transferer, Proofs/STVHare_psc_proofs.v) about the '
           'oracle model tied count by count in C03; exact count / majority under Hare: decided per case on the implementation outcomes']
TRUSTED = []


def model_line(c):
    return c03.model_line(c)


def impl(c):
    import votelib.evaluate.sequential as seq
    import votelib.evaluate.core as core
    import votelib.component.transfer as tr
    dist = c03.distributor(c, tr.Hare(seed=c['hare']) if c.get('hare') is not None else None)
    votes = c03.py_votes(c['votes'])
    if c['form'] == 'selector':
        sel = seq.TransferableVoteSelector(dist)
        if c.get('hare') is None and int(common.case_hash({k: v for k, v in c.items() if not k.startswith('_')}), 16) % 3 == 0:
            # the same selector object has served another election before (as many candidates, other labels): no state may survive
            ncand = len({x for b, _ in c['votes'] for i in b for x in ([i] if isinstance(i, int) else i)})
            decoy = tuple('Z%d' % i for i in range(ncand))
            try:
                sel.evaluate({decoy: 5, decoy[:1]: 2 * ncand + 7}, c['n'])
            except Exception:   # noqa
                pass
        res = sel.evaluate(votes, c['n'])
        return ok([[], [[cnum(x), 1] for x in res], 0])
    # no caps at all: the argument is left out (the signature's default is used), as a caller would
    res = dist.evaluate(votes, c['n'], max_seats={cname(k): v for k, v in c['caps']}) if c['caps'] else dist.evaluate(votes, c['n'])
    return ok([[], [[cnum(k), v] for k, v in res.items()], 0])


def canon(c, wire):
    v = common.parse_sx(wire)
    if v[0] != 0:
        return ('stop', v[1])
    counts, seats, stop = v[1]
    if stop:
        return ('stop', stop)
    return ('ok', tuple(sorted((k, s) for k, s in seats if s)))


def canon_hare(c, wire):
    return ('n/a',)


def spec(c, io, mo):
    v = common.parse_sx(io)
    cands = sorted({x for b, _ in c['votes'] for i in b for x in ([i] if isinstance(i, int) else i)})
    if v[0] != 0:
        if v[1] in (common.E['NIE'],):
            return None                         # explicit refusal on a tie
        if v[1] == common.E['VSE']:
            # 'infinite loop in STV' is a declared refusal, legitimate only when the count cannot finish
            c['_class'] = 'vse'
            # distributor form (max_seats > 1): the last candidates standing may be unable to reach another quota
            return None if (c['cfg']['mq'] or c['cfg']['quota'] is None or c['cfg']['step'] == -2
                            or c['form'] == 'distributor' or len(cands) < c['n']) else \
                'count refused with VotingSystemError although enough candidates stand'
        c['_class'] = 'crash'
        return 'undeclared exception %s' % common.E_NAME.get(v[1], v[1])
    seats = dict((k, s) for k, s in v[1][1])
    if c['form'] == 'selector':
        if len(cands) >= c['n'] and (len(seats) != c['n'] or any(s != 1 for s in seats.values())):
            c['_class'] = 'count'
            return 'elected %s for %d seats' % (sorted(seats), c['n'])
    else:
        caps = dict(c['caps'])
        if any(seats[k] > caps.get(k, 10 ** 9) for k in seats):
            return 'cap exceeded'
        if sum(caps.values()) >= c['n'] and sum(seats.values()) != c['n']:
            c['_class'] = 'count'
            return 'distributed %d of %d seats' % (sum(seats.values()), c['n'])
        return None
    if c['cfg']['quota'] not in (1, 3) or c['cfg']['mq'] or c['cfg']['step'] != -1:
        return None
    noshared = all(isinstance(i, int) for b, _ in c['votes'] for i in b)
    total = sum(q(w) for b, w in c['votes'])
    if c['cfg']['quota'] == 3:
        quota = Fraction(int(total / (c['n'] + 1)) + 1)
    else:
        quota = total / c['n']
    # majority
    if c['n'] == 1 and noshared:
        first = {}
        for b, w in c['votes']:
            if b:
                first[b[0]] = first.get(b[0], 0) + q(w)
        for k, t in first.items():
            if t * 2 > total and k not in seats:
                c['_class'] = 'majority'
                return 'majority first choice %d not elected' % k
    if noshared and c['cfg']['ae']:
        for r in range(1, len(cands) + 1):
            for S in itertools.combinations(cands, r):
                S = set(S)
                wt = sum(q(w) for b, w in c['votes'] if len(b) >= len(S) and set(b[:len(S)]) == S)
                k = int(wt / quota)
                if k >= 1 and len(S & set(seats)) < min(k, len(S)):
                    c['_class'] = 'psc'
                    return 'coalition %s holds %d quota(s) but has %d seats' % (sorted(S), k, len(S & set(seats)))
    return None


def known_class(c, io, mo):
    return None


def nontrivial(c):
    return len(c['votes']) > 1


def gen(rng, count, hare=False, boundary=False):
    for c in (c03.gen_boundary if boundary else c03.gen)(rng, count, selector_only=False):
        c = dict(c)
        ncand = len({x for b, _ in c['votes'] for i in b for x in ([i] if isinstance(i, int) else i)})
        c['form'] = 'selector' if len(c['caps']) == ncand and all(v == 1 for _, v in c['caps']) else 'distributor'
        c['cfg'] = dict(c['cfg'], quota=rng.choice([3, 3, 1]), mq=0)
        if hare:
            c['cfg']['quota'] = 3
            c['hare'] = rng.randint(0, 3)
            c['votes'] = [[b, (w % 1000) or 1] for b, w in c['votes']]
        yield c


def gen_zero_weight(rng, count):
    """ballots of weight 0: a candidate named only on such a ballot still stands (and is elected when the seats need everyone)"""
    for c in gen(rng, count):
        cs = sorted({x for b, _ in c['votes'] for i in b for x in ([i] if isinstance(i, int) else i)})
        new = max(cs) + 1
        r = rng.random()
        b = [new] if r < 0.4 else [new] + rng.sample(cs, rng.randint(1, len(cs))) if r < 0.7 else rng.sample(cs, 1) + [new]
        c['votes'] = c['votes'] + [[b, 0]]
        if c['form'] == 'selector':
            c['caps'] = c['caps'] + [[new, 1]]
            if rng.random() < 0.5:
                c['n'] = len(cs) + 1
        yield c


def corpus():
    import os, json, glob
    for p in sorted(glob.glob(os.path.join(common.VERIF, 'corpus', ID, '*.json'))):
        yield json.load(open(p))


def explore(ctx, widen=1):
    kw = dict(canon=canon, nontrivial=nontrivial, spec=spec, known_class=known_class, limit=20)
    ctx.differential('corpus', corpus(), model_line, impl, **kw)
    ctx.differential('gregory', gen(ctx.rng, ctx.n(1200, 20000) * widen), model_line, impl, **kw)
    ctx.differential('gregory-boundary', gen(ctx.rng, ctx.n(800, 10000) * widen, boundary=True), model_line, impl, **kw)
    ctx.differential('zero-weight', gen_zero_weight(ctx.rng, ctx.n(500, 6000) * widen), model_line, impl, **kw)
    # Hare (seeded): no model; outcome clauses and the C03 invariants on the implementation only
    hk = dict(canon=canon_hare, nontrivial=nontrivial, known_class=known_class, limit=20,
              spec=lambda c, io, mo: spec(c, io, mo) or c03.spec(dict(c, transferer=_hare(c)), io, mo))
    ctx.differential('hare-seeded', gen(ctx.rng, ctx.n(400, 5000) * widen, hare=True), model_line, impl, **hk)
    ctx.differential('hare-boundary', gen(ctx.rng, ctx.n(300, 4000) * widen, hare=True, boundary=True), model_line, impl, **hk)
    ctx.differential('hare-oracle', gen_hare_oracle(ctx.rng, ctx.n(500, 8000) * widen), c03_hare.model_line, hare_impl,
                     canon=hare_canon, nontrivial=nontrivial, spec=hare_spec, known_class=known_class, limit=20)


def _hare(c):
    import votelib.component.transfer as tr
    return tr.Hare(seed=c['hare'])


# ---- Hare transferer against its model (Model/STVHare.v): the draws recorded from the implementation are the oracle of the
# model (props/c03_hare.py); here the PUBLIC evaluate() of the selector / distributor is run on the replayed draws and its
# final outcome compared with the model's, and the declarative clauses (count, majority, PSC) are judged on it
def hare_impl(c):
    import votelib.evaluate.sequential as seq
    import votelib.component.transfer as tr
    tape = c03_hare.Tape('replay', c['tape'])
    with tape:
        cf = c['cfg']
        dist = seq.TransferableVoteDistributor(
            transferer=tr.Hare(seed=c.get('seed')), eliminate_step=cf['step'],
            quota_function=None if cf['quota'] is None else c03_hare.QN[cf['quota']],
            accept_quota_equal=bool(cf['ae']), mandatory_quota=bool(cf['mq']))
        votes = c03_hare.py_votes(c['votes'])
        try:
            if c['form'] == 'selector':
                res = {x: 1 for x in seq.TransferableVoteSelector(dist).evaluate(votes, c['n'])}
            else:
                res = dist.evaluate(votes, c['n'], max_seats={cname(k): v for k, v in c['caps']})
        except c03_hare.TapeError:
            return ok([[], [], [], c03_hare.E_ORACLE, 0])
    return ok([[], [], [[cnum(k), v] for k, v in res.items()], 0, 0])


def hare_canon(c, wire):
    v = common.parse_sx(wire)
    if v[0] != 0:
        return ('stop', v[1])
    if v[1][3]:
        return ('stop', v[1][3])
    return ('ok', tuple(sorted((k, s) for k, s in v[1][2] if s)))


def hare_spec(c, io, mo):
    v = common.parse_sx(io)
    if v[0] != 0:
        if v[1] == common.E['TYPE'] and c['cfg']['quota'] in (1, 4):
            return None          # a fractional number of ballots to draw: the model stops with the same TypeError (compared)
        return spec(c, io, mo)
    return spec(c, ok([[], v[1][2], v[1][3]]), mo)


_DROPPED = [0]      # recordings that did not replay on the implementation that produced them


def gen_hare_oracle(rng, count):
    for c in c03_hare.gen(rng, count):
        c['form'] = 'selector' if all(v == 1 for _, v in c['caps']) else 'distributor'
        c['cfg'] = dict(c['cfg'], mq=0)
        if c['cfg']['quota'] is None:
            c['cfg']['quota'] = 3
        # the draws depend on the configuration: record them again
        if c['draws'].startswith('seed'):
            c03_hare.record(c, 'seed', rng.randint(0, 10 ** 6))
        else:
            c03_hare.record(c, c['draws'], rng.randint(0, 10 ** 6))
        c.pop('_end', None)
        # the recorded draws must replay on the implementation that produced them (a recording that does not - the draw-to-candidate
        # translation of a shared rank can depend on set iteration order - says nothing about the count: dropped and counted)
        try:
            v = common.parse_sx(hare_impl(c))
        except Exception:   # noqa
            v = None
        if v is not None and v[0] == 0 and v[1][3] == c03_hare.E_ORACLE:
            _DROPPED[0] += 1
            continue
        yield c


def replay(ctx, case, stream=None):
    if case.get('unit') == 'stv_hare':
        return ctx.differential('replay', [case], c03_hare.model_line, hare_impl, canon=hare_canon, nontrivial=nontrivial,
                                spec=hare_spec, known_class=known_class)
    if case.get('hare') is not None:
        ctx.differential('replay', [case], model_line, impl, canon=canon_hare, nontrivial=nontrivial,
                         spec=lambda c, io, mo: spec(c, io, mo) or c03.spec(dict(c, transferer=_hare(c)), io, mo))
    else:
        ctx.differential('replay', [case], model_line, impl, canon=canon, nontrivial=nontrivial, spec=spec, known_class=known_class)
