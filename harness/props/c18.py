"""C18 - evaluation is pure: inputs untouched, no state carried between calls.

(a) model-vs-implementation call SEQUENCES on shared instances for the objects that keep state
    (ProportionalApproval._coefs, Borda behind RankedToPositionalVotes, seeded random selectors with
    the recorded draws as the generator oracle, Multistage / UnusedVotes distributors over the store
    model), outputs compared call by call and with fresh instances;
(b) the broad purity sweep of props/c18_sweep.py over every public class found by introspection;
(c) module-level objects, shared default arguments and function defaults before / after everything.
"""
import os, json, glob, random, copy
from fractions import Fraction
import common
from common import sx, q, ok, err, cname, cnum
from units import BLOCK
from props import c12, c13
from props import c18_sweep as sweep
from props import sigcheck

ID = 'C18'
LEVEL = 'proof'
# the alias-and-mutation table generated from the source (tools/py2v.py part 6, tools/mutscan.py): pure_table is an obligation while the
# scan can read the whole package; otherwise (STATUS failed) the dynamic sweep below stands alone
GEN_TIES = {'Mutation': 'Props/GenTie_Mutation.v'}
B = BLOCK['C18']
TIE = {'approval.ProportionalApproval (_coefs), rankscore.Borda + convert.RankedToPositionalVotes, auxiliary.Sortitor / '
       'RandomUnrankedBallotSelector (util.select_n_random with recorded draws), core.MultistageDistributor / UnusedVotesDistributor '
       '(_add_stage_results, _copy_nested)': 'correspondence (call sequences on shared instances)',
       'copy-before-modify sites HighestAverages / TieBreaking / InvalidVoteEliminator / transferer subtract, transfer':
           'modelled as copy-n-levels-then-mutate; tied by the argument-snapshot oracle of the sweep',
       'every other evaluator / converter / validator class': 'implementation-side snapshot + history oracle only (no model)'}
RULE = ('corpus; call sequences of length 1..6 on ONE shared object: PAV (approval profiles over 2..4 candidates, n 0..3), Borda scorer behind '
        'a positional converter (convert / set_n_candidates / scores, base 0 or 1), seeded Sortitor / RandomUnrankedBallotSelector (seed 0..5, '
        'draws recorded on a fresh object, replayed after a history of other seeds and foreign users of the random module), Multistage / '
        'UnusedVotes distributors with stub stages at depth 1 and 2 and explicit prev_gains; then the sweep: for each of the ~150 recipes '
        '(every concrete class with evaluate / convert / validate / calculate / subset / scores / subtract / transfer; default, configured, '
        'wrapped and module-singleton variants) and each seed: probe on a fresh object, 1..5 history calls (65 % other inputs on the shared '
        'object, 35 % some other library object), probe again, probe a third time; order-sensitive deep fingerprints of every argument '
        'before/after every call; a sample of probes recomputed in a fresh interpreter; fingerprints of all module-level data objects and of '
        'all function defaults before/after the whole run; ast enumeration of every mutable default literal compared with the live object. '
        'non-trivial = a sequence with >= 2 calls, or a sweep case whose probe is answered (not refused); distinct by case hash')
PARTIAL = ['purity of classes and sites WITHOUT a model (everything outside Model/State.v and Model/Alias.v): decided by the snapshot / '
           'history oracle of the sweep - a test over generated inputs, not a theorem (Props/C18.v C18_full_statement)',
           'shared default arguments empty after use: implementation-side inspection (ast enumeration + live __defaults__); the theorems '
           'cover defaults only as store locations of the modelled sites',
           'the Mersenne Twister behind random.seed is an oracle: "same seed, same choice" is proved for every generator, the draws '
           'themselves are recorded, not modelled',
           'hash-seed / fresh-process independence: a sample of probes is recomputed in a new interpreter (exploration)']
TRUSTED = ['harness/props/c18_sweep.py: recipes, input generators, fingerprint function (order-sensitive) and canonical result text']
ASSUMPTIONS = ['stage evaluators handed to Multistage/UnusedVotes are themselves pure and return fresh dictionaries (quantified as arbitrary '
               'functions of the current totals in the model)',
               'callee-created dictionaries are reachable only through the callee (ownership), as in the modelled code']


# ================================================================ (a1) PAV sequences
def pav_line(c):
    calls = ' '.join('(%s %d)' % (c12.ap_sx(v), n) for v, n in c['calls'])
    return '%d (%d (%s))' % (B + 0, 1 if c.get('strict') else 0, calls)


def _sel_wire(fn):
    r = common.call_impl(fn, 5)
    if r[0] == 'ok':
        return ok(c12.enc_sel(r[1]))
    return err(r[1])


def pav_impl(c):
    import votelib.evaluate.approval as ap
    shared = ap.ProportionalApproval()
    outs, fresh, mutated = [], [], []
    for v, n in c['calls']:
        votes = c12.py_ap(v)
        before = sweep.fp(votes)
        outs.append(_sel_wire(lambda: shared.evaluate(votes, n)))
        if sweep.fp(votes) != before:
            mutated.append(sweep.cstr(votes))
        fresh.append(_sel_wire(lambda: ap.ProportionalApproval().evaluate(c12.py_ap(v), n)))
    c['_fresh'], c['_mutated'] = fresh, mutated
    return '(0 (%s))' % ' '.join(outs)


def _canon_sel(v):
    if v[0] != 0:
        return ('err', v[1])
    # the elected committee as a set: candidates with equal satisfaction drops come out in the iteration order of a
    # frozenset (unspecified); same reading as C12
    return ('ok', tuple(sorted((tuple(sorted(x)) if isinstance(x, list) else x for x in v[1]), key=repr)))


def pav_canon(c, wire):
    v = common.parse_sx(wire)
    if v[0] != 0:
        return ('err', v[1:])
    return tuple(_canon_sel(o) for o in v[1])


def seq_spec(c, io, mo):
    """declarative clauses on the implementation: every call answers as a fresh object; arguments untouched"""
    if c.get('_mutated'):
        c['_class'] = 'mutation'
        return 'argument changed by the call: %s' % c['_mutated'][:2]
    v = common.parse_sx(io)
    if v[0] != 0:
        return None
    canon1 = {'pav_seq': _canon_sel, 'borda_seq': _canon_borda}[c['unit']]
    for i, (o, f) in enumerate(zip(v[1], c.get('_fresh', []))):
        if f is None:
            continue
        if canon1(o) != canon1(common.parse_sx(f)):
            c['_class'] = 'history'
            return 'call %d on the shared object answers %s, a fresh object answers %s' % (i + 1, o, f)
    return None


def gen_pav(rng, count):
    for _ in range(count):
        m = rng.randint(2, 4)
        calls = []
        for _ in range(rng.randint(1, 6)):
            votes, seen = [], set()
            for _ in range(rng.randint(1, 4)):
                b = sorted(rng.sample(range(1, m + 1), rng.randint(1, m)))
                if repr(b) not in seen:
                    seen.add(repr(b))
                    votes.append([b, rng.choice([1, 2, 3, 5])])
            calls.append([votes, rng.choice([0, 1, 1, 2, 2, 3])])
        yield dict(unit='pav_seq', calls=calls)


def gen_pav_boundary(rng):
    """the shapes the pinned defect lived on: small n after / before large n, one candidate"""
    one = [[[1], 1]]
    two = [[[1, 2], 2], [[2], 1], [[3], 1]]
    for ns in ([1], [2, 1], [1, 2, 1], [3, 1, 2, 1], [0, 1], [3, 2, 1, 0, 1, 2]):
        yield dict(unit='pav_seq', calls=[[one if n <= 1 else two, n] for n in ns])
        yield dict(unit='pav_seq', calls=[[two, n] for n in ns])


# ================================================================ (a2) Borda sequences
def borda_line(c):
    parts = []
    for call in c['calls']:
        if call[0] == 'conv':
            parts.append('(0 %s)' % c13.vsx('positional', call[1]))
        elif call[0] == 'setn':
            parts.append('(1 %d)' % call[1])
        else:
            parts.append('(2 %d)' % call[1])
    return '%d (%d (%s))' % (B + 1, c['base'], ' '.join(parts))


def _conv_wire(fn):
    r = common.call_impl(fn, 5)
    if r[0] != 'ok':
        return err(r[1])
    d = {c13.json_key(c13.enc_key(k)): q(v) for k, v in r[1].items()}
    return '(0 (%s))' % ' '.join('(%s %s)' % (k, sx(v)) for k, v in d.items())


def borda_impl(c):
    import votelib.convert as conv, votelib.component.rankscore as rs
    c13._LONG[0] = False
    scorer = rs.Borda(base=c['base'])
    shared = conv.RankedToPositionalVotes(scorer)
    outs, fresh, mutated = [], [], []
    for call in c['calls']:
        if call[0] == 'conv':
            votes = c13.py_profile('positional', call[1])
            before = sweep.fp(votes)
            outs.append(_conv_wire(lambda: shared.convert(votes)))
            if sweep.fp(votes) != before:
                mutated.append(sweep.cstr(votes))
            fresh.append(_conv_wire(lambda: conv.RankedToPositionalVotes(rs.Borda(base=c['base'])).convert(c13.py_profile('positional', call[1]))))
        elif call[0] == 'setn':
            r = common.call_impl(lambda: scorer.set_n_candidates(call[1]), 5)
            outs.append('(0 ())' if r[0] == 'ok' else err(r[1]))
            fresh.append(None)
        else:
            r = common.call_impl(lambda: scorer.scores(call[1]), 5)
            outs.append(ok([q(x) for x in r[1]]) if r[0] == 'ok' else err(r[1]))
            fresh.append(None)          # scores() depends on set_n_candidates by design (documented API)
    c['_fresh'], c['_mutated'] = fresh, mutated
    return '(0 (%s))' % ' '.join(outs)


def borda_canon(c, wire):
    v = common.parse_sx(wire)
    if v[0] != 0:
        return ('err', v[1:])
    out = []
    for call, o in zip(c['calls'], v[1]):
        if o[0] != 0:
            out.append(('err', o[1]))
        elif call[0] == 'conv':
            d = {}
            for k, val in o[1]:
                d[repr(k)] = d.get(repr(k), 0) + common.unq(val)
            out.append(('ok', tuple(sorted((k, x) for k, x in d.items() if x != 0))))
        else:
            out.append(('ok', tuple(common.unq(x) if not isinstance(x, list) or len(x) == 2 else x for x in o[1])))
    return tuple(out)


def _canon_borda(v):
    """per-call canon used by seq_spec; conversions compare as dictionaries"""
    if v[0] != 0:
        return ('err', v[1])
    try:
        d = {}
        for k, val in v[1]:
            d[repr(k)] = d.get(repr(k), 0) + common.unq(val)
        return ('ok', tuple(sorted((k, x) for k, x in d.items() if x != 0)))
    except Exception:   # noqa
        return ('ok', repr(v[1]))


def gen_borda(rng, count):
    for _ in range(count):
        calls = []
        for _ in range(rng.randint(1, 6)):
            x = rng.random()
            if x < 0.6:
                votes = c13.ranked_profile(rng, rng.randint(2, 5), rng.randint(1, 5))
                if votes:
                    calls.append(['conv', votes])
            elif x < 0.8:
                calls.append(['setn', rng.randint(0, 7)])
            else:
                calls.append(['scores', rng.randint(0, 6)])
        if calls:
            yield dict(unit='borda_seq', base=rng.choice([0, 1, 1]), calls=calls)


# ================================================================ (a3) seeded selectors
class _Tape:
    def __enter__(self):
        self.tape, self.orig = [], random.randrange

        def rec(*a, **k):
            v = self.orig(*a, **k)
            self.tape.append(v)
            return v
        random.randrange = rec
        return self

    def __exit__(self, *exc):
        random.randrange = self.orig


def _selector(kind, seed):
    import votelib.evaluate.auxiliary as aux
    return (aux.RandomUnrankedBallotSelector if kind == 0 else aux.Sortitor)(seed=seed)


def seeded_line(c):
    return '%d (%d %s %d %s)' % (B + 2, c['kind'], sx(c['votes']), c['n'], sx(c['tape']))


def _seeded_wire(fn):
    r = common.call_impl(fn, 5)
    if r[0] == 'ok':
        return ok([[cnum(x) for x in r[1]], 0])
    return err(r[1])


def seeded_impl(c):
    """the draws were recorded on a FRESH object; here the same question is put after a history"""
    import votelib.evaluate.auxiliary as aux
    votes = {cname(k): v for k, v in c['votes']}
    shared = _selector(c['kind'], c['seed'])
    hr = random.Random(c['hist'])
    for _ in range(hr.randint(0, 5)):
        x = hr.random()
        if x < 0.3:
            random.random()                                  # a foreign user of the process-wide generator
        elif x < 0.5:
            random.seed(hr.randint(0, 99))
        elif x < 0.8:
            hv = {cname(k): hr.randint(1, 9) for k in range(1, hr.randint(2, 5))}
            common.call_impl(lambda: shared.evaluate(hv, hr.randint(1, 3)), 5)
        else:
            common.call_impl(lambda: _selector(hr.randint(0, 1), hr.choice([None, 7, c['seed']])).evaluate(dict(votes), 1), 5)
    before = sweep.fp(votes)
    first = _seeded_wire(lambda: shared.evaluate(votes, c['n']))
    second = _seeded_wire(lambda: shared.evaluate(votes, c['n']))
    other = _seeded_wire(lambda: _selector(c['kind'], c['seed']).evaluate(dict(votes), c['n']))
    c['_repeat'] = [first, second, other]
    c['_mutated'] = [] if sweep.fp(votes) == before else [sweep.cstr(votes)]
    return first


def seeded_canon(c, wire):
    v = common.parse_sx(wire)
    return ('ok', tuple(v[1][0]), v[1][1]) if v[0] == 0 else ('err', v[1])


def seeded_spec(c, io, mo):
    if c.get('_mutated'):
        return 'argument changed by the call: %s' % c['_mutated']
    a, b2, o = c.get('_repeat', [io, io, io])
    if not (a == b2 == o):
        c['_class'] = 'seeded'
        return 'seed %s does not repeat its choice: first %s, again %s, another instance with the same seed %s' % (c['seed'], a, b2, o)
    return None


def gen_seeded(rng, count):
    for _ in range(count):
        kind = rng.randint(0, 1)
        m = rng.randint(1, 5)
        votes = [[k, rng.choice([rng.randint(1, 9), rng.randint(1, 9), 0 if kind == 0 and rng.random() < 0.3 else 2, 10 ** 12])] for k in rng.sample(range(1, 6), m)]
        n = rng.randint(0, m + 1)
        seed = rng.randint(0, 5)
        pv = {cname(k): v for k, v in votes}
        with _Tape() as t:
            common.call_impl(lambda: _selector(kind, seed).evaluate(pv, n), 5)
        yield dict(unit='seeded', kind=kind, seed=seed, votes=votes, n=n, tape=list(t.tape), hist=rng.randint(0, 10 ** 6))



# ================================================================ (a3') seeded Hare transferer under foreign use of the generator
def _hare_case(rng):
    """ranked profile rich in shared ranks with odd bundle sizes (so that the remainder of a split must be drawn)"""
    m = rng.randint(3, 5)
    ids = list(range(1, m + 1))
    votes = []
    for _ in range(rng.randint(2, 6)):
        perm = ids[:]
        rng.shuffle(perm)
        perm = perm[:rng.randint(2, m)]
        b, i = [], 0
        while i < len(perm):
            if rng.random() < 0.45 and i + 1 < len(perm):
                k = rng.randint(2, min(3, len(perm) - i))
                b.append(sorted(perm[i:i + k]))
                i += k
            else:
                b.append(perm[i])
                i += 1
        votes.append([b, rng.choice([1, 3, 5, 7, 9, 11, rng.randint(1, 30)])])
    return dict(unit='sweep', kind='seeded-hare', votes=votes, n=rng.randint(1, 3), seed=rng.randint(0, 9),
                quota=rng.choice(['droop', 'droop', 'hare', None]), perturb=[rng.randint(0, 10 ** 6) for _ in range(3)],
                form=rng.choice(['selector', 'selector', 'distributor', 'transfer']))


def _hare_votes(c):
    out = {}
    for b, w in c['votes']:
        key = tuple(frozenset(cname(x) for x in r) if isinstance(r, list) else cname(r) for r in b)
        out[key] = out.get(key, 0) + w
    return out


def _perturb(k):
    """a foreign user of the process-wide generator: reseed it and draw a few numbers"""
    random.seed(k)
    for _ in range(k % 5):
        random.random()


def run_seeded_hare(c):
    """-> list of canonical answers of the SAME question put under different states of the process-wide generator, by fresh and shared objects"""
    import votelib.evaluate.sequential as seq
    import votelib.component.transfer as tr
    votes = _hare_votes(c)

    def make():
        t = tr.Hare(seed=c['seed'])
        if c['form'] == 'transfer':
            return t
        d = seq.TransferableVoteDistributor(transferer=t, quota_function=c['quota'])
        return seq.TransferableVoteSelector(d) if c['form'] == 'selector' else d

    def ask(obj):
        if c['form'] == 'transfer':
            cands = sorted({x for b in votes for r in b for x in (r if isinstance(r, frozenset) else [r])})
            alloc = {None: dict(votes)}
            alloc.update({x: {} for x in cands})
            r = common.call_impl(lambda: obj.transfer(alloc, [None]), 5)
            if r[0] != 'ok':
                return r
            return ('ok', sorted((str(k), sorted((sweep.cstr(b), str(w)) for b, w in v.items())) for k, v in r[1].items()))
        r = common.call_impl(lambda: obj.evaluate(votes, c['n']), 5)
        if r[0] != 'ok':
            return r
        return ('ok', sweep.cstr(r[1]))
    answers = []
    shared = make()
    for k in c['perturb']:
        _perturb(k)
        answers.append(('fresh', k, ask(make())))
        _perturb(k + 1)
        answers.append(('shared', k, ask(shared)))
    return answers


def check_seeded_hare(ctx, c):
    ctx.evaluations += 1
    st = random.getstate()
    try:
        answers = run_seeded_hare(c)
    finally:
        random.setstate(st)
    outs = [a[2] for a in answers]
    if any(o == ('err', common.E['TIMEOUT']) for o in outs):
        return
    ctx.dist['seeded-hare:' + c['form']] += 1
    if outs[0][0] == 'ok':
        ctx.nontrivial.add(common.case_hash(c))
    if any(o != outs[0] for o in outs):
        i = next(i for i, o in enumerate(outs) if o != outs[0])
        ctx.violations.append(dict(stream='seeded-hare', case=c, impl=str(answers[i])[:400], model=str(answers[0])[:400],
                                   why='Hare(seed=%s) does not repeat its choice when the process-wide generator was used in between: '
                                       '%s object after random.seed(%s) answers differently from the first call' % (c['seed'], answers[i][0], answers[i][1])))


# ================================================================ (a4) multistage over the store
def _nsx(d, depth):
    if depth == 1:
        return sx([[k, v] for k, v in d])
    return '(' + ' '.join('(%d %s)' % (k, _nsx(v, depth - 1)) for k, v in d) + ')'


def ms_line(c):
    return '%d (%d 1 %d %s (%s))' % (B + 3, c['kind'], c['depth'], _nsx(c['prev'], c['depth']),
                                    ' '.join(_nsx(r, c['depth']) for r in c['results']))


def _py_nested(d, depth):
    if depth == 1:
        return {cname(k): v for k, v in d}
    return {cname(k): _py_nested(v, depth - 1) for k, v in d}


def _enc_nested(d, depth):
    if depth == 1:
        return [[cnum(k), v] for k, v in d.items()]
    return [[cnum(k), _enc_nested(v, depth - 1)] for k, v in d.items()]


def ms_impl(c):
    import votelib.evaluate.core as core
    depth = c['depth']
    stages = [sweep.Stub(_py_nested(r, depth)) for r in c['results']]
    prev = _py_nested(c['prev'], depth)
    if c['kind'] == 0:
        ev = core.MultistageDistributor(stages, depth=depth)
    else:
        ev = core.UnusedVotesDistributor(stages, quota_functions=[_zero_quota] * (len(stages) - 1), depth=depth)
    res = ev.evaluate({}, 0, prev_gains=prev)
    return ok([_enc_nested(res, depth), _enc_nested(prev, depth)])


def _zero_quota(n_votes, n_seats):
    return 0


def _canon_nested(v, depth):
    if depth == 1:
        return tuple(sorted((k, x) for k, x in v))
    return tuple(sorted((k, _canon_nested(x, depth - 1)) for k, x in v))


def ms_canon(c, wire):
    v = common.parse_sx(wire)
    if v[0] != 0:
        return ('err', v[1])
    return ('ok', _canon_nested(v[1][0], c['depth']), _canon_nested(v[1][1], c['depth']))


def ms_spec(c, io, mo):
    v = common.parse_sx(io)
    if v[0] != 0:
        return None
    if _canon_nested(v[1][1], c['depth']) != _canon_nested(c['prev'], c['depth']):
        c['_class'] = 'multistage-prev'
        return ('%s(depth=%d) changed the caller\'s prev_gains: %s -> %s'
                % ('MultistageDistributor' if c['kind'] == 0 else 'UnusedVotesDistributor', c['depth'], c['prev'], v[1][1]))
    return None


def gen_ms(rng, count):
    for _ in range(count):
        depth = rng.choice([1, 2, 2])
        cands = rng.sample(range(1, 6), rng.randint(1, 4))
        cons = rng.sample(range(6, 10), rng.randint(1, 3))

        def flat(p=0.7):
            return [[k, rng.randint(0, 3)] for k in cands if rng.random() < p]

        def nested(p=0.7):
            return [[k, flat()] for k in cons if rng.random() < p]
        mk = flat if depth == 1 else nested
        yield dict(unit='multistage', kind=rng.choice([0, 0, 1]), depth=depth, prev=mk(), results=[mk(0.8) for _ in range(rng.randint(1, 3))])


# ================================================================ dispatch by unit
STREAM = {
    'pav_seq': dict(line=pav_line, impl=pav_impl, canon=pav_canon, spec=seq_spec),
    'borda_seq': dict(line=borda_line, impl=borda_impl, canon=borda_canon, spec=seq_spec),
    'seeded': dict(line=seeded_line, impl=seeded_impl, canon=seeded_canon, spec=seeded_spec),
    'multistage': dict(line=ms_line, impl=ms_impl, canon=ms_canon, spec=ms_spec),
}


def model_line(c):
    return STREAM[c['unit']]['line'](c)


def impl(c):
    return STREAM[c['unit']]['impl'](c)


def canon(c, wire):
    return STREAM[c['unit']]['canon'](c, wire)


def spec(c, io, mo):
    return STREAM[c['unit']]['spec'](c, io, mo)


def known_class(c, io, mo):
    return None


def nontrivial(c):
    if c['unit'] in ('pav_seq', 'borda_seq'):
        return len(c['calls']) >= 2
    if c['unit'] == 'seeded':
        return len(c['tape']) >= 1
    if c['unit'] == 'multistage':
        return bool(c['prev'])
    return True


# ================================================================ (b) sweep, (c) module state
def run_sweep(ctx, per_target, first_seed=0):
    tl, uncovered, found = sweep.targets()
    tm = dict(tl)
    ctx.notes.append('sweep: %d public classes found by introspection, %d recipes; classes without a usable recipe: %s'
                     % (len(found), len(tl), uncovered))
    bad, answered, fresh_pool = 0, 0, []
    for key, rec in tl:
        for i in range(per_target):
            seed = first_seed + i
            case = dict(unit='sweep', target=key, seed=seed)
            ctx.evaluations += 1
            ctx.dist['stream:sweep'] += 1
            r = sweep.run_case(key, seed, tm)
            ctx.dist['sweep:' + ('answered' if r['fresh'][0] == 'ok' else 'refused:' + r['fresh'][1])] += 1
            if r['fresh'][0] == 'ok':
                answered += 1
                ctx.nontrivial.add(common.case_hash(case))
                if not r.get('random') and not r.get('timeout'):
                    fresh_pool.append((key, seed, r['after']))
            for kind, text in r['problems']:
                bad += 1
                ctx.violations.append(dict(stream='sweep', case=dict(case, kind=kind), impl=text, model='n/a (implementation-side oracle)',
                                           why='%s: %s' % (key, text)))
                break
    ctx.streams['sweep'] = dict(cases=len(tl) * per_target, deviations=bad, answered=answered)
    # a sample of the probes again, in a fresh interpreter
    rng = random.Random('fresh/%s' % ctx.seed)
    sample = rng.sample(fresh_pool, min(len(fresh_pool), ctx.n(2000, 6000)))
    try:
        got = sweep.fresh_process([(k, s) for k, s, _ in sample], common.REPO)
    except Exception as e:      # noqa
        ctx.broken('harness', 'fresh-process helper failed: %s' % e)
        got = []
    nbad = 0
    for (k, s, want), g in zip(sample, got):
        ctx.evaluations += 1
        if tuple(g) != tuple(want):
            nbad += 1
            ctx.violations.append(dict(stream='fresh-process', case=dict(unit='sweep', target=k, seed=s, kind='fresh-process'),
                                       impl=str(want), model=str(g),
                                       why='%s: a fresh interpreter answers %s, this process (after its history) answered %s' % (k, g, want)))
    ctx.streams['fresh-process'] = dict(cases=len(got), deviations=nbad)


def check_module_state(ctx, before):
    after = sweep.module_state()
    bad = 0
    for k in sorted(set(before) | set(after)):
        if before.get(k) != after.get(k):
            bad += 1
            ctx.violations.append(dict(stream='module-state', case=dict(unit='module-state', name=k), impl=str(after.get(k))[:400],
                                       model=str(before.get(k))[:400],
                                       why='module-level object / function default %s changed during the run' % k))
    n, probs = sweep.check_source_defaults(common.REPO)
    for p in probs:
        bad += 1
        ctx.violations.append(dict(stream='defaults', case=dict(unit='defaults', site='%s.%s(%s)' % (p['module'], p['qualname'], p['param'])),
                                   impl=p['problem'], model=str(p['source']), why=p['problem']))
    ctx.evaluations += len(after) + n
    ctx.dist['module-level objects and defaults fingerprinted'] = len(after)
    ctx.dist['mutable default literals (ast)'] = n
    ctx.streams['module-state'] = dict(cases=len(after) + n, deviations=bad)


def check_generated_defaults(ctx):
    """the list of shared mutable defaults GENERATED from the source (tools/py2v.py part 5, Gen/Signatures.v mutable_defaults) equals the live
    inspect enumeration and the ast enumeration check_source_defaults walks: no default container of the package escapes the inspection"""
    table = sigcheck.load_table()
    if table is None:
        ctx.notes.append('generated-defaults: no generated table (translator status %s); the ast enumeration of c18_sweep stands alone'
                         % json.dumps(ctx.gen_status.get('Signatures', {}))[:200])
        return
    only_gen, only_live, both = sigcheck.defaults_vs_live(table)
    swept = {(e['module'], e['qualname'], e['param']) for e in sweep.source_mutable_defaults(common.REPO) if '<locals>' not in e['qualname']}
    gen = set(only_gen) | set(both)
    problems = []
    if only_gen:
        problems.append('in the generated table but not a live mutable default: %s' % only_gen[:5])
    if only_live:
        # a default container that is not a display in the source (e.g. a module-level constant used as the default): behaviour is the
        # same, the live object is fingerprinted by module_state all the same - recorded, not an alarm
        ctx.notes.append('generated-defaults: live mutable defaults that are not displays in the source (covered by the module-state '
                         'fingerprints only): %s' % only_live[:10])
    direct = {(e['module'], e['qualname'], e['param']) for e in table['mutable_defaults'] if not e['local'] and not e.get('via')}
    if swept != direct:
        problems.append('generated table and the ast enumeration of the sweep differ: %s' % sorted(swept ^ direct)[:5])
    if problems:
        ctx.broken('signatures-defaults', 'the generated list of shared mutable default arguments does not match the library: ' + '; '.join(problems))
    ctx.evaluations += len(both)
    ctx.dist['mutable defaults in the generated table (= live inspect enumeration)'] = len(both)
    ctx.streams['generated-defaults'] = dict(cases=len(both), deviations=len(only_gen), live_only=['%s.%s(%s)' % e for e in only_live],
                                             table=['%s.%s(%s=%s)' % (e['module'], e['qualname'], e['param'], e['source'])
                                                    for e in table['mutable_defaults']],
                                             # methods other than __init__ that write self.<attr> (assignment / in-place update), read from the source:
                                             # the instance state a call can leave behind - what the history oracle of the sweep has to cover
                                             mutation_sites=['%s.%s: self.%s (%s)' % (c['name'], m, a, w) for c in table['classes'] for m, a, w in c['mutations']])


# ================================================================ (d) the generated alias-and-mutation table
def _mutation_exceptions():
    """the exception list of Props/GenTie_Mutation.v, read back from the Coq source: [(module, qualname, param, direct)]"""
    import re
    src = open(os.path.join(common.VERIF, 'coq', 'Props', 'GenTie_Mutation.v')).read()
    body = src[src.index('Definition exceptions'):src.index('Definition excepted')]
    return [(m, q_, p, d == 'true') for m, q_, p, d in
            re.findall(r'\("((?:[^"]|"")*)",\s*"((?:[^"]|"")*)",\s*"((?:[^"]|"")*)",\s*(true|false),', body)]


def mutation_rows(table):
    """the rows that make pure_table false - the same reading as Props/GenTie_Mutation.v pure_row, done here only to NAME the site"""
    exc = _mutation_exceptions()
    bad = []
    for r in table.get('rows', []):
        if r['cls'] != 'MayMutate':
            continue
        via = r['kind'].startswith('via:')
        if r['param'] == 'self' and r['qualname'].endswith('.__init__'):
            continue
        if r['param'] in ('self', '<globals>') and via:
            continue
        if any(m == r['module'] and q_ == r['qualname'] and p == r['param'] and (d or via) for m, q_, p, d in exc):
            continue
        bad.append(r)
    return bad


def load_mutation_table():
    p = os.path.join(common.VERIF, 'coq', 'Gen', 'Mutation.json')
    if not os.path.exists(p):
        return None
    t = json.load(open(p))
    return t if t.get('rows') else None


def check_mutation_table(ctx):
    """(1) name the rows that break pure_table (the theorem itself is the obligation C18_pure_table; a flipped row is reported with its
    site so that the replay says where); (2) cross-check: every argument mutation the dynamic sweep observed in THIS run must be
    MayMutate in the table - a site seen mutated that the table calls Untouched / CopiedFirst means the scan is unsound"""
    table = load_mutation_table()
    if table is None or 'Mutation' in ctx.fallback:
        ctx.notes.append('mutation-table: no generated table (translator status %s): arguments-untouched rests on the dynamic sweep alone'
                         % json.dumps(ctx.gen_status.get('Mutation', {}))[:300])
        ctx.streams['mutation-table'] = dict(cases=0, deviations=0, fallback=True)
        return
    rows = table['rows']
    bad = mutation_rows(table)
    for r in bad[:20]:
        site = '%s.%s(%s)' % (r['module'], r['qualname'], r['param'])
        ctx.violations.append(dict(stream='mutation-table', case=dict(unit='mutation-table', module=r['module'], qualname=r['qualname'],
                                                                      param=r['param'], line=r['line'], kind=r['kind'],
                                                                      public=r['public'], mutable_default=r['mutable_default']),
                                   impl='MayMutate line %d %s; all evidence: %s' % (r['line'], r['kind'], r.get('all')),
                                   model='Untouched | CopiedFirst | a listed exception (Props/GenTie_Mutation.v)',
                                   why='%s may be changed by the call: %s line %d (%s)%s%s - not on the exception list of Props/GenTie_Mutation.v, '
                                       'pure_table fails' % (site, r['module'].replace('.', '/') + '.py', r['line'], r['kind'],
                                                             ', parameter of a public method' if r['public'] else '',
                                                             ', shared mutable default %s' % r['default'] if r['mutable_default'] else '')))
    if bad:
        # the obligation C18_pure_table is broken by these rows: name them next to it, whichever violation the replay leads with
        ctx.broken('mutation-table: ' + ', '.join('%s.%s(%s) line %d' % (r['module'], r['qualname'], r['param'], r['line']) for r in bad[:4]),
                   'pure_table fails at: ' + '; '.join(
            '%s.%s(%s) %s line %d %s' % (r['module'], r['qualname'], r['param'], r['module'].replace('.', '/') + '.py', r['line'], r['kind'])
            for r in bad[:8]))
    index = {(r['module'], r['qualname'], r['param']): r for r in rows}
    unsound = []
    for m, q_, p in sweep.OBSERVED_MUTATIONS:
        r = index.get((m, q_, p))
        if r is not None and r['cls'] != 'MayMutate':
            unsound.append((m, q_, p, r['cls']))
    if unsound:
        ctx.broken('mutation-scan', 'the static alias-and-mutation scan is unsound: the dynamic sweep saw these arguments changed, the table '
                                    'calls them %s' % unsound[:5])
    ctx.evaluations += len(rows)
    ctx.dist['mutation-table rows (function, parameter)'] = len(rows)
    ctx.dist['mutation-table MayMutate rows'] = sum(1 for r in rows if r['cls'] == 'MayMutate')
    ctx.dist['mutation-table CopiedFirst rows'] = sum(1 for r in rows if r['cls'] == 'CopiedFirst')
    ctx.streams['mutation-table'] = dict(cases=len(rows), deviations=len(bad), functions=table.get('functions'),
                                         public_rows=sum(1 for r in rows if r['public']),
                                         mutable_default_rows=sum(1 for r in rows if r['mutable_default']),
                                         observed_by_sweep=['%s.%s(%s)' % o for o in sweep.OBSERVED_MUTATIONS],
                                         scan_unsound=['%s.%s(%s): %s' % u for u in unsound],
                                         rejected=table.get('rejected'), callable_sites=len(table.get('callable_sites', [])))


def corpus():
    for p in sorted(glob.glob(os.path.join(common.VERIF, 'corpus', ID, '*.json'))):
        yield json.load(open(p))


def explore(ctx, widen=1):
    import votelib.evaluate.sequential, votelib.evaluate.cardinal, votelib.evaluate.openlist, votelib.evaluate.threshold   # noqa
    import votelib.io.blt, votelib.io.stv   # noqa
    sweep.targets()
    before = sweep.module_state()
    kw = dict(canon=canon, nontrivial=nontrivial, spec=spec, known_class=known_class, limit=60)
    cor = list(corpus())
    ctx.differential('corpus', [c for c in cor if c.get('unit') in STREAM], model_line, impl, **kw)
    for c in cor:
        if c.get('unit') == 'sweep':
            replay_sweep(ctx, c)
    ctx.differential('pav-boundary', gen_pav_boundary(ctx.rng), model_line, impl, **kw)
    ctx.differential('pav-seq', gen_pav(ctx.rng, ctx.n(400, 4000) * widen), model_line, impl, **kw)
    ctx.differential('borda-seq', gen_borda(ctx.rng, ctx.n(500, 5000) * widen), model_line, impl, **kw)
    ctx.differential('seeded', list(gen_seeded(ctx.rng, ctx.n(400, 6000) * widen)), model_line, impl, **kw)
    ctx.differential('multistage', gen_ms(ctx.rng, ctx.n(400, 6000) * widen), model_line, impl, **kw)
    for _ in range(ctx.n(250, 3000) * widen):
        check_seeded_hare(ctx, _hare_case(ctx.rng))
    run_sweep(ctx, ctx.n(10, 60) * (2 if widen > 1 else 1), first_seed=ctx.seed * 1000)
    check_module_state(ctx, before)
    check_generated_defaults(ctx)
    check_mutation_table(ctx)


def replay_sweep(ctx, case):
    if case.get('kind') == 'seeded-hare':
        return check_seeded_hare(ctx, case)
    ctx.evaluations += 1
    if case.get('kind') == 'fresh-process':
        want = sweep.run_case(case['target'], case['seed'])['after']
        got = sweep.fresh_process([(case['target'], case['seed'])], common.REPO)[0]
        if tuple(got) != tuple(want):
            ctx.violations.append(dict(stream='fresh-process', case=case, impl=str(want), model=str(got), why='fresh interpreter answers differently'))
        return
    r = sweep.run_case(case['target'], case['seed'])
    for kind, text in r['problems']:
        ctx.violations.append(dict(stream='sweep', case=case, impl=text, model='n/a', why='%s: %s' % (case['target'], text)))
        break


def replay(ctx, case, stream=None):
    u = case.get('unit')
    if u in STREAM:
        ctx.differential('replay', [case], model_line, impl, canon=canon, nontrivial=nontrivial, spec=spec, known_class=known_class)
    elif u == 'sweep':
        replay_sweep(ctx, case)
    elif u == 'mutation-table':
        check_mutation_table(ctx)
    else:
        before = sweep.module_state()
        run_sweep(ctx, 2)
        check_module_state(ctx, before)
