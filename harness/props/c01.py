"""C01 - HighestAverages.evaluate vs Model/HighestAverages.v"""
from fractions import Fraction
from decimal import Decimal
import common
from common import sx, q, jq, cname, ok
from units import U

ID = 'C01'
ZERO_LABELS = True      # a share of the cases is asked with candidates numbered from 0 (harness/common.py LABEL_MODE)
LEVEL = 'proof'
GEN_TIES = {'Divisor': 'Props/GenTie_Divisor.v'}
TIE = {'component/divisor.py': 'translator (Gen/Divisor.v == Model/Divisor.v, Props/GenTie_Divisor.v) + dense grid',
       'HighestAverages.evaluate': 'correspondence'}
RULE = ('corpus; exhaustive-small: <=3 parties, votes 0..3, n 1..4, five divisors; random: 1..7 parties, n 1..40, '
        'all five divisors and modified_first_coef wrappers (1, 1.2, 1.4, 1.42), prev_gains/max_seats absent|loose|binding|cap=prev; '
        'boundary: constructed quotient ties v_i = t*d(k_i), zero-vote parties, totals >= 1e30; divisor grid 0..300 per divisor. '
        'non-trivial = a tie in the result, or a cap binds, or prev_gains non-empty, or a zero-vote party, or a total > 2^53; '
        'distinct by hash of the canonical case')
PARTIAL = []
TRUSTED = []
DIV = {1: 'd_hondt', 2: 'sainte_lague', 3: 'imperiali', 4: 'danish', 5: 'macau'}
COEFS = [None, None, '1', '1.2', '1.4', '1.42', 'default']      # 'default' = modified_first_coef(f) without a coefficient (documented 1.4)


def divisor_obj(spec):
    import votelib.component.divisor as vd
    f = vd.get(DIV[spec[0]])
    if len(spec) > 1:
        c = spec[1]
        if c == 'default':
            return vd.modified_first_coef(f)
        return vd.modified_first_coef(f, Decimal(c) if '.' in c else int(c))
    return f


def coef_val(c):
    return Fraction(7, 5) if c == 'default' else Fraction(c)


def dsx(spec):
    return sx([spec[0]] + ([coef_val(spec[1])] if len(spec) > 1 else []))


def model_line(c):
    return '%d (%s %s %d %s %s)' % (
        U['highest_averages'], dsx(c['div']), sx([[k, q(v)] for k, v in c['votes']]), c['n'],
        sx([[k, v] for k, v in c['prev']]), sx([[k, v] for k, v in c['caps']]))


def enc_dist(res):
    import votelib.evaluate.core as core
    gains, tie = [], []
    for k, v in res.items():
        if isinstance(k, core.Tie):
            tie = [sorted(common.cnum(x) for x in k), v]
        else:
            gains.append([common.cnum(k), v])
    return [gains, tie]


def impl(c):
    import votelib.evaluate.proportional as prop
    ev = prop.HighestAverages(divisor_obj(c['div']))
    votes = {cname(k): (int(q(v)) if q(v).denominator == 1 else q(v)) for k, v in c['votes']}
    kw = {}
    if c['prev'] or c.get('pass_prev'):
        kw['prev_gains'] = {cname(k): v for k, v in c['prev']}
    if c['caps'] or c.get('pass_caps'):
        kw['max_seats'] = {cname(k): v for k, v in c['caps']}
    return ok(enc_dist(ev.evaluate(votes, c['n'], **kw)))


def canon(c, wire):
    v = common.parse_sx(wire)
    if v[0] != 0:
        return ('err', v[1])
    gains, tie = v[1]
    return ('ok', tuple(sorted((k, common.unq(s)) for k, s in gains)),
            (tuple(sorted(tie[0])), tie[1]) if tie else None)


def nontrivial(c):
    return bool(c.get('_tie') or c['prev'] or c['caps'] or any(q(v) == 0 or q(v) > 2 ** 53 for _, v in c['votes']))


def dval(spec, k):
    d = {1: k + 1, 2: 2 * k + 1, 3: Fraction(k, 2) + 1, 4: 3 * k + 1, 5: 2 ** k}[spec[0]]
    if len(spec) > 1 and k == 0:
        return coef_val(spec[1])
    return Fraction(d)


def rand_div(rng):
    i = rng.randint(1, 5)
    c = rng.choice(COEFS)
    return [i] if c is None else [i, c]


def constraints(rng, ids, n, votes):
    """prev/caps maps: absent | loose | binding | cap = prev"""
    prev, caps = [], []
    mode = rng.choice(['none', 'none', 'prev', 'caps', 'both', 'tight'])
    if mode in ('prev', 'both', 'tight'):
        budget = rng.randint(0, n)
        for k in rng.sample(ids, rng.randint(1, len(ids))):
            s = rng.randint(0, max(0, min(budget, 3)))
            budget -= s
            if s or rng.random() < 0.2:
                prev.append([k, s])
        if rng.random() < 0.15:
            prev.append([max(ids) + 1, rng.randint(0, 1)])   # a party with seats but no votes
    pd = dict(prev)
    if mode in ('caps', 'both', 'tight'):
        for k in rng.sample(ids, rng.randint(1, len(ids))):
            lo = pd.get(k, 0)
            if mode == 'tight' and rng.random() < 0.4:
                caps.append([k, lo])
            else:
                caps.append([k, lo + rng.randint(0, 3)])
    return prev, caps


def gen_random(rng, count):
    for _ in range(count):
        m = rng.randint(1, 7)
        ids = list(range(1, m + 1))
        rng.shuffle(ids)
        style = rng.choice(['small', 'mid', 'big', 'zeros', 'equal', 'frac'])
        votes = []
        for k in ids:
            if style == 'small':
                v = rng.randint(0, 6)
            elif style == 'mid':
                v = rng.randint(0, 1000)
            elif style == 'big':
                v = 10 ** 30 + rng.randint(0, 3) * rng.choice([1, 10 ** 29])
            elif style == 'zeros':
                v = rng.choice([0, 0, rng.randint(1, 20)])
            elif style == 'equal':
                v = rng.choice([12, 24, 36, 60])
            else:
                v = Fraction(rng.randint(0, 40), rng.randint(1, 3))
            votes.append([k, jq(v)])
        n = rng.randint(1, rng.choice([3, 8, 40]))
        prev, caps = constraints(rng, ids, n, votes)
        yield dict(unit='highest_averages', div=rand_div(rng), votes=votes, n=n, prev=prev, caps=caps)


def gen_ties(rng, count):
    """constructed quotient ties: v_i = t * d(k_i)"""
    for _ in range(count):
        m = rng.randint(2, 6)
        div = rand_div(rng)
        t = rng.choice([1, 6, 60, 10 ** 30, 420])
        ids = list(range(1, m + 1))
        rng.shuffle(ids)
        votes, tot = [], 0
        for k in ids:
            ki = rng.randint(0, 3)
            v = t * dval(div, ki)
            if rng.random() < 0.25:
                v = v + rng.choice([1, -1]) if v > 1 else v
            votes.append([k, jq(v)])
            tot += ki
        n = max(1, tot + rng.randint(-1, 2))
        prev, caps = constraints(rng, ids, n, votes) if rng.random() < 0.5 else ([], [])
        yield dict(unit='highest_averages', div=div, votes=votes, n=n, prev=prev, caps=caps)


def gen_exhaustive():
    import itertools
    for m in (1, 2, 3):
        for vals in itertools.product(range(0, 4), repeat=m):
            for n in range(1, 5):
                for dv in range(1, 6):
                    yield dict(unit='highest_averages', div=[dv], votes=[[i + 1, v] for i, v in enumerate(vals)],
                               n=n, prev=[], caps=[])


def gen_zero_caps(rng, count):
    """zero-vote parties with binding caps (quotients stay equal after a seat)"""
    for _ in range(count):
        m = rng.randint(2, 4)
        ids = list(range(1, m + 1))
        votes = [[k, rng.choice([0, 0, 0, 10])] for k in ids]
        n = rng.randint(2, 7)
        caps = [[k, rng.randint(1, 3)] for k in ids if rng.random() < 0.7]
        prev = [[k, 1] for k in ids if rng.random() < 0.2 and dict(caps).get(k, 9) >= 1]
        if sum(v for _, v in prev) > n:
            prev = []
        yield dict(unit='highest_averages', div=rand_div(rng), votes=votes, n=n, prev=prev, caps=caps)


def div_model_line(c):
    return '%d (%s %d)' % (U['divisor'], dsx(c['div']), c['k'])


def div_impl(c):
    return ok(q(divisor_obj(c['div'])(c['k'])))


def mark_tie(c, io, mo):
    v = common.parse_sx(io)
    if v[0] == 0 and v[1][1]:
        c['_tie'] = True
    return None


def corpus():
    import os, json, glob
    for p in sorted(glob.glob(os.path.join(common.VERIF, 'corpus', ID, '*.json'))):
        yield json.load(open(p))


def explore(ctx, widen=1):
    kw = dict(canon=canon, nontrivial=nontrivial, spec=mark_tie)
    ctx.differential('corpus', corpus(), model_line, impl, **kw)
    grid = [dict(unit='divisor', div=dv, k=k) for dv in ([[i] for i in range(1, 6)] + [[i, '1.4'] for i in range(1, 6)] + [[1, '1.42'], [2, '1'], [2, 'default'], [1, 'default']])
            for k in range(0, 2000 if 'Divisor' in ctx.fallback else ctx.n(120, 300))]
    ctx.differential('divisor-grid', grid, div_model_line, div_impl, nontrivial=lambda c: False)
    ex = list(gen_exhaustive())
    if ctx.tier == 'quick':
        ex = ex[::3]
    ctx.differential('exhaustive-small', ex, model_line, impl, **kw)
    ctx.differential('random', gen_random(ctx.rng, ctx.n(1500, 25000) * widen), model_line, impl, **kw)
    ctx.differential('quotient-ties', gen_ties(ctx.rng, ctx.n(600, 8000) * widen), model_line, impl, **kw)
    ctx.differential('zero-votes-caps', gen_zero_caps(ctx.rng, ctx.n(300, 4000) * widen), model_line, impl, **kw)


def replay(ctx, case, stream=None):
    if case.get('unit') == 'divisor':
        ctx.differential('replay', [case], div_model_line, div_impl)
    else:
        ctx.differential('replay', [case], model_line, impl, canon=canon, nontrivial=nontrivial)
