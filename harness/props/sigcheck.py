"""Tie of the generated class / signature tables (coq/Gen/Signatures.v + Signatures.json, tools/py2v.py part 5) to the running
library, shared by C19 (constructor table, to_dict keys), C18 (shared mutable defaults) and C14 (evaluate signatures).

The tables are read from the SOURCE by the translator; the theorems of coq/Props/GenTie_Signatures*.v are about them.  This module
is the correspondence side of that tie - the translator's reading against the interpreter's:
  table_vs_live      every class with to_dict found by introspection is in the table and vice versa; kind of to_dict (decorator /
                     hand-written, own / inherited), its keys (the decorator's closure), the constructor parameters (names, kinds,
                     defaults), the parameters of evaluate / convert / validate and the accepts_seats attribute as inspect sees them
  check_instance     on every object the classes stream of C19 constructs: a parameter the table calls Stored IS the attribute
                     (identity), StoredAs likewise; for a class with class_ok the dictionary to_dict returns is exactly
                     {'class': scoped name, k: serialize_value(argument k)} - the premise the round-trip theorems use; for a class
                     that is neither class_ok nor a listed exception (the obligation GenTie_Signatures.class_table_ok is broken
                     then) the same comparison is the search for a concrete failing input
  exceptions_vs_c19  the exception list of Props/GenTie_Signatures.v coincides with what harness/props/c19.py treats specially
  defaults_vs_live   the generated list of shared mutable defaults equals the live inspect enumeration (C18)
"""
import os, re, json, ast, sys, inspect, importlib, pkgutil, collections, types
from fractions import Fraction
from decimal import Decimal
import common

GEN = os.path.join(common.VERIF, 'coq', 'Gen')
TIE_FILE = os.path.join(common.VERIF, 'coq', 'Props', 'GenTie_Signatures.v')
KINDS = {inspect.Parameter.POSITIONAL_ONLY: 'PPosOnly', inspect.Parameter.POSITIONAL_OR_KEYWORD: 'PPos',
         inspect.Parameter.VAR_POSITIONAL: 'PVarPos', inspect.Parameter.KEYWORD_ONLY: 'PKwOnly', inspect.Parameter.VAR_KEYWORD: 'PVarKw'}
_CACHE = {}


def load_table():
    """the generated table, or None when the translator did not produce it (the checks then fall back to what they did before)"""
    if 'table' not in _CACHE:
        t = None
        try:
            st = json.load(open(os.path.join(GEN, 'STATUS.json'))).get('Signatures', {})
            if st.get('status') == 'ok':
                t = json.load(open(os.path.join(GEN, 'Signatures.json')))
                t['by_name'] = {c['name']: c for c in t['classes']}
        except (OSError, ValueError):
            t = None
        _CACHE['table'] = t
    return _CACHE['table']


def serialisable(c):
    return c['todict'] != 'TDNone'


def class_ok(c):
    """mirror of GenTie_Signatures.class_ok (the Coq definition decides; this one only steers the search for a failing input)"""
    names = [p['name'] for p in c['params']]
    return (c['todict'] in ('TDDecorated', 'TDInherited') and not c['from_dict'] and c['keys'] == names
            and all(p['store'][0] == 'Stored' and p['kind'] in ('PPos', 'PKwOnly') for p in c['params'])
            and len(set(c['keys'])) == len(c['keys']) and 'class' not in c['keys'])


def read_exceptions():
    """{class: reason} as listed in Props/GenTie_Signatures.v"""
    try:
        src = open(TIE_FILE).read()
    except OSError:
        return {}
    m = re.search(r'Definition exceptions\b.*?:=\s*\[(.*?)\]\.', src, re.S)
    if not m:
        return {}
    return dict(re.findall(r'\(\s*"([^"]+)"\s*,\s*"([^"]+)"\s*\)', m.group(1)))


# ---------------------------------------------------------------------------------------------- table vs interpreter
def _live_params(fn, skip_first=True):
    ps = list(inspect.signature(fn).parameters.values())
    if skip_first:
        ps = ps[1:]
    return ps


def _default_matches(tag_payload, live):
    tag, pay = tag_payload
    if tag == 'DReq':
        return live is inspect.Parameter.empty
    if live is inspect.Parameter.empty:
        return False
    if tag == 'DNone':
        return live is None
    if tag in ('DBool', 'DInt', 'DStr'):
        return type(live) is type(pay) and live == pay
    if tag == 'DEmptyDict':
        return type(live) is dict and not live
    if tag == 'DEmptyList':
        return type(live) is list and not live
    if tag == 'DMutable':
        try:
            lit = ast.literal_eval(pay)
        except Exception:   # noqa
            return isinstance(live, (dict, list, set))
        return type(live) is type(lit) and live == lit
    return True      # DOther: an expression evaluated at definition time, not compared


def _decorator_keys(cls):
    """the param_names captured by simple_serialization's to_dict closure, or None for another to_dict"""
    f = inspect.getattr_static(cls, 'to_dict', None)
    if not isinstance(f, types.FunctionType) or f.__qualname__ != 'simple_serialization.<locals>.to_dict':
        return None
    for name, cell in zip(f.__code__.co_freevars, f.__closure__ or ()):
        if name == 'param_names':
            return list(cell.cell_contents)
    return None


def _owner(cls, name):
    for k in cls.__mro__:
        if name in vars(k):
            return k
    return None


def table_vs_live(table, live_classes):
    """[(class name, what differs)] - live_classes: {scoped name: class} of every votelib class with to_dict"""
    diffs = []
    tser = {c['name'] for c in table['classes'] if serialisable(c)}
    for n in sorted(set(live_classes) - tser):
        diffs.append((n, 'the interpreter finds to_dict on this class, the generated table does not list it as serialisable'))
    for n in sorted(tser - set(live_classes)):
        diffs.append((n, 'the generated table lists the class as serialisable, introspection does not find it with to_dict'))
    for c in table['classes']:
        try:
            mod = importlib.import_module(c['module'])
            cls = getattr(mod, c['short'])
        except Exception as exc:   # noqa
            diffs.append((c['name'], 'class of the table cannot be imported: %s' % type(exc).__name__))
            continue
        # to_dict
        if serialisable(c):
            keys = _decorator_keys(cls)
            own = _owner(cls, 'to_dict')
            kind = ('TDDecorated' if own is cls else 'TDInherited') if keys is not None else ('TDHand' if own is cls else 'TDHandInherited')
            if kind != c['todict']:
                diffs.append((c['name'], 'to_dict is %s for the interpreter, %s in the table' % (kind, c['todict'])))
            elif keys is not None and keys != c['keys']:
                diffs.append((c['name'], 'to_dict keys %s for the interpreter, %s in the table' % (keys, c['keys'])))
            if bool(hasattr(cls, 'from_dict')) != bool(c['from_dict']):
                diffs.append((c['name'], 'from_dict presence differs'))
            # constructor
            if cls.__init__ is object.__init__:
                live = []
            else:
                try:
                    live = _live_params(cls.__init__)
                except (TypeError, ValueError):
                    live = None
            if live is not None:
                a = [(p.name, KINDS[p.kind]) for p in live]
                b = [(p['name'], p['kind']) for p in c['params']]
                if a != b:
                    diffs.append((c['name'], '__init__ parameters %s for the interpreter, %s in the table' % (a, b)))
                else:
                    for p, q in zip(live, c['params']):
                        if not _default_matches(q['default'], p.default):
                            diffs.append((c['name'], 'default of __init__ parameter %s: %r for the interpreter, %s in the table' % (p.name, p.default, q['default'])))
        # evaluate / convert / validate
        tm = {m['name']: m for m in c['methods']}
        for mname in ('evaluate', 'convert', 'validate'):
            f = inspect.getattr_static(cls, mname, None)
            if isinstance(f, (staticmethod, classmethod)):
                f = f.__func__
            if not isinstance(f, types.FunctionType):
                if mname in tm:
                    diffs.append((c['name'], 'the table has a method %s, the interpreter none (or not a plain function)' % mname))
                continue
            if mname not in tm:
                if f.__module__.startswith('votelib'):
                    diffs.append((c['name'], 'method %s missing from the table' % mname))
                continue
            live = _live_params(f)
            a = [(p.name, KINDS[p.kind]) for p in live]
            b = [(p['name'], p['kind']) for p in tm[mname]['params']]
            if a != b:
                diffs.append((c['name'], '%s parameters %s for the interpreter, %s in the table' % (mname, a, b)))
            else:
                for p, q in zip(live, tm[mname]['params']):
                    if not _default_matches(q['default'], p.default):
                        diffs.append((c['name'], 'default of %s parameter %s: %r for the interpreter, %s in the table' % (mname, p.name, p.default, q['default'])))
        acc = inspect.getattr_static(cls, 'accepts_seats', None)
        want = c['accepts_seats_attr']
        if (acc if isinstance(acc, bool) else (None if acc is None else 'other')) != want:
            diffs.append((c['name'], 'accepts_seats class attribute %r for the interpreter, %r in the table' % (acc, want)))
    return diffs


# ---------------------------------------------------------------------------------------------- one constructed object
def expr_of(v, depth=0):
    """a Python expression that rebuilds v (for replay files), or None"""
    if v is None or isinstance(v, (bool, int, str)):
        return repr(v)
    if isinstance(v, Fraction):
        return 'Fraction(%d, %d)' % (v.numerator, v.denominator)
    if isinstance(v, Decimal):
        return 'Decimal(%r)' % str(v)
    if isinstance(v, float):
        return repr(v)
    if depth > 8:
        return None
    if isinstance(v, (list, tuple, set, frozenset)):
        items = [expr_of(x, depth + 1) for x in v]
        if any(i is None for i in items):
            return None
        body = ', '.join(items)
        if isinstance(v, list):
            return '[%s]' % body
        if isinstance(v, tuple):
            return '(%s,)' % body if items else '()'
        return '%s([%s])' % (type(v).__name__, body)
    if type(v) is dict:
        items = [(expr_of(k, depth + 1), expr_of(x, depth + 1)) for k, x in v.items()]
        if any(a is None or b is None for a, b in items):
            return None
        return '{%s}' % ', '.join('%s: %s' % ab for ab in items)
    if isinstance(v, (types.FunctionType, types.BuiltinFunctionType)):
        mod, name = getattr(v, '__module__', None), getattr(v, '__qualname__', '')
        try:
            if mod and getattr(importlib.import_module(mod), name, None) is v:
                return '_obj(%r)' % (mod + '.' + name)
        except Exception:   # noqa
            pass
        return None
    if hasattr(v, 'to_dict') and type(v).__module__.startswith('votelib'):
        try:
            import votelib.persist as P
            d = P.to_dict(v)
            text = json.dumps(d)
            if P.to_dict(P.from_dict(json.loads(text))) == d:
                return '_load(%r)' % text
        except Exception:   # noqa
            return None
    return None


def kwargs_expr(kwargs):
    items = [(k, expr_of(v)) for k, v in kwargs.items()]
    if any(e is None for _, e in items):
        return None
    return 'dict(%s)' % ', '.join('%s=%s' % ke for ke in items)


def eval_kwargs(expr):
    import votelib.persist as P

    def _obj(name):
        mod, n = name.rsplit('.', 1)
        return getattr(importlib.import_module(mod), n)
    return eval(expr, dict(Fraction=Fraction, Decimal=Decimal, frozenset=frozenset, set=set, dict=dict, _obj=_obj,
                           _load=lambda t: P.from_dict(json.loads(t))))


def _ser(v):
    import votelib.persist as P
    try:
        return ('ok', json.dumps(P.serialize_value(v), sort_keys=True, default=repr))
    except Exception as exc:   # noqa
        return ('exc', type(exc).__name__)


def check_instance(c, cls, obj, kwargs, strict):
    """(problems of the TABLE, problems of the PREMISE) for one constructed object.
    table: a parameter recorded as Stored / StoredAs is not the attribute (the translator's reading is wrong);
    premise (only when strict: class_ok, or neither class_ok nor excepted): to_dict is not {'class': name} + serialised arguments"""
    import votelib.persist as P
    table_bad, premise_bad = [], []
    try:
        bound = inspect.signature(cls.__init__).bind(obj, **kwargs)
        bound.apply_defaults()
        full = dict(list(bound.arguments.items())[1:])
    except Exception as exc:   # noqa
        return ['arguments do not bind to the constructor any more: %s' % exc], []
    for p in c['params']:
        if p['kind'] not in ('PPos', 'PKwOnly') or p['name'] not in full:
            continue
        tag, pay = p['store']
        attr = p['name'] if tag == 'Stored' else pay if tag == 'StoredAs' else None
        if attr is None:
            continue
        try:
            have = inspect.getattr_static(obj, attr) if attr in vars(obj) else getattr(obj, attr)
        except AttributeError:
            table_bad.append('parameter %s is recorded as stored in self.%s, the object has no such attribute' % (p['name'], attr))
            continue
        if have is not full[p['name']]:
            table_bad.append('parameter %s is recorded as stored verbatim in self.%s, the attribute holds %r, the argument was %r'
                             % (p['name'], attr, have, full[p['name']]))
    if strict:
        want_keys = ['class'] + [p['name'] for p in c['params']]
        wants = {k: _ser(full[k]) for k in want_keys[1:] if k in full}
        try:
            d = P.to_dict(obj)
        except Exception as exc:   # noqa
            if not any(w[0] == 'exc' for w in wants.values()):       # an argument that cannot be saved is refused: allowed
                premise_bad.append('to_dict raises %s: %s - every constructor argument can be serialised' % (type(exc).__name__, str(exc)[:120]))
            return table_bad, premise_bad
        if not isinstance(d, dict) or list(d.keys()) != want_keys:
            premise_bad.append('to_dict keys %s, constructor parameters %s' % (list(d.keys()) if isinstance(d, dict) else type(d).__name__, want_keys[1:]))
        else:
            if d['class'] != c['name']:
                premise_bad.append('to_dict names the class %r' % (d['class'],))
            for k in want_keys[1:]:
                got = ('ok', json.dumps(d[k], sort_keys=True, default=repr))
                want = wants.get(k, ('exc', 'missing argument'))
                if got != want:
                    premise_bad.append('to_dict[%r] = %s, the constructor argument serialises to %s' % (k, got[1][:200], want[1][:200]))
    return table_bad, premise_bad


# ---------------------------------------------------------------------------------------------- C18: shared mutable defaults
MUTABLE_TYPES = (dict, list, set, bytearray, collections.deque)


def live_mutable_defaults():
    """(module, qualname, parameter) of every function / method of the package whose default is a mutable container, by inspect"""
    import votelib
    out = set()
    mods = [votelib]
    for m in pkgutil.walk_packages(votelib.__path__, 'votelib.'):
        try:
            mods.append(importlib.import_module(m.name))
        except Exception:   # noqa
            pass
    for mod in mods:
        for name, val in vars(mod).items():
            fns = []
            if isinstance(val, types.FunctionType) and val.__module__ == mod.__name__:
                fns.append((val.__qualname__, val))
            elif isinstance(val, type) and val.__module__ == mod.__name__:
                for n2, v2 in vars(val).items():
                    f = v2.__func__ if isinstance(v2, (staticmethod, classmethod)) else v2.fget if isinstance(v2, property) else v2
                    if isinstance(f, types.FunctionType):
                        fns.append((f.__qualname__, f))
            for qn, f in fns:
                try:
                    sig = inspect.signature(f)
                except (TypeError, ValueError):
                    continue
                for p in sig.parameters.values():
                    if p.default is not inspect.Parameter.empty and isinstance(p.default, MUTABLE_TYPES):
                        out.add((mod.__name__, qn, p.name))
    return out


def defaults_vs_live(table):
    gen = {(e['module'], e['qualname'], e['param']) for e in table['mutable_defaults'] if not e['local']}
    live = live_mutable_defaults()
    return sorted(gen - live), sorted(live - gen), sorted(gen & live)
