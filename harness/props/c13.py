"""C13 - vote converters: per-ballot images, additivity, conservation."""
import itertools
from fractions import Fraction
import common
from common import sx, q, ok
import common as _c

_LONG = [False]


def cname(k):
    return ('Cand%d' % k) if _LONG[0] else _c.cname(k)


def cnum(name):
    return int(name[4:]) if name.startswith('Cand') else _c.cnum(name)
from units import U

ID = 'C13'
LEVEL = 'proof'
GEN_TIES = {'Rankscore': 'Props/GenTie_Rankscore.v', 'Convert': 'Props/GenTie_Convert.v', 'ConvertPairs': 'Props/GenTie_ConvertPairs.v'}
TIE = {'convert.py converters, vote.py subsetters': 'correspondence',
       'convert.py ApprovalToSimpleVotes / RankedToFirstPreference / RankedToFirstNPreferences / RankedToPresenceCounts / RankedToApprovalVotes / '
       'ScoreToApprovalVotesThreshold / InvertedSimpleVotes / InvertedApprovalVotes / VoteTotals .convert and util.add_dict_to_dict (bodies)':
           'translator (tools/py2v.py part 6: the loops as folds, dictionary / set operations as Prelude/PyConv.v primitives, regenerated into Gen/Convert.v on '
           'every run; Props/GenTie_Convert.v proves the generated functions equal - same keys in the same order, equal counts - to dconv img_* / inv_simple / '
           'add_dict / vote_totals of Model/Convert.v, Convert2.v) + correspondence',
       'convert.py RankedToCondorcetVotes.convert (body, both unranked_at_bottom settings)':
           'translator (six nested loops, dynamically typed items with an exception flag, util.all_ranked_candidates as a function parameter; Gen/ConvertPairs.v; '
           'Props/GenTie_ConvertPairs.v: raises nothing, result equal as a Python dictionary to dconv (img_condorcet bottom cands)) + correspondence',
       'component/rankscore.py Dowdall / Geometric / ModifiedBorda / FixedTop': 'translator (per-rank score expressions regenerated into Gen/Rankscore.v on '
                                                                                   'every run, Props/GenTie_Rankscore.v proves them equal to Model/Convert.v rank_scores) + correspondence',
       'component/rankscore.py select_padded / Borda.set_n_candidates / Borda.scores (initialised scorer) / SequenceBased.scores':
           'translator (typed translation of the list slicing / padding and of the stored score list into Gen/Rankscore.v; '
           'Props/GenTie_Rankscore.v GenTie_Rankscore_lists proves them equal to select_padded / rank_scores of Model/Convert.v and to '
           'borda_set_n / borda_scores_st of Model/State.v) + correspondence',
       'component/rankscore.py Borda.scores on an uninitialised scorer (RuntimeError)': 'correspondence (C18)',
       'convert.py VoteTotals / MergedDistributions / ConstituencyTotals / PartyTotals / InvertedSimpleVotes / GroupVotesByParty / '
       'IndividualToPartyResult / SelectionToDistribution / MergedSelections / ByConstituency / Chain (Model/Convert2.v, unit 210)': 'correspondence',
       'convert.py ScoreToSimpleVotes (Model/Cardinal.v score_to_simple, unit 27; modelled for C12)': 'correspondence of the aggregated values (sum / mean / '
                                                                                                    'median_low, with and without the corrections) + the exact '
                                                                                                    'statements of C13_score_*_value on the implementation',
       'convert.py InvalidVoteEliminator (Model/Validate.v eliminate, unit 20; modelled for C20)': 'correspondence (generator and wire format of C20) + filter / '
                                                                                                   'additivity clauses on the implementation',
       'Model/Convert2.v same_cands (the side condition of C13_chain_additive_same_cands, unit 212)': 'correspondence with the same condition evaluated on the '
                                                                                                      "implementation's own intermediate profiles (every prefix of the Chain run on both sub-profiles)",
       'Model/Convert2.v dr_class / sig_round (the double-rounding class, unit 211)': 'correspondence: class bit recomputed in exact rational arithmetic, the 28 digit '
                                                                                      'quotient of the decimal module, RoundedVotes on the Fraction, exact rounding',
       'convert.py RoundedVotes (alone, behind Chain, inside ByConstituency)': 'correspondence with Model/Convert2.v round_q (exact rounding) inside the 28 digit '
                                                                              'domain and with round_code (28 digit quotient first, InvalidOperation) everywhere, '
                                                                              '+ independent exact-rational oracle in the harness'}
RULE = ('corpus; ranked profiles over 2..5 candidates (shared ranks 25 %, truncation, empty ballots, duplicate images by construction), '
        'approval and score profiles (grades 0..5, partial ballots); every modelled converter (15 kinds x configurations, six rank scorers) '
        'compared with the model; additivity stream: each profile split into two sub-profiles (all splits for <=4 ballots, 6 random '
        'otherwise) and conv(A+B) == conv(A)+conv(B) evaluated on the implementation (same candidate set for profile-dependent images). '
        'totals stream (unit 210): nested profiles of 1..4 constituencies (simple / ranked / approval / score ballots, empty constituencies, zero '
        'and rational counts, counts of 10^20) through VoteTotals, MergedDistributions (dictionary or list), ConstituencyTotals, PartyTotals, '
        'ByConstituency(inner converter), and Chains of them with InvertedSimpleVotes / RoundedVotes; person candidates with parties through '
        'GroupVotesByParty (independents aggregated or ignored), IndividualToPartyVotes, PartyTotals after grouping; selections through '
        'IndividualToPartyResult, SelectionToDistribution, MergedSelections (dictionary or list), ByConstituency(SelectionToDistribution) + '
        'MergedDistributions; model = implementation key by key (zero-count keys included), the documented image recomputed independently, '
        'additivity over every sampled split of the constituencies / ballots, total weight. chain stream: type-correct Chains of 1..4 links '
        '(nested Chains too) over ranked / approval / score / simple profiles from the 11 chainable accumulating converters, InvertedSimpleVotes '
        'and RoundedVotes (last, or followed by inversion / rounding only); blank approval ballots in 10 % of the approval profiles; additivity over '
        'splits for Chains of additive links. rounded stream: RoundedVotes '
        '(and Chain[ApprovalToSimpleVotes(split), RoundedVotes]) on simple / ranked / approval / score ballots, 0..6 decimals, default + the '
        'eight decimal rounding modes, counts as int / Fraction / Decimal / binary-exact float placed exactly on a half of the kept digit '
        '(even and odd digit before, up to 10^20), just beside it, on the grid, just above the grid, non-terminating fractions, a few '
        'negative counts; every count compared with the model (exact rounding round_q or the code path round_code, drawn per case) and with exact '
        'rational rounding computed in the harness, keys and ballot count unchanged; negative decimals refused with ValueError. rounded-wide stream: '
        'counts outside the exact domain of the 28 digit decimal context (Fractions within 10^-27..10^-40 of a half or of the grid, non-terminating '
        'fractions with denominators up to 3*10^27, Decimals of 29..40 digits, results of more than 28 digits) against round_code only. '
        'rounded-class stream (unit 211): Fractions of the rounded-wide shapes; class bit, quotient, library result and exact rounding compared with the '
        'model; outside the class the library must give the exact rounding, with a half strictly between count and quotient it must not. same-cands stream '
        '(unit 212): Chains of accumulating converters and inversions over two sub-profiles (the halves of one profile, or two overlapping profiles); the side '
        'condition as computed by the model = the condition on the intermediate profiles of the implementation; where it holds conv(A+B) == conv(A)+conv(B) keys and '
        'counts. score-simple stream (unit 27): score profiles with integer counts 0..40, sum / mean / median_low, 70 % plain configuration; aggregated values compared; '
        'sum: per-ballot image and additivity over all splits; mean: value * number of scores == sum of scores; median_low: 2 #below < #scores <= 2 #at-most. '
        'eliminator stream: the InvalidVoteEliminator cases of C20; kept == the ballots that pass alone, conv(A) + conv(B) == conv(A+B) for a random cut. '
        'reuse clause: every converter object first serves a history of 1..3 other calls (other profiles over more / fewer candidates; for a Borda scorer also '
        'set_n_candidates(k) and scores(n) on the shared scorer; Chains / ByConstituency: other data of the same shape) and must then answer as a fresh one. '
        'MergedSelections: permutation of the distinct candidates, sorted by (appearances, sum of reversed ranks), ties in order of first appearance, recomputed on the output. '
        'non-trivial = shared rank or two ballots with the same image or a truncated ballot '
        '(rounded: a count that is not already on the grid; totals: more than one constituency; chain: more than one ballot or link); distinct by case hash')
PARTIAL = ['RoundedVotes is not additive by nature (C13_rounded_additive_refuted, C13_chain_rounded_refuted): its per-ballot image is decided. The exact '
           'image round_q holds of the code for every count outside the double-rounding class dr_class (no rounding boundary of the mode in the closed interval '
           'between the count and its 28 digit quotient: C13_rounded_code_outside_class; the counts of at most 28 significant digits are the special case '
           'C13_rounded_code_exact) whose result fits 28 digits; inside the class the library rounds twice (the three HALF modes: wrong exactly on dr_class_half, '
           'C13_rounded_half_class_exact; for the five directed modes the class is sufficient, not exact: ROUND_DOWN does not jump at 0, ROUND_05UP not at 1 mod 5) '
           'or raises InvalidOperation - reproduced by '
           'Model/Convert2.v round_code, compared on the rounded-wide and rounded-class streams',
           'ScoreToSimpleVotes: theorems for the plain configuration (no unscored_value, min_count <= 0, no truncation; sum also with a constant unscored_value) and ballot counts >= 0; sum is per-ballot exact and '
           'additive, mean and median_low are NOT additive (C13_score_mean_additive_refuted, C13_score_median_additive_refuted) - the property\'s list of converters '
           'does not name ScoreToSimpleVotes; what is additive are the tallies they are computed from (C13_score_tallies_additive). The corrections are compared only',
           'MergedSelections merges rankings, not votes: no additivity of the result; its two tallies are additive (C13_merged_sel_tallies_additive)',
           'A Decimal count (the output of RoundedVotes) cannot be combined with Fraction counts by later converters (TypeError in Fraction * Decimal): '
           'Chains with RoundedVotes before an accumulating converter are outside the explored domain',
           'ByConstituency deeper than one level, SubsettedVotes(depth > 0), IndividualToPartyMapper(independents=keep / error): not exercised']
TRUSTED = []
KINDS = {'approval_simple': 1, 'first_pref': 2, 'first_n': 3, 'presence': 4, 'ranked_approval': 5, 'positional': 6,
         'condorcet': 7, 'score_ranked': 8, 'score_approval': 9, 'inverted_approval': 10, 'party': 11,
         'sub_simple': 12, 'sub_approval': 13, 'sub_ranked': 14, 'sub_score': 15}
PROFILE_TYPE = {'approval_simple': 'a', 'first_pref': 'r', 'first_n': 'r', 'presence': 'r', 'ranked_approval': 'r',
                'positional': 'r', 'condorcet': 'r', 'score_ranked': 's', 'score_approval': 's', 'inverted_approval': 'a',
                'party': 'p', 'sub_simple': 'p', 'sub_approval': 'a', 'sub_ranked': 'r', 'sub_score': 's'}
PROFILE_DEP = {'positional', 'condorcet', 'score_ranked', 'inverted_approval'}


# ---- profiles as JSON: ranked ballot = list of items (int | list of ints); approval = list of ints; score = [[c, 'n/d'], ...]
def vsx(kind, votes):
    t = PROFILE_TYPE[kind]
    if t == 'r':
        return sx([[[i if isinstance(i, int) else list(i) for i in b], q(w)] for b, w in votes])
    if t == 'a':
        return sx([[sorted(b), q(w)] for b, w in votes])
    if t == 's':
        return sx([[[[c, q(s)] for c, s in sorted(b)], q(w)] for b, w in votes])
    return sx([[c, q(w)] for c, w in votes])


def cfg_sx(c):
    k, cfg = c['kind'], c.get('cfg')
    if k == 'approval_simple':
        return '1' if cfg else '0'
    if k in ('first_pref', 'presence', 'ranked_approval', 'inverted_approval'):
        return '0'
    if k == 'first_n':
        return str(cfg)
    if k == 'positional':
        return {'borda': lambda a: '(1 %d)' % a, 'dowdall': lambda a: '(2)', 'geometric': lambda a: '(3 %d)' % a,
                'modified': lambda a: '(4)', 'fixedtop': lambda a: '(5 %d)' % a,
                'sequence': lambda a: '(6 %s)' % sx([q(x) for x in a])}[cfg[0]](cfg[1])
    if k == 'condorcet':
        return '1' if cfg else '0'
    if k == 'score_ranked':
        return '()' if cfg is None else '(%s)' % sx(q(cfg))
    if k == 'score_approval':
        return sx(q(cfg))
    if k == 'party':
        return sx([[a, b] for a, b in cfg if b is not None])
    return sx(cfg)        # subset


def model_line(c):
    return '%d (%d %s %s)' % (U['convert'], KINDS[c['kind']], cfg_sx(c), vsx(c['kind'], c['votes']))


def py_profile(kind, votes):
    t = PROFILE_TYPE[kind]
    wt = lambda w: int(q(w)) if q(w).denominator == 1 else q(w)
    if t == 'r':
        return {tuple(cname(i) if isinstance(i, int) else frozenset(cname(x) for x in i) for i in b): wt(w) for b, w in votes}
    if t == 'a':
        return {frozenset(cname(x) for x in b): wt(w) for b, w in votes}
    if t == 's':
        return {frozenset((cname(cc), int(q(s)) if q(s).denominator == 1 else q(s)) for cc, s in b): wt(w) for b, w in votes}
    return {cname(cc): wt(w) for cc, w in votes}


class _P:
    """stand-in individual candidate with a party (IndividualToPartyMapper reads .candidacy_for)"""
    def __init__(self, name, party):
        self.name, self.candidacy_for, self.membership = name, party, party

    def __repr__(self):
        return 'P(%s)' % self.name


def converter(c):
    import votelib.convert as conv, votelib.vote as vv, votelib.component.rankscore as rs
    k, cfg = c['kind'], c.get('cfg')
    if k == 'approval_simple':
        return conv.ApprovalToSimpleVotes(split=cfg)
    if k == 'first_pref':
        return conv.RankedToFirstPreference()
    if k == 'first_n':
        return conv.RankedToFirstNPreferences(cfg)
    if k == 'presence':
        return conv.RankedToPresenceCounts()
    if k == 'ranked_approval':
        return conv.RankedToApprovalVotes()
    if k == 'positional':
        scorer = {'borda': lambda a: rs.Borda(base=a), 'dowdall': lambda a: rs.Dowdall(), 'geometric': lambda a: rs.Geometric(base=a),
                  'modified': lambda a: rs.ModifiedBorda(), 'fixedtop': lambda a: rs.FixedTop(a),
                  'sequence': lambda a: rs.SequenceBased([int(q(x)) if q(x).denominator == 1 else q(x) for x in a])}[cfg[0]](cfg[1])
        return conv.RankedToPositionalVotes(scorer)
    if k == 'condorcet':
        return conv.RankedToCondorcetVotes(unranked_at_bottom=cfg)
    if k == 'score_ranked':
        return conv.ScoreToRankedVotes(unscored_value=None if cfg is None else (int(q(cfg)) if q(cfg).denominator == 1 else q(cfg)))
    if k == 'score_approval':
        return conv.ScoreToApprovalVotesThreshold(int(q(cfg)) if q(cfg).denominator == 1 else q(cfg))
    if k == 'inverted_approval':
        return conv.InvertedApprovalVotes()
    return None


def enc_key(k):
    import collections.abc
    if isinstance(k, _P):
        return cnum(k.name)
    if k is None:
        return []
    if isinstance(k, str):
        if k.startswith('district'):
            return int(k[8:])
        return cnum(k) if not k.startswith('party') else int(k[5:])
    if isinstance(k, frozenset):
        items = list(k)
        if items and isinstance(items[0], tuple):       # score ballot
            return sorted([cnum(a), q(b)] for a, b in items)
        return sorted((enc_key(x) for x in items), key=repr)
    if isinstance(k, tuple):
        return [enc_key(x) for x in k]
    raise TypeError(k)


def run_impl(c, votes=None):
    import votelib.convert as conv, votelib.vote as vv
    _LONG[0] = c.get('names') == 'long'
    votes = c['votes'] if votes is None else votes
    k, cfg = c['kind'], c.get('cfg')
    if k == 'party':
        pm = dict(cfg)
        objs = {cc: _P(cname(cc), None if pm.get(cc) is None else ('party%d' % pm[cc])) for cc, _ in votes}
        if c.get('blank') in objs and pm.get(c['blank']) is None:
            # a blank vote option (none of the above): an individual option without a party - an independent for the mapper -
            # that is an ElectionParty object at the same time
            import votelib.candidate as _vc
            objs[c['blank']] = _vc.NoneOfTheAbove('none of the above')
        prof = {objs[cc]: (int(q(w)) if q(w).denominator == 1 else q(w)) for cc, w in votes}
        import votelib.candidate as cd
        out = conv.IndividualToPartyVotes(cd.IndividualToPartyMapper()).convert(prof)
    elif k.startswith('sub_'):
        sub = {'sub_simple': vv.SimpleSubsetter, 'sub_approval': vv.ApprovalSubsetter, 'sub_ranked': vv.RankedSubsetter,
               'sub_score': vv.ScoreSubsetter}[k]()
        out = conv.SubsettedVotes(sub).convert(py_profile(k, votes), [cname(x) for x in cfg])
        if c.get('nested'):
            # the same profile in two constituencies, subsetted one level down (depth=1): each constituency must come out as the flat image
            prof2 = py_profile(k, votes)
            nested = conv.SubsettedVotes(sub, depth=1).convert({'north': prof2, 'south': dict(prof2)}, [cname(x) for x in cfg])
            if nested != {'north': out, 'south': out}:
                raise AssertionError('SubsettedVotes(depth=1) gives %r per constituency, the flat image is %r' % (nested, out))
    else:
        out = converter(c).convert(py_profile(k, votes))
    return {json_key(enc_key(kk)): q(v) for kk, v in out.items()}


def json_key(k):
    return sx(k)


def impl(c):
    d = run_impl(c)
    return '(0 (%s))' % ' '.join('(%s %s)' % (k, sx(v)) for k, v in d.items())


def canon(c, wire):
    v = common.parse_sx(wire)
    if v[0] == 4:
        return ('unmodelled',)
    if v[0] != 0:
        return ('err', v[1])
    d = {}
    for k, val in v[1]:
        d[repr(k)] = d.get(repr(k), 0) + common.unq(val)
    return ('ok', tuple(sorted((k, x) for k, x in d.items() if x != 0)))


def same_cands(kind, a, b):
    def cs(votes):
        t = PROFILE_TYPE[kind]
        out = set()
        for bal, _ in votes:
            if t == 'r':
                for i in bal:
                    out.update([i] if isinstance(i, int) else i)
            elif t == 'a':
                out.update(bal)
            elif t == 's':
                out.update(cc for cc, _ in bal)
        return out
    return cs(a) == cs(b) == cs(a + b)


def merge(a, b):
    d = {}
    order = []
    for bal, w in a + b:
        key = repr(bal)
        if key not in d:
            d[key] = [bal, Fraction(0)]
            order.append(key)
        d[key][1] += q(w)
    return [[d[k][0], common.jq(d[k][1])] for k in order]


def spec(c, io, mo):
    """additivity and weight conservation evaluated on the implementation"""
    if common.parse_sx(io)[0] != 0:
        cls = 'crash:' + c['kind']
        c['_class'] = cls
        if common.parse_sx(mo)[0] == 1:
            return None          # declared refusal, same on both sides
        return 'converter raises %s' % c.get('_exc', '?')
    votes = c['votes']
    if len(votes) >= 2:
        splits = c.get('_splits') or []
        for mask in splits:
            a = [v for v, m in zip(votes, mask) if m]
            b = [v for v, m in zip(votes, mask) if not m]
            if not a or not b:
                continue
            if c['kind'] in PROFILE_DEP and not same_cands(c['kind'], a, b):
                continue
            try:
                da, db, dab = run_impl(c, a), run_impl(c, b), run_impl(c, merge(a, b))
            except Exception as e:   # noqa
                continue
            keys = set(da) | set(db) | set(dab)
            for k in keys:
                if da.get(k, 0) + db.get(k, 0) != dab.get(k, 0):
                    c['_class'] = 'additivity:' + c['kind']
                    return 'conv(A+B) != conv(A)+conv(B) at key %s (A=%s)' % (k, a)
    # per-ballot exactness cannot depend on what the converter object did before (C13_reuse_positional, C13_reuse_stateless): any history of
    # conversions of other profiles (over more candidates) and - for a Borda scorer, the calls of Model/State.v borda_call - of
    # scorer.set_n_candidates(k) / scorer.scores(n) on the shared scorer
    hist = c.get('_hist') or ([['conv', c['_warm']]] if c.get('_warm') else [])
    if hist and not c['kind'].startswith('sub_') and c['kind'] != 'party':
        fresh = run_impl(c)
        obj = converter(c)
        if obj is not None:
            for h in hist:
                try:
                    if h[0] == 'conv':
                        obj.convert(py_profile(c['kind'], h[1]))
                    elif h[0] == 'setn' and hasattr(getattr(obj, 'rank_scorer', None), 'set_n_candidates'):
                        obj.rank_scorer.set_n_candidates(h[1])
                    elif h[0] == 'scores' and hasattr(obj, 'rank_scorer'):
                        obj.rank_scorer.scores(h[1])
                except Exception:   # noqa - a refused call in the history (ValueError, RuntimeError) is part of the history
                    pass
            try:
                again = {json_key(enc_key(kk)): q(v) for kk, v in obj.convert(py_profile(c['kind'], votes)).items()}
            except Exception as e:   # noqa
                again = 'raises %s' % type(e).__name__
            if again != fresh:
                c['_class'] = 'reuse:' + c['kind']
                return 'a converter that served other calls before answers %s, a fresh one %s' % (str(again)[:300], str(fresh)[:300])
    one_item = c['kind'] in ('first_pref', 'ranked_approval', 'score_ranked', 'inverted_approval', 'sub_approval', 'sub_ranked', 'sub_score')
    if one_item:
        total_in = sum(q(w) for b, w in votes if (b or c['kind'] != 'first_pref'))
        d = run_impl(c)
        if sum(d.values()) != total_in:
            c['_class'] = 'conservation:' + c['kind']
            return 'total weight %s -> %s' % (total_in, sum(d.values()))
    return None


def known_class(c, io, mo):
    # still the recorded behaviour: the model reproduces it (or the chain leaves the modelled fragment before it gets there)
    if c.get('unit') == 'code' and canon2(c, mo) in (canon2(c, io), ('unmodelled',)):
        return {'split-empty': 'C13-approval-split-empty'}.get(c.get('_class'))
    return None


def nontrivial(c):
    votes = c['votes']
    t = PROFILE_TYPE[c['kind']]
    if t == 'r':
        return any(any(not isinstance(i, int) for i in b) for b, _ in votes) or len({len(b) for b, _ in votes}) > 1
    return len(votes) > 1


# ---- generators
def ranked_profile(rng, m, nb, shared=0.25):
    ids = list(range(1, m + 1))
    out, seen = [], set()
    for _ in range(nb):
        perm = ids[:]
        rng.shuffle(perm)
        if rng.random() < 0.5:
            perm = perm[:rng.randint(0, m)]
        b, i = [], 0
        while i < len(perm):
            if rng.random() < shared and i + 1 < len(perm):
                k = rng.randint(2, min(3, len(perm) - i))
                b.append(sorted(perm[i:i + k]))
                i += k
            else:
                b.append(perm[i])
                i += 1
        if repr(b) not in seen:
            seen.add(repr(b))
            out.append([b, rng.choice([1, 2, 3, 5, 10 ** 20])])
    return out


def approval_profile(rng, m, nb):
    out, seen = [], set()
    for _ in range(nb):
        b = sorted(rng.sample(range(1, m + 1), rng.randint(1, m)))
        if repr(b) not in seen:
            seen.add(repr(b))
            out.append([b, rng.choice([1, 2, 3, 7])])
    return out


def score_profile(rng, m, nb):
    out, seen = [], set()
    for _ in range(nb):
        cs = sorted(rng.sample(range(1, m + 1), rng.randint(1, m)))
        b = [[cc, rng.randint(0, 5)] for cc in cs]
        if repr(b) not in seen:
            seen.add(repr(b))
            out.append([b, rng.choice([1, 2, 3])])
    return out


def splits_for(rng, n):
    if n <= 4:
        return [list(m) for m in itertools.product([True, False], repeat=n)]
    return [[rng.random() < 0.5 for _ in range(n)] for _ in range(6)]


def gen(rng, count):
    kinds = list(KINDS)
    for _ in range(count):
        kind = rng.choice(kinds)
        m = rng.randint(2, 5)
        nb = rng.randint(1, 6)
        t = PROFILE_TYPE[kind]
        cfg = None
        if t == 'r':
            votes = ranked_profile(rng, m, nb)
        elif t == 'a':
            votes = approval_profile(rng, m, nb)
        elif t == 's':
            votes = score_profile(rng, m, nb)
        else:
            votes = [[cc, rng.choice([1, 5, 10, 10 ** 20])] for cc in rng.sample(range(1, m + 1), rng.randint(1, m))]
        if kind == 'approval_simple':
            cfg = rng.random() < 0.5
        elif kind == 'first_n':
            cfg = rng.randint(1, 3)
        elif kind == 'positional':
            cfg = rng.choice([['borda', 1], ['borda', 0], ['dowdall', 0], ['geometric', 2], ['geometric', 3], ['modified', 0],
                              ['fixedtop', 2], ['fixedtop', 4], ['sequence', ['5', '3', '1']], ['sequence', ['1', '1/2']]])
        elif kind == 'condorcet':
            cfg = rng.random() < 0.5
        elif kind == 'score_ranked':
            cfg = rng.choice([None, None, '0', '2'])
        elif kind == 'score_approval':
            cfg = str(rng.randint(0, 5))
        elif kind == 'party':
            cfg = [[cc, rng.choice([1, 2, None])] for cc, _ in votes]
            _indep = [cc for cc, pp in cfg if pp is None]
            _blank = rng.choice(_indep) if _indep and rng.random() < 0.4 else None
        elif kind.startswith('sub_'):
            cfg = sorted(rng.sample(range(1, m + 1), rng.randint(0, m)))
            _nested = rng.random() < 0.35
        if not votes:
            continue
        # the history of the reuse clause: other profiles of the same type over MORE (or fewer) candidates converted first by the same
        # object, and direct calls on a shared Borda scorer
        hist = []
        for _h in range(rng.randint(1, 3)):
            m2, nb2 = max(1, m + rng.randint(-1, 3)), rng.randint(1, 3)
            r = rng.random()
            if kind == 'positional' and r < 0.25:
                hist.append(['setn', rng.randint(0, 7)])
            elif kind == 'positional' and r < 0.4:
                hist.append(['scores', rng.randint(0, 7)])
            elif t in ('r', 'a', 's'):
                hist.append(['conv', ranked_profile(rng, m2, nb2) if t == 'r' else approval_profile(rng, m2, nb2) if t == 'a'
                             else score_profile(rng, m2, nb2)])
        yield dict(unit='convert', kind=kind, cfg=cfg, votes=votes, names=rng.choice(['short', 'long']),
                   _splits=splits_for(rng, len(votes)), _hist=hist, **({'blank': _blank} if kind == 'party' and _blank else {}), **({'nested': True} if kind.startswith('sub_') and _nested else {}))



# ---- RoundedVotes: per-ballot image = the ballot with its count rounded, in exact rational arithmetic, to `decimals` digits by
# ---- `round_method` (decimal's eight documented modes; default ROUND_HALF_UP).  No Coq unit: the oracle is exact_round below.
ROUND_METHODS = ['ROUND_HALF_UP', 'ROUND_HALF_DOWN', 'ROUND_HALF_EVEN', 'ROUND_UP', 'ROUND_DOWN', 'ROUND_CEILING', 'ROUND_FLOOR',
                 'ROUND_05UP']


def exact_round(x, d, method):
    """x: Fraction -> Fraction with denominator | 10**d; written from the definitions of the modes in the decimal documentation,
    independent of the decimal module"""
    scale = 10 ** d
    neg = x < 0
    a = abs(x) * scale
    lo = a.numerator // a.denominator
    rem = a - lo
    half = Fraction(1, 2)
    if method in (None, 'ROUND_HALF_UP'):            # ties away from zero
        up = rem >= half
    elif method == 'ROUND_HALF_DOWN':                # ties towards zero
        up = rem > half
    elif method == 'ROUND_HALF_EVEN':                # ties to the even neighbour
        up = rem > half or (rem == half and lo % 2 == 1)
    elif method == 'ROUND_UP':                       # away from zero
        up = rem > 0
    elif method == 'ROUND_DOWN':                     # towards zero
        up = False
    elif method == 'ROUND_CEILING':                  # towards +infinity
        up = rem > 0 and not neg
    elif method == 'ROUND_FLOOR':                    # towards -infinity
        up = rem > 0 and neg
    elif method == 'ROUND_05UP':                     # towards zero unless the last kept digit would then be 0 or 5
        up = rem > 0 and lo % 5 == 0
    else:
        raise ValueError(method)
    n = lo + (1 if up else 0)
    return Fraction(-n if neg else n, scale)


def num_py(t):
    """tagged JSON number -> the Python object handed to the library (int / Fraction / Decimal / binary-exact float)"""
    from decimal import Decimal
    tag, s = t
    fr = Fraction(s)
    if tag == 'int':
        assert fr.denominator == 1
        return int(fr)
    if tag == 'frac':
        return fr
    if tag == 'dec':
        return Decimal(s)
    if tag == 'float':
        f = fr.numerator / fr.denominator
        assert Fraction(f) == fr
        return f
    raise ValueError(tag)


def _terminating(fr):
    den = fr.denominator
    for p in (2, 5):
        while den % p == 0:
            den //= p
    return den == 1


def _dec_str(fr):
    """exact decimal string of a terminating fraction"""
    import decimal
    with decimal.localcontext() as lc:
        lc.prec = 200
        return str(decimal.Decimal(fr.numerator) / decimal.Decimal(fr.denominator))


def _fits(fr, d):
    """inside the explored domain: the library turns a Fraction into a Decimal by one division at the context precision (28
    significant digits), so the exact decimal expansion must fit there (terminating counts), or the count is a small non-terminating
    fraction whose 28-digit quotient is nowhere near a rounding boundary; the rounded result must have at most 28 digits too"""
    if _terminating(fr):
        digs = len(_dec_str(abs(fr)).replace('.', '').lstrip('0').split('E')[0])
        return digs <= 28 and abs(fr) * 10 ** d < 10 ** 27
    return abs(fr) < 10 ** 9 and fr.denominator < 100


def rounded_value(rng, d):
    """a count placed relative to the rounding grid of d decimals: exactly on a half, just beside it, on the grid, just above the
    grid, or anywhere; as int / Fraction / Decimal / float"""
    unit = Fraction(1, 10 ** d)
    while True:
        shape = rng.choice(['half', 'half', 'half', 'near', 'grid', 'excess', 'generic', 'int'])
        big = rng.random() < 0.15
        if big:
            k = rng.choice([10 ** 6, 10 ** 12, 10 ** 20]) * 10 ** d + rng.randint(0, 99)
            if shape in ('near', 'excess'):
                shape = 'half'
        else:
            k = rng.randint(0, 120)
        base = k * unit
        if shape == 'half':
            x = base + unit / 2
        elif shape == 'near':
            x = base + unit / 2 + rng.choice([-1, 1]) * unit / 10 ** rng.randint(1, 5)
        elif shape == 'grid':
            x = base
        elif shape == 'excess':
            x = base + rng.choice([1, 1, 9]) * unit / 10 ** rng.randint(1, 5)
        elif shape == 'generic':
            x = Fraction(rng.randint(0, 10 ** 6), rng.choice([3, 6, 7, 8, 9, 11, 13, 16, 17, 40]))
        else:
            x = Fraction(rng.choice([rng.randint(0, 1000), 10 ** 20, 10 ** 20 + 1]))
        if rng.random() < 0.08:
            x = -x
        if not _fits(x, d):
            continue
        tags = ['frac']
        if x.denominator == 1:
            tags += ['int', 'int']
        if _terminating(x):
            tags += ['dec', 'dec']
            if x.denominator & (x.denominator - 1) == 0 and abs(x.numerator) < 2 ** 53 and x.denominator < 2 ** 60:
                tags.append('float')
        tag = rng.choice(tags)
        if tag == 'dec':
            s = _dec_str(x)
            if 'E' not in s and rng.random() < 0.2:
                s = s + ('0' if '.' in s else '.0')     # trailing zero: same value, other exponent
            return ['dec', s]
        return [tag, str(x)]


def rounded_profile(c):
    t = c['ktype']
    _LONG[0] = c.get('names') == 'long'
    keys = []
    for b, _ in c['votes']:
        if t == 'r':
            keys.append(tuple(cname(i) if isinstance(i, int) else frozenset(cname(x) for x in i) for i in b))
        elif t == 'a':
            keys.append(frozenset(cname(x) for x in b))
        elif t == 's':
            keys.append(frozenset((cname(cc), int(q(s_))) for cc, s_ in b))
        else:
            keys.append(cname(b))
    return keys


def rounded_expected(c):
    """{key: exact rounding}; for chain cases the first stage (split approval votes) is computed here as well"""
    d, m = c['decimals'], c.get('method')
    keys = rounded_profile(c)
    if c.get('chain'):
        stage = {}
        for key, (_, w) in zip(keys, c['votes']):
            for cand in sorted(key):
                stage[cand] = stage.get(cand, Fraction(0)) + Fraction(q(w), len(key))
        return {k: exact_round(v, d, m) for k, v in stage.items()}
    return {k: exact_round(Fraction(w[1]), d, m) for k, (_, w) in zip(keys, c['votes'])}


def rounded_run(c):
    import decimal
    import votelib.convert as conv
    d, m = c['decimals'], c.get('method')
    keys = rounded_profile(c)
    rv = conv.RoundedVotes(d) if m is None else conv.RoundedVotes(d, round_method=getattr(decimal, m))
    if c.get('chain'):
        prof = {k: (int(q(w)) if q(w).denominator == 1 else q(w)) for k, (_, w) in zip(keys, c['votes'])}
        return conv.Chain([conv.ApprovalToSimpleVotes(split=True), rv]).convert(prof)
    prof = {k: num_py(w) for k, (_, w) in zip(keys, c['votes'])}
    return rv.convert(prof)


def rounded_why(c):
    """None, or (why, impl text, expected text)"""
    if c['decimals'] < 0:
        r = common.call_impl(lambda: rounded_run(c))
        if r[0] == 'err' and r[1] == common.E['VALUE']:
            return None
        return ('negative number of decimals must be refused with ValueError', str(r[1:]), 'ValueError')
    want = rounded_expected(c)
    r = common.call_impl(lambda: rounded_run(c))
    show = lambda dct: '{%s}' % ', '.join('%r: %s' % (k, v) for k, v in sorted(dct.items(), key=repr))
    if r[0] != 'ok':
        return ('RoundedVotes raises %s' % r[2], r[2], show(want))
    got = r[1]
    try:
        gotq = {k: Fraction(v) for k, v in got.items()}
    except Exception as e:    # noqa
        return ('rounded counts are not exact numbers: %r' % e, repr(got), show(want))
    if set(gotq) != set(want) or len(got) != len(want):
        return ('ballots lost or invented by rounding', show(gotq), show(want))
    for k in sorted(want, key=repr):
        if gotq[k] != want[k]:
            return ('count of %r rounded to %s, the exact rounding (%s, %d decimals) is %s'
                    % (k, got[k], c.get('method') or 'default ROUND_HALF_UP', c['decimals'], want[k]), show(gotq), show(want))
    return None


def rounded_nontrivial(c):
    if c['decimals'] < 0:
        return False
    if c.get('chain'):
        return True
    return any((Fraction(w[1]) * 10 ** c['decimals']).denominator != 1 for _, w in c['votes'])


def rounded_has_tie(c):
    if c['decimals'] < 0 or c.get('chain'):
        return False
    return any((Fraction(w[1]) * 10 ** c['decimals']).denominator == 2 for _, w in c['votes'])


def gen_rounded(rng, count):
    for _ in range(count):
        m = rng.randint(2, 5)
        nb = rng.randint(1, 5)
        names = rng.choice(['short', 'long'])
        method = rng.choice([None, 'ROUND_HALF_UP', 'ROUND_HALF_DOWN'] + ROUND_METHODS)
        if rng.random() < 0.02:
            yield dict(unit='rounded', ktype='p', decimals=-rng.randint(1, 3), method=method, votes=[[1, ['int', '1']]], names=names)
            continue
        d = rng.choice([0, 0, 1, 2, 2, 3, 4, 4, 5, 6])
        if rng.random() < 0.15:
            votes = [[b, rng.choice([1, 2, 3, 5, 7, 9, 10, 25, 10 ** 6 + 1])] for b, _ in approval_profile(rng, m, nb)]
            yield dict(unit='rounded', ktype='a', decimals=d, method=method, votes=votes, names=names, chain='approval_split')
            continue
        t = rng.choice(['p', 'p', 'r', 'a', 's'])
        if t == 'r':
            bal = [b for b, _ in ranked_profile(rng, m, nb)]
        elif t == 'a':
            bal = [b for b, _ in approval_profile(rng, m, nb)]
        elif t == 's':
            bal = [b for b, _ in score_profile(rng, m, nb)]
        else:
            bal = rng.sample(range(1, m + 1), rng.randint(1, m))
        yield dict(unit='rounded', ktype=t, decimals=d, method=method, votes=[[b, rounded_value(rng, d)] for b in bal], names=names)


# ---- RoundedVotes against the model (unit 210, Model/Convert2.v): code (3 mode d) = exact rounding [round_q]; code (13 via mode d) = the
# ---- computation as the library does it [round_code]: Fractions go through one division at 28 significant digits first, and quantize
# ---- refuses results of more than 28 digits (InvalidOperation).  exact_round stays as an independent declarative oracle (spec).
MODE_NUM = {None: 0, 'ROUND_HALF_UP': 0, 'ROUND_HALF_DOWN': 1, 'ROUND_HALF_EVEN': 2, 'ROUND_UP': 3, 'ROUND_DOWN': 4, 'ROUND_CEILING': 5,
            'ROUND_FLOOR': 6, 'ROUND_05UP': 7}


def key_json(kt, b):
    """JSON ballot -> JSON-able wire key, by ballot type"""
    if kt == 'r':
        return [i if isinstance(i, int) else sorted(i) for i in b]
    if kt == 'a':
        return sorted(b)
    if kt == 's':
        return [[cc, q(s_)] for cc, s_ in sorted(b)]
    return b


def rounded_code_sx(c):
    d, m = c['decimals'], MODE_NUM[c.get('method')]
    if c.get('path') == 'code':
        via = any(w[0] == 'frac' for _, w in c['votes']) if not c.get('chain') else True
        return '(13 %d %d %d)' % (1 if via else 0, m, d)
    return '(3 %d %d)' % (m, d)


def rounded_line(c):
    rc = rounded_code_sx(c)
    if c.get('chain'):
        return '%d ((11 ((1 1 1) %s)) (0 %s))' % (BLOCK['C13'], rc, sx([[sorted(b), q(w)] for b, w in c['votes']]))
    return '%d (%s (0 %s))' % (BLOCK['C13'], rc, sx([[key_json(c['ktype'], b), Fraction(w[1])] for b, w in c['votes']]))


def out_wire(out):
    """any converter output -> wire (tag payload); counts exact (a float raises FloatLeak)"""
    if isinstance(out, dict):
        vals = list(out.values())
        if vals and all(isinstance(v, dict) for v in vals):
            return '(1 (%s))' % ' '.join('(%s (%s))' % (sx(enc_key(k)), ' '.join('(%s %s)' % (sx(enc_key(kk)), sx(q(v))) for kk, v in d.items()))
                                         for k, d in out.items())
        return '(0 (%s))' % ' '.join('(%s %s)' % (sx(enc_key(k)), sx(q(v))) for k, v in out.items())
    if isinstance(out, list):
        return '(2 %s)' % sx([enc_key(k) for k in out])
    raise TypeError('converter output %r' % (out,))


def rounded_impl(c):
    _LONG[0] = c.get('names') == 'long'
    return '(0 %s)' % out_wire(rounded_run(c))


def canon2(c, wire):
    """exact comparison: same keys (also the zero-count ones), same counts; nested dictionaries per outer key; selections in order"""
    v = common.parse_sx(wire)
    if v[0] == 4:
        return ('unmodelled',)
    if v[0] != 0:
        return ('err', v[1])
    tag, payload = v[1]
    if tag in (0, 1) and payload == []:
        return ('ok', 'empty')
    if tag == 0:
        return ('ok', 0, tuple(sorted((repr(k), common.unq(x)) for k, x in payload)))
    if tag == 1:
        return ('ok', 1, tuple(sorted((repr(k), tuple(sorted((repr(kk), common.unq(x)) for kk, x in d))) for k, d in payload)))
    if tag == 2:
        return ('ok', 2, tuple(repr(k) for k in payload))
    return ('ok', tag, repr(payload))


def rounded_spec(c, io, mo):
    """the declarative oracle: every count equals its exact rational rounding, keys unchanged (inside the domain where the single
    28 digit division of the library is exact: [_fits]); refusals as documented"""
    if c['decimals'] < 0:
        return None if common.parse_sx(io) == [1, common.E['VALUE']] else 'negative number of decimals must be refused with ValueError'
    if c.get('wide'):
        # outside the exact domain model [round_code] = implementation is decided, and C13_rounded_code_outside_class on the
        # implementation: a count outside the double-rounding class is rounded exactly (or the conversion raises InvalidOperation)
        v = common.parse_sx(io)
        if v[0] != 0 or c.get('chain'):
            return None
        got = {repr(k): common.unq(x) for k, x in v[1][1]}
        for b, w in c['votes']:
            x = Fraction(w[1])
            inside = w[0] == 'frac' and dr_class_py(x, c['decimals'], c.get('method'))
            c['_dr'] = c.get('_dr', 0) + (1 if inside else 0)
            if not inside and got.get(repr(b)) != exact_round(x, c['decimals'], c.get('method')):
                c['_class'] = 'rounded-outside-class'
                return ('count %s is outside the double-rounding class (no rounding boundary between it and its 28 digit quotient) but is '
                        'rounded to %s, exact rounding %s' % (x, got.get(repr(b)), exact_round(x, c['decimals'], c.get('method'))))
        return None
    w = rounded_why(c)
    return w[0] if w else None


def rounded_stream(ctx, stream, cases):
    cases = list(cases)
    for c in cases:
        ctx.dist['rounded:%s' % (c.get('method') or 'default')] += 1
        ctx.dist['rounded:path-%s' % c.get('path', 'exact')] += 1
        if c.get('chain'):
            ctx.dist['rounded:chain'] += 1
        if c.get('wide'):
            ctx.dist['rounded:wide-%s' % c['wide']] += 1
        if rounded_has_tie(c):
            ctx.dist['rounded:exact-half'] += 1
    ctx.differential(stream, cases, rounded_line, rounded_impl, canon=canon2, nontrivial=rounded_nontrivial, spec=rounded_spec,
                     known_class=known_class)


def gen_wide(rng, count):
    """counts outside the exact domain of the library's Decimal arithmetic, decided against [round_code] only: Fractions with more than
    28 significant digits (non-terminating next to a rounding boundary, terminating with 29..40 digits exactly on / beside a half), Decimals
    of more than 28 digits (exact: no division), results that need more than 28 digits (InvalidOperation)"""
    for _ in range(count):
        d = rng.choice([0, 0, 1, 2, 4, 6])
        unit = Fraction(1, 10 ** d)
        method = rng.choice([None, 'ROUND_HALF_UP', 'ROUND_HALF_DOWN'] + ROUND_METHODS)
        shape = rng.choice(['frac-near-half', 'frac-near-half', 'frac-near-grid', 'frac-third', 'dec-long', 'overflow', 'frac-long-int'])
        k = rng.randint(0, 120)
        eps = Fraction(rng.choice([1, 1, 3, 7]), 10 ** rng.randint(27, 40)) * rng.choice([1, -1])
        tag = 'frac'
        if shape == 'frac-near-half':
            x = k * unit + unit / 2 + eps
        elif shape == 'frac-near-grid':
            x = k * unit + eps
            if x < 0:
                x = -x
        elif shape == 'frac-third':
            x = Fraction(rng.randint(1, 10 ** rng.randint(1, 30)), rng.choice([3, 7, 9, 11, 13, 10 ** 20 + 39, 3 * 10 ** 27 + 1]))
        elif shape == 'dec-long':
            x = k * unit + unit / 2 + eps
            tag = 'dec'
        elif shape == 'overflow':
            x = Fraction(10 ** rng.randint(27 - d, 29 - d)) + rng.choice([0, Fraction(1, 2), Fraction(-1, 2), Fraction(1, 3)])
            tag = rng.choice(['frac', 'dec', 'int']) if x.denominator == 1 else ('frac' if not _terminating(x) else rng.choice(['frac', 'dec']))
        else:
            x = Fraction(10 ** rng.randint(28, 33) + rng.randint(0, 10 ** 6)) / rng.choice([1, 2, 4, 5])
        if rng.random() < 0.1:
            x = -x
        if tag == 'dec':
            val = ['dec', _dec_str(x)]
        elif tag == 'int':
            val = ['int', str(x)]
        else:
            val = ['frac', str(x)]
        others = []
        for j in range(rng.randint(0, 2)):       # companions inside the exact domain, same number type
            y = Fraction(rng.randint(0, 1000), 1 if tag == 'int' else rng.choice([1, 2, 4, 8, 10]))
            others.append([j + 2, [tag, _dec_str(y) if tag == 'dec' else str(y)]])
        yield dict(unit='rounded', ktype='p', decimals=d, method=method, votes=[[1, val]] + others, names='short', path='code', wide=shape)


# ---- converter codes (unit 210): VoteTotals / MergedDistributions, ConstituencyTotals / PartyTotals, InvertedSimpleVotes, GroupVotesByParty,
# ---- IndividualToPartyResult, SelectionToDistribution, MergedSelections, ByConstituency, Chain - alone and composed with the 15 accumulating
# ---- converters and RoundedVotes.  A code is a JSON list: ['conv', kind, cfg] | ['inv'] | ['rounded', method, decimals] | ['totals'] |
# ---- ['merged_dist'] | ['const_totals'] | ['party_totals'] | ['group', mode] | ['party_result', mode] | ['sel2dist', amount] | ['merged_sel'] |
# ---- ['by', code] | ['chain', [code, ...]].  Data: {'t': 'flat' | 'nested' | 'sel' | 'nsel', 'kt': ballot type, 'votes' | 'l': ...}.
from units import BLOCK


def pm_sx(c, mode):
    out = []
    for cand, party in c.get('party', []):
        if party is not None:
            out.append([cand, party])
        elif mode == 'ignore':
            out.append([cand, 0])
    return sx(out)


def code_sx(code, c):
    t = code[0]
    if t == 'conv':
        if code[1] == 'party':
            return '(1 11 %s)' % pm_sx(c, code[2])
        return '(1 %d %s)' % (KINDS[code[1]], cfg_sx(dict(kind=code[1], cfg=code[2])))
    if t == 'inv':
        return '(2)'
    if t == 'rounded':
        return '(3 %d %d)' % (MODE_NUM[code[1]], code[2])
    if t in ('totals', 'merged_dist'):
        return '(4)'
    if t in ('const_totals', 'party_totals'):
        return '(5)'
    if t == 'group':
        return '(6 %s)' % pm_sx(c, code[1])
    if t == 'party_result':
        return '(7 %s)' % pm_sx(c, code[1])
    if t == 'sel2dist':
        return '(8 %s)' % sx(q(code[1]))
    if t == 'merged_sel':
        return '(9)'
    if t == 'by':
        return '(10 %s)' % code_sx(code[1], c)
    if t == 'chain':
        return '(11 (%s))' % ' '.join(code_sx(x, c) for x in code[1])
    raise ValueError(code)


def fvotes_sx(kt, votes):
    return sx([[key_json(kt, b), q(w)] for b, w in votes])


def data_sx(data):
    t, kt = data['t'], data.get('kt')
    if t == 'flat':
        return '(0 %s)' % fvotes_sx(kt, data['votes'])
    if t == 'nested':
        return '(1 (%s))' % ' '.join('(%d %s)' % (k, fvotes_sx(kt, v)) for k, v in data['votes'])
    if t == 'sel':
        return '(2 %s)' % sx(list(data['l']))
    return '(3 (%s))' % ' '.join('(%d %s)' % (k, sx(list(l))) for k, l in data['votes'])


def code_line(c):
    return '%d (%s %s)' % (BLOCK['C13'], code_sx(c['code'], c), data_sx(c['data']))


def build_converter(code, c):
    import decimal
    import votelib.convert as conv
    import votelib.candidate as cd
    t = code[0]
    if t == 'conv':
        if code[1] == 'party':
            return conv.IndividualToPartyVotes(cd.IndividualToPartyMapper(independents=code[2]))
        return converter(dict(kind=code[1], cfg=code[2]))
    if t == 'inv':
        return conv.InvertedSimpleVotes()
    if t == 'rounded':
        return conv.RoundedVotes(code[2]) if code[1] is None else conv.RoundedVotes(code[2], round_method=getattr(decimal, code[1]))
    if t == 'totals':
        return conv.VoteTotals()
    if t == 'merged_dist':
        return conv.MergedDistributions()
    if t == 'const_totals':
        return conv.ConstituencyTotals()
    if t == 'party_totals':
        return conv.PartyTotals()
    if t == 'group':
        return conv.GroupVotesByParty(cd.IndividualToPartyMapper(independents=code[1]))
    if t == 'party_result':
        return conv.IndividualToPartyResult(cd.IndividualToPartyMapper(independents=code[1]))
    if t == 'sel2dist':
        a = q(code[1])
        return conv.SelectionToDistribution(int(a) if a.denominator == 1 else a)
    if t == 'merged_sel':
        return conv.MergedSelections()
    if t == 'by':
        return conv.ByConstituency(build_converter(code[1], c))
    if t == 'chain':
        return conv.Chain([build_converter(x, c) for x in code[1]])
    raise ValueError(code)


def py_key(kt, b, objs):
    if kt == 'r':
        return tuple(cname(i) if isinstance(i, int) else frozenset(cname(x) for x in i) for i in b)
    if kt == 'a':
        return frozenset(cname(x) for x in b)
    if kt == 's':
        return frozenset((cname(cc), int(q(s_)) if q(s_).denominator == 1 else q(s_)) for cc, s_ in b)
    if kt == 'P':
        return objs[b]
    return cname(b)


def py_data(data, c):
    pm = dict((a, b) for a, b in c.get('party', []))
    objs = {cc: _P(cname(cc), None if pm.get(cc) is None else ('party%d' % pm[cc])) for cc in pm}
    wt = lambda w: int(q(w)) if q(w).denominator == 1 else q(w)
    t, kt = data['t'], data.get('kt')
    fv = lambda votes: {py_key(kt, b, objs): wt(w) for b, w in votes}
    if t == 'flat':
        return fv(data['votes'])
    if t == 'nested':
        d = {'district%d' % k: fv(v) for k, v in data['votes']}
        return list(d.values()) if data.get('aslist') else d
    if t == 'sel':
        return [py_key(kt, b, objs) for b in data['l']]
    d = {'district%d' % k: [py_key(kt, b, objs) for b in l] for k, l in data['votes']}
    return list(d.values()) if data.get('aslist') else d


def run_code_impl(c, data=None):
    _LONG[0] = c.get('names') == 'long'
    return build_converter(c['code'], c).convert(py_data(c['data'] if data is None else data, c))


def code_impl(c):
    out = run_code_impl(c)
    return '(0 %s)' % out_wire(out)


def code_names(code):
    t = code[0]
    if t == 'by':
        return ['by'] + code_names(code[1])
    if t == 'chain':
        return ['chain'] + [n for x in code[1] for n in code_names(x)]
    return [t + (':' + code[1] if t == 'conv' else '')]


LINEAR = {'inv', 'group', 'totals', 'merged_dist', 'const_totals', 'party_totals', 'conv:approval_simple', 'conv:first_pref', 'conv:first_n',
          'conv:presence', 'conv:ranked_approval', 'conv:score_approval', 'conv:party', 'chain', 'by'}


def flat_dict(wire):
    """wire of a flat / nested result -> {repr key: Fraction} ({(outer, inner): ..} for nested), None for anything else"""
    v = common.parse_sx(wire)
    if v[0] != 0:
        return None
    tag, payload = v[1]
    if tag == 0:
        return {repr(k): common.unq(x) for k, x in payload}
    if tag == 1:
        return {(repr(k), repr(kk)): common.unq(x) for k, d in payload for kk, x in d}
    return None


def code_expected(c):
    """independent declarative image of the converters that are not folds (plain Python over the JSON case); None = no expectation"""
    code, data = c['code'], c['data']
    t = code[0]
    rk = lambda kt, b: repr(common.parse_sx(sx(key_json(kt, b))) if not isinstance(b, int) else b)
    if t in ('totals', 'merged_dist') and data['t'] == 'nested':
        out = {}
        for _, v in data['votes']:
            for b, w in v:
                out[rk(data['kt'], b)] = out.get(rk(data['kt'], b), 0) + q(w)
        return out
    if t in ('const_totals', 'party_totals') and data['t'] == 'nested':
        return {repr(k): sum((q(w) for _, w in v), Fraction(0)) for k, v in data['votes']}
    if t == 'inv' and data['t'] == 'flat':
        return {rk(data['kt'], b): -q(w) for b, w in data['votes']}
    pm = dict((a, b) for a, b in c.get('party', []))
    pkey = lambda cand, mode: ('skip' if mode == 'ignore' else repr([])) if pm.get(cand) is None else repr(pm[cand])
    if t == 'group' and data['t'] == 'flat':
        return {(pkey(b, code[1]), repr(b)): q(w) for b, w in data['votes'] if pkey(b, code[1]) != 'skip'}
    if t == 'party_result' and data['t'] == 'sel':
        out = {}
        for b in data['l']:
            if pkey(b, code[1]) != 'skip':
                out[pkey(b, code[1])] = out.get(pkey(b, code[1]), 0) + 1
        return out
    if t == 'sel2dist' and data['t'] == 'sel':
        return {repr(b): q(code[1]) for b in data['l']}
    return None


def split_data(data, mask):
    if data['t'] == 'flat':
        items = data['votes']
    elif data['t'] == 'nested':
        items = data['votes']
    else:
        return None
    a = [v for v, m in zip(items, mask) if m]
    b = [v for v, m in zip(items, mask) if not m]
    if not a or not b:
        return None
    return dict(data, votes=a), dict(data, votes=b)


def code_spec(c, io, mo):
    """the clauses of the property on the implementation's own outputs: documented image, additivity over every sampled split of the
    profile (ballots of a flat profile, constituencies of a nested one) for compositions of additive converters, total weight"""
    if common.parse_sx(io)[0] != 0:
        c['_class'] = 'crash:' + '+'.join(code_names(c['code']))
        if common.parse_sx(io) == [1, common.E['ZERODIV']] and 'conv:approval_simple' in code_names(c['code']):
            c['_class'] = 'split-empty'
            return 'ApprovalToSimpleVotes(split=True) raises %s on an empty approval ballot' % c.get('_exc', 'ZeroDivisionError')
        if common.parse_sx(mo)[0] in (1, 4):
            return None
        return 'converter raises %s' % c.get('_exc', '?')
    got = flat_dict(io)
    want = code_expected(c)
    if want is not None and got != want:
        return 'documented image differs: got %s, expected %s' % (got, want)
    names = code_names(c['code'])
    if c['code'] == ['merged_sel'] and c['data']['t'] == 'nsel':
        w = merged_sel_why([l for _, l in c['data']['votes']], common.parse_sx(io)[1][1])
        if w:
            c['_class'] = 'merged-selections'
            return w
    w = code_reuse_why(c, io)
    if w:
        return w
    dep = [n for n in names if n.startswith('conv:') and n[5:] in PROFILE_DEP]
    if got is None or not all(n in LINEAR or n.startswith('conv:') for n in names) or (dep and code_links(c['code']) is None):
        return None
    for mask in (c.get('_splits') or [])[:(6 if dep else 16)]:
        ab = split_data(c['data'], mask)
        if ab is None:
            continue
        # C13_chain_additive_same_cands: links that read the candidate set off the profile are additive on sub-profiles that are, link
        # by link, over the same candidates
        if dep and py_same_cands(c, ab[0], ab[1]) is not True:
            continue
        if dep:
            c['_dep_additivity'] = c.get('_dep_additivity', 0) + 1
        try:
            da = flat_dict('(0 %s)' % out_wire(run_code_impl(c, ab[0])))
            db = flat_dict('(0 %s)' % out_wire(run_code_impl(c, ab[1])))
        except Exception:    # noqa
            continue
        if da is None or db is None:
            continue
        for k in set(da) | set(db) | set(got):
            if da.get(k, 0) + db.get(k, 0) != got.get(k, 0):
                c['_class'] = 'additivity:' + '+'.join(names)
                return 'conv(A+B) != conv(A)+conv(B) at key %s (A=%s)' % (k, ab[0]['votes'])
    if names[-1] in ('totals', 'merged_dist', 'const_totals', 'party_totals') and c['data']['t'] == 'nested' and len(names) == 1:
        total_in = sum((q(w) for _, v in c['data']['votes'] for _, w in v), Fraction(0))
        if sum(got.values(), Fraction(0)) != total_in:
            return 'total weight %s -> %s' % (total_in, sum(got.values()))
    return None


def code_nontrivial(c):
    d = c['data']
    if d['t'] == 'nested':
        return len(d['votes']) > 1
    if d['t'] == 'flat':
        return len(d['votes']) > 1 or len(code_names(c['code'])) > 1
    return True


def _count(rng, fractions=True, big=True):
    r = rng.random()
    if r < 0.1:
        return 0
    if fractions and r < 0.3:
        return str(Fraction(rng.randint(1, 40), rng.choice([2, 3, 4, 7, 10])))
    return rng.choice([1, 2, 3, 5, 7, 10, 250, 10 ** 20 if big else 10 ** 6])


def typed_votes(rng, kt, m, nb, shared=0.25, fractions=True, big=True):
    cnt = lambda: _count(rng, fractions, big)
    if kt == 'r':
        return [[b, cnt()] for b, _ in ranked_profile(rng, m, nb, shared)]
    if kt == 'a':
        return [[b, cnt()] for b, _ in approval_profile(rng, m, nb)] + ([[[], cnt()]] if rng.random() < 0.1 else [])     # blank ballot
    if kt == 's':
        return [[b, cnt()] for b, _ in score_profile(rng, m, nb)]
    return [[cc, cnt()] for cc in rng.sample(range(1, m + 1), rng.randint(1, m))]


def gen_totals(rng, count):
    for _ in range(count):
        m = rng.randint(2, 5)
        names = rng.choice(['short', 'long'])
        party = [[cc, rng.choice([1, 2, 3, None])] for cc in range(1, m + 1)]
        mode = rng.choice(['aggregate', 'aggregate', 'ignore'])
        shape = rng.choice(['nested', 'nested', 'nested', 'flat', 'persons', 'persons', 'sel', 'nsel'])
        c = dict(unit='code', names=names)
        if shape == 'nested':
            kt = rng.choice(['p', 'p', 'p', 'r', 'a', 's'])
            nd = rng.randint(1, 4)
            votes = [[k, typed_votes(rng, kt, m, rng.randint(0, 4)) if rng.random() > 0.08 else []] for k in range(1, nd + 1)]
            data = dict(t='nested', kt=kt, votes=votes)
            inner = {'p': [['inv'], ['rounded', rng.choice([None] + ROUND_METHODS), rng.randint(0, 3)]],
                     'r': [['conv', 'first_pref', None], ['conv', 'presence', None], ['conv', 'ranked_approval', None],
                           ['conv', 'positional', rng.choice([['borda', 1], ['dowdall', 0], ['modified', 0]])], ['conv', 'condorcet', rng.random() < 0.5]],
                     'a': [['conv', 'approval_simple', rng.random() < 0.5], ['conv', 'inverted_approval', None]],
                     's': [['conv', 'score_approval', str(rng.randint(0, 5))], ['conv', 'score_ranked', None]]}[kt]
            by = ['by', rng.choice(inner)]
            code = rng.choice([['totals'], ['totals'], ['merged_dist'], ['const_totals'], ['party_totals'], by, by,
                               ['chain', [['totals'], ['inv']]], ['chain', [['totals'], ['rounded', rng.choice(ROUND_METHODS), rng.randint(0, 2)]]],
                               ['chain', [by, ['totals']]], ['chain', [by, ['const_totals']]], ['by', ['chain', [rng.choice(inner), ['inv']]]],
                               ['chain', [['chain', [by]], ['merged_dist']]]])
            if code[0] == 'merged_dist' and rng.random() < 0.5:
                data['aslist'] = True
            if 'rounded' in code_names(code):        # Decimal counts do not mix with Fractions downstream: rounding last, or before inv
                if code[0] == 'chain' and code[1][0][0] == 'by' and code[1][0][1][0] == 'rounded':
                    code = by
            c.update(code=code, data=data, _splits=splits_for(rng, len(votes)),
                     _warm_data=[dict(t='nested', kt=kt, votes=[[k, typed_votes(rng, kt, m + 2, rng.randint(1, 3))] for k in range(1, 3)])]
                     if rng.random() < 0.5 else [])
        elif shape == 'flat':
            kt = rng.choice(['p', 'p', 'r', 'a'])
            votes = typed_votes(rng, kt, m, rng.randint(1, 5))
            code = rng.choice([['inv'], ['inv'], ['chain', [['inv'], ['inv']]], ['chain', []], ['chain', [['inv'], ['rounded', None, 1]]],
                               ['chain', [['rounded', 'ROUND_HALF_EVEN', 0], ['inv']]]])
            c.update(code=code, data=dict(t='flat', kt=kt, votes=votes), _splits=splits_for(rng, len(votes)))
        elif shape == 'persons':
            votes = [[cc, _count(rng)] for cc in rng.sample(range(1, m + 1), rng.randint(1, m))]
            code = rng.choice([['group', mode], ['group', mode], ['conv', 'party', mode], ['chain', [['group', mode], ['party_totals']]],
                               ['chain', [['group', mode], ['totals']]], ['chain', [['group', mode], ['by', ['inv']], ['const_totals']]],
                               ['chain', [['conv', 'party', mode], ['inv']]]])
            c.update(code=code, data=dict(t='flat', kt='P', votes=votes), party=party, _splits=splits_for(rng, len(votes)))
        elif shape == 'sel':
            l = [rng.randint(1, m) for _ in range(rng.randint(0, 5))] if rng.random() < 0.3 else rng.sample(range(1, m + 1), rng.randint(0, m))
            if rng.random() < 0.5:
                c.update(code=['party_result', mode], data=dict(t='sel', kt='P', l=l), party=party)
            else:
                c.update(code=['sel2dist', rng.choice([1, 1, 2, '1/2'])], data=dict(t='sel', kt='p', l=l))
        else:
            nd = rng.randint(1, 4)
            votes = [[k, rng.sample(range(1, m + 1), rng.randint(0, m)) if rng.random() < 0.85
                      else [rng.randint(1, m) for _ in range(rng.randint(1, 5))]] for k in range(1, nd + 1)]     # a candidate listed twice
            data = dict(t='nsel', kt='p', votes=votes)
            code = rng.choice([['merged_sel'], ['merged_sel'], ['by', ['sel2dist', 1]], ['chain', [['by', ['sel2dist', rng.choice([1, 2])]], ['merged_dist']]],
                               ['chain', [['by', ['sel2dist', 1]], ['const_totals']]]])
            if code[0] == 'merged_sel' and rng.random() < 0.5:
                data['aslist'] = True
            c.update(code=code, data=data)
        yield c


# chain links by ballot type: (code, type of the result); 'k' = keys no later converter reads (pairs, parties, shared first ranks)
def chain_link(rng, kt, shared):
    rounded = ['rounded', rng.choice([None] + ROUND_METHODS), rng.randint(0, 4)]
    if kt == 'r':
        return rng.choice([(['conv', 'first_pref', None], 'k' if shared else 'p'), (['conv', 'first_n', rng.randint(1, 3)], 'a'),
                           (['conv', 'presence', None], 'p'), (['conv', 'ranked_approval', None], 'a'),
                           (['conv', 'positional', rng.choice([['borda', 1], ['borda', 0], ['dowdall', 0], ['geometric', 2], ['modified', 0],
                                                              ['fixedtop', 2], ['sequence', ['5', '3', '1']]])], 'p'),
                           (['conv', 'condorcet', rng.random() < 0.5], 'k'), (['inv'], 'r'), (rounded, 'end')])
    if kt == 'a':
        return rng.choice([(['conv', 'approval_simple', True], 'p'), (['conv', 'approval_simple', False], 'p'),
                           (['conv', 'inverted_approval', None], 'a'), (['inv'], 'a'), (rounded, 'end')])
    if kt == 's':
        return rng.choice([(['conv', 'score_ranked', rng.choice([None, None, '0', '2'])], 'r'), (['conv', 'score_approval', str(rng.randint(0, 5))], 'a'),
                           (['inv'], 's'), (rounded, 'end')])
    if kt == 'end':
        return rng.choice([(['inv'], 'end'), (rounded, 'end')])
    return rng.choice([(['inv'], kt), (['inv'], kt), (rounded, 'end')])


def gen_chain(rng, count):
    for _ in range(count):
        m = rng.randint(2, 5)
        kt0 = rng.choice(['r', 'r', 'a', 's', 's', 'p'])
        shared = rng.choice([0, 0.25])
        votes = typed_votes(rng, kt0, m, rng.randint(1, 5), shared, fractions=rng.random() < 0.5, big=False)
        links, kt = [], kt0
        for _ in range(rng.choice([1, 2, 2, 3, 3, 4])):
            code, kt = chain_link(rng, kt, shared > 0)
            links.append(code)
        if len(links) >= 3 and rng.random() < 0.3:
            links = [links[0], ['chain', links[1:]]]
        code = ['chain', links] if rng.random() < 0.85 or len(links) > 1 else links[0]
        # other profiles of the same type (over more candidates) the same converter object converts first in the reuse clause
        warm = [dict(t='flat', kt=kt0, votes=typed_votes(rng, kt0, m + rng.randint(0, 3), rng.randint(1, 3), shared, fractions=False, big=False))
                for _w in range(rng.randint(0, 2))]
        yield dict(unit='code', names=rng.choice(['short', 'long']), code=code, data=dict(t='flat', kt=kt0, votes=votes),
                   _splits=splits_for(rng, len(votes)), _warm_data=warm)


def code_stream(ctx, stream, cases):
    cases = list(cases)
    for c in cases:
        for n in set(code_names(c['code'])):
            ctx.dist['code:' + n] += 1
    ctx.differential(stream, cases, code_line, code_impl, canon=canon2, nontrivial=code_nontrivial, spec=code_spec, known_class=known_class)


# ===========================================================================================================================
# wave 5: the converter clauses that had no theorem until then
# ===========================================================================================================================

# ---- MergedSelections: the defining clause recomputed on the implementation's own output (C13_merged_sel_members / _sorted / _stable)
def merged_sel_why(lists, got):
    allc = [x for l in lists for x in l]
    firsts = list(dict.fromkeys(allc))
    if len(set(map(repr, got))) != len(got) or sorted(map(repr, got)) != sorted(map(repr, firsts)):
        return 'MergedSelections loses or doubles a candidate: %s from %s' % (got, lists)
    app = {c: sum(l.count(c) for l in lists) for c in firsts}
    rs = {c: sum(len(l) - 1 - i for l in lists for i, x in enumerate(l) if x == c) for c in firsts}
    for x, y in zip(got, got[1:]):
        kx, ky = (app[x], rs[x]), (app[y], rs[y])
        if kx < ky:
            return ('MergedSelections: %s (appearances, sum of reversed ranks %s) is listed before %s %s' % (x, kx, y, ky))
        if kx == ky and firsts.index(x) > firsts.index(y):
            return 'MergedSelections: %s and %s are level %s but not in order of first appearance' % (x, y, kx)
    return None


# ---- Chain additivity under the candidate-set side condition (Model/Convert2.v same_cands, unit 212)
def code_links(code):
    """the links of a Chain of accumulating converters / InvertedSimpleVotes (Model/Convert2.v links_of); None for anything else"""
    t = code[0]
    if t in ('conv', 'inv'):
        return [code]
    if t == 'chain':
        out = []
        for x in code[1]:
            l = code_links(x)
            if l is None:
                return None
            out += l
        return out
    return None


def profile_cands(kind, prof):
    """what a profile-dependent converter reads off the profile it is handed besides the ballots: the candidates its keys name"""
    out = set()
    for key in prof:
        if kind in ('positional', 'condorcet'):
            for item in key:
                out.update(item if isinstance(item, frozenset) else [item])
        elif kind == 'score_ranked':
            out.update(cand for cand, _ in key)
        else:
            out.update(key)
    return out


def py_same_cands(c, da, db):
    """same_cands on the implementation's own intermediate profiles: True / False; None when a link raises"""
    links = code_links(c['code'])
    if links is None:
        return False
    _LONG[0] = c.get('names') == 'long'
    try:
        pa, pb = py_data(da, c), py_data(db, c)
        for l in links:
            if l[0] == 'conv' and l[1] in PROFILE_DEP and profile_cands(l[1], pa) != profile_cands(l[1], pb):
                return False
            k = build_converter(l, c)
            pa, pb = k.convert(pa), k.convert(pb)
    except Exception:    # noqa
        return None
    return True


def same_cands_line(c):
    kt = c['data']['kt']
    return '%d (%s %s %s)' % (BLOCK['C13'] + 2, code_sx(c['code'], c), fvotes_sx(kt, c['a']), fvotes_sx(kt, c['b']))


def same_cands_impl(c):
    r = py_same_cands(c, dict(c['data'], votes=c['a']), dict(c['data'], votes=c['b']))
    return '(0 %d)' % (1 if r else 0)


def canon_plain(c, wire):
    v = common.parse_sx(wire)
    if v[0] == 4:
        return ('unmodelled',)
    return repr(v)


def same_cands_spec(c, io, mo):
    """the theorem on the implementation: side condition true => conv(A + B) == conv(A) + conv(B), keys and counts"""
    if common.parse_sx(io) != [0, 1]:
        return None
    ab = merge(c['a'], c['b'])
    try:
        da = flat_dict('(0 %s)' % out_wire(run_code_impl(c, dict(c['data'], votes=c['a']))))
        db = flat_dict('(0 %s)' % out_wire(run_code_impl(c, dict(c['data'], votes=c['b']))))
        dab = flat_dict('(0 %s)' % out_wire(run_code_impl(c, dict(c['data'], votes=ab))))
    except Exception:    # noqa
        return None
    if da is None or db is None or dab is None:
        return None
    if set(dab) != set(da) | set(db):
        c['_class'] = 'additivity-keys'
        return 'same candidates at every link, but the keys of conv(A+B) are not those of conv(A) and conv(B): %s' % sorted(set(dab) ^ (set(da) | set(db)))
    for k in dab:
        if da.get(k, 0) + db.get(k, 0) != dab[k]:
            c['_class'] = 'additivity-same-cands'
            return 'same candidates at every link, but conv(A+B) != conv(A)+conv(B) at key %s' % k
    return None


def gen_same_cands(rng, count):
    """two sub-profiles for a Chain: the two halves of one profile, or two overlapping profiles (equal ballots pool their counts)"""
    n = 0
    for c in gen_chain(rng, count * 3):
        if n >= count:
            return
        if code_links(c['code']) is None or any(x[0] == 'rounded' for x in code_links(c['code'])):
            continue
        votes = c['data']['votes']
        kt = c['data']['kt']
        if rng.random() < 0.6 and len(votes) >= 2:
            mask = [rng.random() < 0.5 for _ in votes]
            a = [v for v, m in zip(votes, mask) if m] or votes[:1]
            b = [v for v, m in zip(votes, mask) if not m] or votes[-1:]
        else:
            a = votes
            m = 1 + max([0] + [x for bal, _ in votes for x in _flat_ints(bal)])
            b = typed_votes(rng, kt, max(2, min(m - 1, 5)), rng.randint(1, 4), fractions=False, big=False)
            if rng.random() < 0.5:
                b = b + [[bal, rng.randint(1, 3)] for bal, _ in votes if repr(bal) not in {repr(x) for x, _ in b}]
        n += 1
        yield dict(unit='same_cands', names=c['names'], code=c['code'], data=dict(t='flat', kt=kt, votes=[]), a=a, b=b)


def _flat_ints(o):
    if isinstance(o, int):
        return [o]
    if isinstance(o, (list, tuple)):
        return [x for y in o for x in _flat_ints(y) if not isinstance(y, str)]
    return []


def same_cands_stream(ctx, stream, cases):
    cases = list(cases)
    ctx.differential(stream, cases, same_cands_line, same_cands_impl, canon=canon_plain, nontrivial=lambda c: True, spec=same_cands_spec)
    for c in cases:
        dep = any(l[0] == 'conv' and l[1] in PROFILE_DEP for l in code_links(c['code']) or [])
        ctx.dist['same-cands:%s' % ('dependent-link' if dep else 'independent-links')] += 1


# ---- reuse of one converter object for the codes of unit 210 (C13_reuse_stateless, C13_reuse_positional)
def code_reuse_why(c, io):
    warm = c.get('_warm_data')
    if not warm or common.parse_sx(io)[0] != 0:
        return None
    _LONG[0] = c.get('names') == 'long'
    obj = build_converter(c['code'], c)
    for w in warm:
        try:
            obj.convert(py_data(w, c))
        except Exception:    # noqa
            pass
    try:
        again = '(0 %s)' % out_wire(obj.convert(py_data(c['data'], c)))
    except Exception as e:    # noqa
        again = 'raises %s' % type(e).__name__
    if canon2(c, again) != canon2(c, io):
        c['_class'] = 'reuse:' + '+'.join(code_names(c['code']))
        return 'a converter that converted other profiles before answers %s, a fresh one %s' % (again[:300], io[:300])
    return None


# ---- ScoreToSimpleVotes (Model/Cardinal.v score_to_simple, unit 27): sum = per-ballot exact and additive; mean / median = the exact
# ---- statements C13_score_mean_value / C13_score_median_value; corrections (unscored_value, min_count, truncation) compared only
def ss_cfg_sx(cf):
    un = {'none': '()', 'min': '1'}.get(cf['unscored'], None)
    if un is None:
        un = '(%s)' % sx(q(cf['unscored']))
    return '(%d %s %d %s %s)' % ({'mean': 0, 'sum': 1, 'median_low': 2}[cf['fn']], un, cf['min_count'], sx(q(cf['trunc'])), sx(q(cf['bottom'])))


def ss_line(c):
    # wave 6: the flagged unit of Units_C12.v (BLOCK C12 + 5, score_to_simple_x) - the repairs the library under test carries
    # (truncation stops at the middle, counted aggregates; probed by props/c12.py) are part of the model's argument
    import props.c12 as c12
    return '%d (%s %s %s)' % (BLOCK['C12'] + 5, c12.REPAIRS(c), ss_cfg_sx(c['cfg']),
                              sx([[[[cc, q(s_)] for cc, s_ in sorted(b)], w] for b, w in c['votes']]))


def ss_run(c, votes=None):
    import votelib.convert as conv
    _LONG[0] = c.get('names') == 'long'
    cf = c['cfg']
    num = lambda x: int(q(x)) if q(x).denominator == 1 else q(x)
    un = None if cf['unscored'] == 'none' else 'min' if cf['unscored'] == 'min' else num(cf['unscored'])
    obj = conv.ScoreToSimpleVotes(function=cf['fn'], unscored_value=un, min_count=cf['min_count'], truncation=num(cf['trunc']),
                                  bottom_value=num(cf['bottom']))
    prof = {frozenset((cname(cc), num(s_)) for cc, s_ in b): w for b, w in (c['votes'] if votes is None else votes)}
    return {cnum(k): q(v) for k, v in obj.convert(prof).items()}


def ss_impl(c):
    return '(0 (%s))' % ' '.join('(%d %s)' % (k, sx(v)) for k, v in ss_run(c).items())


def ss_canon(c, wire):
    v = common.parse_sx(wire)
    if v[0] != 0:
        return ('err', v[1])
    return ('ok', tuple(sorted((k, common.unq(x)) for k, x in v[1])))


def ss_plain(cf):
    return cf['unscored'] == 'none' and cf['min_count'] <= 0 and q(cf['trunc']) <= 0


def ss_spec(c, io, mo):
    v = common.parse_sx(io)
    cf, votes = c['cfg'], c['votes']
    if v[0] == 0 and cf['fn'] == 'sum' and cf['unscored'] not in ('none', 'min') and cf['min_count'] <= 0 and q(cf['trunc']) <= 0:
        # C13_score_sum_unscored_value / _additive: a constant unscored_value is given by every ballot to each candidate of the profile it
        # does not score; additive on the candidates both sub-profiles score
        got = {k: common.unq(x) for k, x in v[1]}
        u = q(cf['unscored'])
        n_all = sum(w for _, w in votes)
        for cc in got:
            want = sum(w * dict((a, q(b_)) for a, b_ in b).get(cc, u) for b, w in votes)
            if got[cc] != want:
                c['_class'] = 'score-sum-unscored'
                return 'sum aggregate (unscored_value %s) of candidate %d is %s, the ballots give %s' % (u, cc, got[cc], want)
        for mask in c.get('_splits') or []:
            a = [x for x, m in zip(votes, mask) if m]
            b = [x for x, m in zip(votes, mask) if not m]
            if not a or not b:
                continue
            da, db = ss_run(c, a), ss_run(c, b)
            for k in set(da) & set(db):
                if da[k] + db[k] != got.get(k, 0):
                    c['_class'] = 'additivity:score-sum-unscored'
                    return 'ScoreToSimpleVotes(sum, unscored_value): conv(A+B) != conv(A)+conv(B) at candidate %s scored in A and in B (A=%s)' % (k, a)
        return None
    if v[0] != 0 or not ss_plain(cf):
        return None
    got = {k: common.unq(x) for k, x in v[1]}
    given = {}
    for b, w in votes:
        for cc, s_ in b:
            given.setdefault(cc, []).extend([q(s_)] * w)
    if set(got) != set(given):
        return 'candidates of the aggregate %s are not the candidates scored on some ballot %s' % (sorted(got), sorted(given))
    for cc, sc in given.items():
        x = got[cc]
        if cf['fn'] == 'sum' and x != sum(sc):
            c['_class'] = 'score-sum'
            return 'sum aggregate of candidate %d is %s, the ballots give %s' % (cc, x, sum(sc))
        if cf['fn'] == 'mean' and (not sc or x * len(sc) != sum(sc)):
            c['_class'] = 'score-mean'
            return 'mean aggregate of candidate %d is %s: sum of scores %s over %d scores' % (cc, x, sum(sc), len(sc))
        if cf['fn'] == 'median_low' and not (2 * sum(1 for y in sc if y < x) < len(sc) <= 2 * sum(1 for y in sc if y <= x)):
            c['_class'] = 'score-median'
            return 'median_low aggregate of candidate %d is %s, scores %s' % (cc, x, sorted(sc))
    if cf['fn'] == 'sum':
        for mask in c.get('_splits') or []:
            a = [x for x, m in zip(votes, mask) if m]
            b = [x for x, m in zip(votes, mask) if not m]
            if not a or not b:
                continue
            da, db = ss_run(c, a), ss_run(c, b)
            for k in set(da) | set(db) | set(got):
                if da.get(k, 0) + db.get(k, 0) != got.get(k, 0):
                    c['_class'] = 'additivity:score-sum'
                    return 'ScoreToSimpleVotes(sum): conv(A+B) != conv(A)+conv(B) at candidate %s (A=%s)' % (k, a)
    return None


def gen_score_simple(rng, count):
    for _ in range(count):
        m = rng.randint(1, 5)
        votes = [[b, rng.choice([0, 1, 1, 2, 3, 7, 40])] for b, _ in score_profile(rng, m, rng.randint(1, 6))]
        fn = rng.choice(['sum', 'sum', 'mean', 'median_low'])
        r = rng.random()
        if r < 0.6:
            cf = dict(fn=fn, unscored='none', min_count=0, trunc='0', bottom='0')
        elif r < 0.75:        # the profile-dependent image: a constant for the candidates a ballot does not score
            cf = dict(fn='sum', unscored=rng.choice(['0', '1', '2', '-1', '1/2']), min_count=0, trunc='0', bottom='0')
        else:
            cf = dict(fn=fn, unscored=rng.choice(['none', 'min', '0', '2']), min_count=rng.choice([0, 0, 2, 5]),
                      trunc=rng.choice(['0', '0', '1', '2', '1/4', '1/10']), bottom=rng.choice(['0', '-1']))
        yield dict(unit='score_simple', cfg=cf, votes=votes, names=rng.choice(['short', 'long']), _splits=splits_for(rng, len(votes)))


def score_simple_stream(ctx, stream, cases):
    cases = list(cases)
    for c in cases:
        ctx.dist['score-simple:%s%s' % (c['cfg']['fn'], '' if ss_plain(c['cfg']) else '-unscored-constant' if (c['cfg']['fn'] == 'sum' and c['cfg']['unscored'] not in ('none', 'min') and c['cfg']['min_count'] <= 0 and q(c['cfg']['trunc']) <= 0) else '-corrected')] += 1
    ctx.differential(stream, cases, ss_line, ss_impl, canon=ss_canon, nontrivial=lambda c: len(c['votes']) > 1, spec=ss_spec)


# ---- InvalidVoteEliminator as a converter (Model/Validate.v eliminate, unit 20; generator and wire format of C20): a filter -
# ---- every ballot judged alone, the union converts to the union (C13_eliminator_*)
def elim_run(c20, c, idxs):
    import votelib.convert as conv
    votes = {c20.pyobj(c['ballots'][i]): i + 1 for i in idxs}
    return list(conv.InvalidVoteEliminator(c20.validator_obj(c['cfg'])).convert(votes).values())


def elim_stream(ctx, stream, count):
    from props import c20

    def spec(c, io, mo):
        v = common.parse_sx(io)
        n = len(c['ballots'])
        if v[0] != 0:
            return None          # CandidateError / crash of the validator: no conversion (C20's business)
        full = v[1]
        try:
            alone = [elim_run(c20, c, [i]) for i in range(n)]
            cut = c.get('_cut', n // 2)
            ra, rb = elim_run(c20, c, range(cut)), elim_run(c20, c, range(cut, n))
        except Exception as e:    # noqa
            return 'a sub-profile of a profile the eliminator converts raises %s' % type(e).__name__
        if [x for one in alone for x in one] != full:
            c['_class'] = 'eliminator-filter'
            return 'InvalidVoteEliminator: kept %s, the ballots that pass on their own %s' % (full, alone)
        if ra + rb != full:
            c['_class'] = 'additivity:eliminator'
            return 'InvalidVoteEliminator: conv(A+B) = %s, conv(A) + conv(B) = %s' % (full, ra + rb)
        return None
    cases = []
    for c in c20.gen_eliminate(ctx.rng, count):
        if len(cases) >= count:
            break
        c['_cut'] = ctx.rng.randint(0, len(c['ballots']))
        cases.append(c)
    ctx.differential(stream, cases, c20.model_line, c20.impl, canon=c20.canon, nontrivial=lambda c: len(c['ballots']) > 1, spec=spec)


# ---- the double-rounding class of RoundedVotes (Model/Convert2.v dr_class, unit 211)
def sig_round_py(x, prec=28):
    """x rounded half-even to prec significant digits, in integer arithmetic (what Decimal(n) / Decimal(d) gives at context precision prec)"""
    if x == 0:
        return Fraction(0)
    a = abs(x)
    e = len(str(a.numerator)) - len(str(a.denominator))
    if Fraction(10) ** e > a:
        e -= 1
    scale = Fraction(10) ** (prec - 1 - e)
    t = a * scale
    lo = t.numerator // t.denominator
    rem = t - lo
    if rem > Fraction(1, 2) or (rem == Fraction(1, 2) and lo % 2 == 1):
        lo += 1
    r = Fraction(lo) / scale
    return -r if x < 0 else r


def dr_class_py(x, d, method, prec=28):
    import math
    v = sig_round_py(x, prec)
    if v == x:
        return False
    lo, hi = min(x, v), max(x, v)
    jl, jh = math.ceil(lo * 2 * 10 ** d), math.floor(hi * 2 * 10 ** d)
    half = method in (None, 'ROUND_HALF_UP', 'ROUND_HALF_DOWN', 'ROUND_HALF_EVEN')
    return jl <= jh and (jl < jh or (jl % 2 == 1) == half)


def class_line(c):
    return '%d (28 %d %d %s)' % (BLOCK['C13'] + 1, MODE_NUM[c.get('method')], c['decimals'], sx(Fraction(c['x'])))


def class_impl(c):
    """(class bit, the quotient of the decimal module, RoundedVotes on the Fraction, exact rounding)"""
    import decimal
    import votelib.convert as conv
    x, d, m = Fraction(c['x']), c['decimals'], c.get('method')
    v = Fraction(decimal.Decimal(x.numerator) / decimal.Decimal(x.denominator))
    lo, hi = min(x, v), max(x, v)
    import math
    jl, jh = math.ceil(lo * 2 * 10 ** d), math.floor(hi * 2 * 10 ** d)
    half = m in (None, 'ROUND_HALF_UP', 'ROUND_HALF_DOWN', 'ROUND_HALF_EVEN')
    bit = v != x and jl <= jh and (jl < jh or (jl % 2 == 1) == half)
    rv = conv.RoundedVotes(d) if m is None else conv.RoundedVotes(d, round_method=getattr(decimal, m))
    try:
        code = '(0 %s)' % sx(Fraction(rv.convert({'A': x})['A']))
    except decimal.InvalidOperation:
        code = '(1 %d)' % common.E['OTHER']
    # the exact class of the HALF modes: a half strictly inside, or an end point IS a half and its tie goes away from the other end
    s2 = 2 * 10 ** d
    odd_int = lambda t: t.denominator == 1 and t.numerator % 2 == 1
    inside = any(j % 2 == 1 and lo * s2 < j < hi * s2 for j in range(math.floor(lo * s2), math.ceil(hi * s2) + 1))
    ebit = v != x and (inside or (odd_int(lo * s2) and exact_round(lo, d, m) < lo) or (odd_int(hi * s2) and exact_round(hi, d, m) > hi))
    return '(0 (%d %s %s %s %d))' % (1 if bit else 0, sx(v), code, sx(exact_round(x, d, m)), 1 if ebit else 0)


def class_canon(c, wire):
    v = common.parse_sx(wire)
    if v[0] != 0:
        return repr(v)
    bit, quo, code, exact, ebit = v[1]
    return (bit, common.unq(quo), ('ok', common.unq(code[1])) if code[0] == 0 else ('err', code[1]), common.unq(exact), ebit)


def class_spec(c, io, mo):
    """C13_rounded_code_outside_class and C13_rounded_half_between_refuted on the implementation"""
    v = common.parse_sx(io)
    if v[0] != 0:
        return None
    bit, quo, code, exact, ebit = class_canon(c, io)
    x, d, m = Fraction(c['x']), c['decimals'], c.get('method')
    if quo != sig_round_py(x):
        return 'Decimal(n) / Decimal(d) = %s is not the count rounded half-even to 28 significant digits (%s)' % (quo, sig_round_py(x))
    c['_in_class'] = bit
    if code[0] != 'ok':
        return None
    c['_wrong'] = code[1] != exact
    if not bit and code[1] != exact:
        c['_class'] = 'rounded-outside-class'
        return 'outside the double-rounding class, but RoundedVotes gives %s, exact rounding %s' % (code[1], exact)
    half = m in (None, 'ROUND_HALF_UP', 'ROUND_HALF_DOWN', 'ROUND_HALF_EVEN')
    if half and bool(ebit) != (code[1] != exact):
        # C13_rounded_code_half_exact: for the HALF modes the library is wrong exactly on dr_class_half
        c['_class'] = 'rounded-half-class'
        return ('HALF mode: the count is %s the exact double-rounding class, but RoundedVotes gives %s, exact rounding %s'
                % ('inside' if ebit else 'outside', code[1], exact))
    if half and quo != x:
        import math
        lo, hi = min(x, quo), max(x, quo)
        strictly = any(j % 2 == 1 and lo * 2 * 10 ** d < j < hi * 2 * 10 ** d
                       for j in range(math.ceil(lo * 2 * 10 ** d), math.floor(hi * 2 * 10 ** d) + 1))
        if strictly and code[1] == exact:
            return 'a half lies strictly between the count and its 28 digit quotient, yet RoundedVotes gives the exact rounding %s' % exact
    return None


def gen_class(rng, count):
    for c in gen_wide(rng, count * 2):
        if count <= 0:
            return
        w = c['votes'][0][1]
        if w[0] != 'frac':
            continue
        count -= 1
        yield dict(unit='class', decimals=c['decimals'], method=c['method'], x=w[1], shape=c['wide'])


def class_stream(ctx, stream, cases):
    cases = list(cases)
    ctx.differential(stream, cases, class_line, class_impl, canon=class_canon, nontrivial=lambda c: True, spec=class_spec)
    for c in cases:
        ctx.dist['rounded-class:%s' % ('inside' if c.get('_in_class') else 'outside')] += 1
        if c.get('_in_class') and c.get('_wrong'):
            ctx.dist['rounded-class:inside-and-wrong'] += 1


def corpus():
    import os, json, glob
    for p in sorted(glob.glob(os.path.join(common.VERIF, 'corpus', ID, '*.json'))):
        yield json.load(open(p))


def explore(ctx, widen=1):
    kw = dict(canon=canon, nontrivial=nontrivial, spec=spec, known_class=known_class)
    cp = list(corpus())
    ctx.differential('corpus', [c for c in cp if c.get('unit', 'convert') == 'convert'], model_line, impl, **kw)
    rounded_stream(ctx, 'corpus-rounded', [c for c in cp if c.get('unit') == 'rounded'])
    code_stream(ctx, 'corpus-code', [c for c in cp if c.get('unit') == 'code'])
    class_stream(ctx, 'corpus-class', [c for c in cp if c.get('unit') == 'class'])
    same_cands_stream(ctx, 'corpus-same-cands', [c for c in cp if c.get('unit') == 'same_cands'])
    score_simple_stream(ctx, 'corpus-score-simple', [c for c in cp if c.get('unit') == 'score_simple'])
    # rank scorers the translator rejected are tied by this stream alone: denser (DESIGN.md 2.1 fallback)
    ctx.differential('random', gen(ctx.rng, ctx.n(3000, 40000) * widen * (3 if 'Rankscore' in ctx.fallback else 1)), model_line, impl, **kw)
    code_stream(ctx, 'totals', gen_totals(ctx.rng, ctx.n(1200, 15000) * widen))
    code_stream(ctx, 'chain', gen_chain(ctx.rng, ctx.n(1500, 20000) * widen))

    def paths(cases):
        for c in cases:
            c['path'] = ctx.rng.choice(['exact', 'code'])
            yield c
    rounded_stream(ctx, 'rounded', paths(gen_rounded(ctx.rng, ctx.n(2500, 30000) * widen)))
    rounded_stream(ctx, 'rounded-wide', gen_wide(ctx.rng, ctx.n(600, 8000) * widen))
    class_stream(ctx, 'rounded-class', gen_class(ctx.rng, ctx.n(800, 10000) * widen))
    same_cands_stream(ctx, 'same-cands', gen_same_cands(ctx.rng, ctx.n(800, 10000) * widen))
    score_simple_stream(ctx, 'score-simple', gen_score_simple(ctx.rng, ctx.n(1500, 20000) * widen))
    elim_stream(ctx, 'eliminator', ctx.n(400, 5000) * widen)


def replay(ctx, case, stream=None):
    if case.get('unit') == 'rounded':
        return rounded_stream(ctx, 'replay', [case])
    if case.get('unit') == 'code':
        return code_stream(ctx, 'replay', [case])
    if case.get('unit') == 'class':
        return class_stream(ctx, 'replay', [case])
    if case.get('unit') == 'same_cands':
        return same_cands_stream(ctx, 'replay', [case])
    if case.get('unit') == 'score_simple':
        return score_simple_stream(ctx, 'replay', [case])
    if case.get('unit') == 'eliminate':
        from props import c20

        def one(rng, count):
            yield case
        saved, c20.gen_eliminate = c20.gen_eliminate, one
        try:
            return elim_stream(ctx, 'replay', 1)
        finally:
            c20.gen_eliminate = saved
    ctx.differential('replay', [case], model_line, impl, canon=canon, nontrivial=nontrivial, spec=spec, known_class=known_class)
