"""C10 - outcomes do not depend on ballot order, candidate names or hash seed.
Theorems (Props/C10.v): the counting characterisation of get_n_best (order-free by construction), renaming for any
function, symmetry, ballot-order freedom of every additive converter.  This check evaluates the three relations on the
IMPLEMENTATION for every deterministic evaluator configuration of harness/evalreg.py: permuted insertion order of the
vote dictionary, consistent renamings (reversed alphabetical order, long strings, Person objects), and a
PYTHONHASHSEED sweep in subprocesses; plus constructed symmetric profiles."""
import os, sys, json, subprocess
import common
from common import cname, cnum
import evalreg

ID = 'C10'
LEVEL = 'proof'
TIE = {'core.get_n_best / Plurality, convert.* additive folds': 'models shared with C09 / C13 (correspondence there)',
       'all deterministic evaluators of harness/evalreg.py (60 configurations over simple / approval / ranked / score / pairwise votes)':
           'metamorphic relations on the implementation (permutation, renaming, hash seed, symmetry)'}
RULE = ('perm: random profile, outcome under 3 random permutations of the dictionary insertion order equals the outcome of the original '
        '(elected set, seat counts, ties as sets, refusals). rename: the same profile under three injective renamings (names whose sort '
        'order is reversed, long strings with different hash behaviour, votelib Person objects) gives the renamed outcome. hashseed: a batch of '
        'cases evaluated in subprocesses under PYTHONHASHSEED in {0,1,2,3,4,12345} (thorough: 16 seeds) with short and long candidate names: '
        'identical outcomes. symmetric: profile P plus its image under a transposition (a b): a and b are both elected, both tied or both out. '
        'thorough tier: exhaustive-small-simple = EVERY simple-vote profile over <= 3 candidates with totals 0..3, every n, every permutation and the '
        'order-reversing renaming, for all simple-vote evaluators. non-trivial = the outcome contains a tie or a refusal, or the profile has > 3 candidates; distinct by case hash')
PARTIAL = ['order / renaming / hash-seed independence of the evaluators without a Gallina model here '
           '(STAR, Bucklin family, Tideman / Benham ...) are decided per explored case; allocated score: no error outcome under any iteration order of the tied sets '
           '(C10_allocated_score_crash_free), the spending order of the quotas of jointly seated level leaders is refuted (C10_allocated_score_tie_order_refuted, known finding C10-allocated-score), the rest per case; '
           'proved: order independence of get_n_best, the additive converters, highest averages, the quota family, the STV count and the Condorcet family '
           '(Schulze, the Smith set and the Schwartz set for non-negative counts, ranked pairs for pairwise distinct sort keys; ranked pairs with equal strengths refuted; the prefix routine SchwartzSet ran before the repair fixes/C06-schwartz-set refuted - fixed finding C10-schwartz-order); '
           'renaming equivariance (exact equality, f injective) of the Condorcet family, QuotaDistributor / LargestRemainder / QuotaSelector, the STV count, SPAV, the score '
           'aggregation, ScoreVoting, MajorityJudgment (C10_rename_*); PAV up to the order of equally placed winners for every iteration order of the candidate set '
           '(C10_pav_iteration_order, C10_rename_pav); PAV and SPAV return the same answer for every ballot order (C10_pav_order, C10_spav_order); the score aggregation, ScoreVoting and MajorityJudgment (both tie-breakers) are ballot-order independent up to == scores / the order inside ties (C10_score_to_simple_order, C10_score_voting_order, C10_majority_judgment_order)']
TRUSTED = ['harness/c10_worker.py (subprocess evaluation under a chosen PYTHONHASHSEED)']
SEEDS_Q = [0, 1, 2, 3, 4, 12345]
SEEDS_T = SEEDS_Q + [5, 6, 7, 8, 9, 10, 11, 99, 2024, 4294967295]


def summary(r):
    """order-insensitive summary of an outcome tuple from evalreg.outcome"""
    if r[0] != 'ok':
        return ('err', r[1])
    kind, val = r[1]
    if kind == 'sel':
        plain, ties = evalreg.level_sets(val)
        return ('sel', tuple(plain), tuple(ties), len(val))
    return ('dist', val)


def rev_name(k):
    return 'ZYXWVUTSRQPONMLK'[k - 1] if k <= 16 else 'a%03d' % (999 - k)


def rev_unname(s):
    return 'ZYXWVUTSRQPONMLK'.index(s) + 1 if len(s) == 1 else 999 - int(s[1:])


_PERSONS = {}


def person_name(k):
    import votelib.candidate as vc
    if k not in _PERSONS:
        _PERSONS[k] = vc.Person('Person %s' % cname((k * 5) % 16 + 1) + str(k))
    return _PERSONS[k]


def person_unname(p):
    for k, v in _PERSONS.items():
        if v is p or v == p:
            return k
    raise KeyError(p)


RENAMINGS = {'reversed': (rev_name, rev_unname),
             'long': (lambda k: 'candidate-%s-%d' % ('xyzw'[k % 4] * (k % 3 + 1), k * 7919), lambda s: int(s.rsplit('-', 1)[1]) // 7919),
             'person': (person_name, person_unname),
             # candidates numbered from 0: one of the labels is falsy (`if winner:` instead of `if winner is not None:` shows here)
             'ints0': (lambda k: k - 1, lambda s: s + 1)}


def distinct_strengths(pairs):
    """every ordered pair of the completed dictionary has its own count and its own non-zero margin: the ranked-pairs
    sort keys are then pairwise distinct for all three scorers (the property quantifies ranked pairs only over such profiles)"""
    import pairwise as pw
    cs = pw.cands(pairs)
    cnt = pw.cnt(pairs)
    counts = [cnt(a, b) for a in cs for b in cs if a != b]
    margins = [cnt(a, b) - cnt(b, a) for i, a in enumerate(cs) for b in cs[i + 1:]]
    return len(set(counts)) == len(counts) and 0 not in margins and len({abs(x) for x in margins}) == len(margins)


def gen_case(rng, names=None, symmetric=False):
    reg = evalreg.registry()
    while True:
        e = reg[rng.choice(names or list(reg))]
        if 'rankedpairs' in e['name'] and symmetric:
            continue        # a symmetric profile has equal majorities: outside the quantifier for ranked pairs
        break
    if 'rankedpairs' in e['name']:
        import pairwise as pw
        if e['vtype'] == 'pairwise':
            m = rng.randint(3, 5)
            ids = list(range(1, m + 1))
            for _ in range(200):
                vals = rng.sample(range(0, 90), m * (m - 1))
                prof = [[[a, b], vals.pop()] for a in ids for b in ids if a != b]
                rng.shuffle(prof)
                if distinct_strengths(prof):
                    break
        else:
            import votelib.convert as conv
            for _ in range(200):
                prof = evalreg.gen_profile(rng, 'ranked', m=rng.randint(3, 4), shared=False)
                prof = [[b, w * rng.randint(1, 9) + rng.randint(0, 3)] for b, w in prof]
                d = conv.RankedToCondorcetVotes().convert(evalreg.to_python('ranked', prof))
                pairs = [[[cnum(a), cnum(b)], n] for (a, b), n in d.items()]
                if pairs and len(pw.cands(pairs)) >= 2 and distinct_strengths(pairs):
                    break
            else:
                return gen_case(rng, [n for n in reg if 'rankedpairs' not in n], symmetric)
    else:
        prof = evalreg.gen_profile(rng, e['vtype'], shared=(e['needs'] != 'noshared'), small=(e['needs'] == 'small'))
    cands = evalreg.candidates_of(e['vtype'], prof)
    return e, prof, rng.randint(1, max(1, len(cands)))


def nontriv(ctx, case, base):
    ctx.evaluations += 1          # called once per permuted / renamed / re-seeded run: an implementation run of its own
    s = summary(base)
    if s[0] == 'err' or (s[0] == 'sel' and s[2]) or len(evalreg.candidates_of(evalreg.registry()[case['evaluator']]['vtype'], case['profile'])) > 3 \
            or (s[0] == 'dist' and any(isinstance(k, tuple) for k, _ in s[1])):
        ctx.nontrivial.add(common.case_hash(case))


def perm_checks(ctx, stream, count, rng, gen=None):
    bad = n = 0
    for _ in range(count):
        e, prof, seats = (gen or gen_case)(rng)
        base = evalreg.outcome(e, prof, seats)
        ctx.evaluations += 1
        ctx.dist['stream:' + stream] += 1
        ctx.dist['vtype:' + e['vtype']] += 1
        if base[0] == 'err' and base[1] == common.E['TIMEOUT']:
            continue
        for _k in range(3):
            order = list(range(len(prof)))
            rng.shuffle(order)
            if order == sorted(order):
                continue
            r = evalreg.outcome(e, prof, seats, order=order)
            n += 1
            case = dict(kind='perm', evaluator=e['name'], profile=prof, n=seats, order=order)
            nontriv(ctx, case, base)
            if summary(r) != summary(base):
                bad += 1
                ctx.checker_false += 1
                ctx.report(stream, case, str(r[1:]), str(base[1:]),
                           '%s: outcome depends on the insertion order of the votes: %s vs %s' % (e['name'], summary(base), summary(r)),
                           known_class=known_class)
    ctx.streams[stream] = dict(cases=n, deviations=bad)


def stv_boundary_checks(ctx, stream, count, rng):
    """ballot-order independence of the transferable-vote evaluators on the boundary profiles of C03 (exact quota hits, several
    candidates leaving in one count, shared lower ranks, shared ranks that exhaust): the places where the order in which the piles
    are processed could matter"""
    import props.c03 as c03
    reg = evalreg.registry()
    names = [n for n in reg if reg[n].get('family') == 'transferable_vote']
    bad = n = 0
    for c in c03.gen_boundary(rng, count, selector_only=True):
        e = reg[rng.choice(names)]
        prof = [[b, w] for b, w in c['votes'] if b]
        if len(prof) < 2:
            continue
        seats = min(c['n'], len(evalreg.candidates_of('ranked', prof)))
        base = evalreg.outcome(e, prof, seats)
        ctx.evaluations += 1
        ctx.dist['stream:' + stream] += 1
        if base[0] == 'err' and base[1] == common.E['TIMEOUT']:
            continue
        for _k in range(3):
            order = list(range(len(prof)))
            rng.shuffle(order)
            if order == sorted(order):
                continue
            r = evalreg.outcome(e, prof, seats, order=order)
            n += 1
            case = dict(kind='perm', evaluator=e['name'], profile=prof, n=seats, order=order)
            nontriv(ctx, case, base)
            if summary(r) != summary(base):
                bad += 1
                ctx.checker_false += 1
                ctx.report(stream, case, str(r[1:]), str(base[1:]),
                           '%s: outcome depends on the insertion order of the votes: %s vs %s' % (e['name'], summary(base), summary(r)),
                           known_class=known_class)
    ctx.streams[stream] = dict(cases=n, deviations=bad)


def rename_checks(ctx, stream, count, rng):
    bad = n = 0
    for _ in range(count):
        e, prof, seats = gen_case(rng)
        base = evalreg.outcome(e, prof, seats)
        ctx.evaluations += 1
        ctx.dist['stream:' + stream] += 1
        if base[0] == 'err' and base[1] == common.E['TIMEOUT']:
            continue
        for rn, (fwd, back) in RENAMINGS.items():
            r = evalreg.outcome(e, prof, seats, name=fwd, unname=back)
            n += 1
            case = dict(kind='rename', evaluator=e['name'], profile=prof, n=seats, renaming=rn)
            nontriv(ctx, case, base)
            if summary(r) != summary(base):
                bad += 1
                ctx.checker_false += 1
                ctx.report(stream, case, str(r[1:]), str(base[1:]),
                           '%s: outcome changes under the renaming %s: %s vs %s' % (e['name'], rn, summary(base), summary(r)),
                           known_class=known_class)
    ctx.streams[stream] = dict(cases=n, deviations=bad)


def run_worker(cases, seed):
    env = dict(os.environ, PYTHONHASHSEED=str(seed), PYTHONPATH=common.REPO, PYTHONDONTWRITEBYTECODE='1')
    p = subprocess.run([sys.executable, os.path.join(common.VERIF, 'harness', 'c10_worker.py')],
                       input='\n'.join(json.dumps(c) for c in cases) + '\n', capture_output=True, text=True, env=env, timeout=1800)
    out = [l for l in p.stdout.split('\n') if l]
    if len(out) != len(cases):
        raise RuntimeError('hash-seed worker returned %d lines for %d cases: %s' % (len(out), len(cases), p.stderr[-400:]))
    return out


def hashseed_checks(ctx, stream, count, rng, seeds):
    cases = []
    for _ in range(count):
        e, prof, seats = gen_case(rng)
        cases.append(dict(kind='hashseed', evaluator=e['name'], profile=prof, n=seats, names=rng.choice(['str', 'long'])))
    outs = {s: run_worker(cases, s) for s in seeds}
    bad = 0
    for i, c in enumerate(cases):
        ctx.evaluations += 1
        ctx.dist['stream:' + stream] += 1
        vals = {s: outs[s][i] for s in seeds}
        ctx.nontrivial.add(common.case_hash(c))
        if len(set(vals.values())) > 1:
            bad += 1
            ctx.checker_false += 1
            ctx.report(stream, dict(c, seeds=seeds), json.dumps(vals)[:600], 'n/a',
                       '%s: outcome depends on PYTHONHASHSEED: %s' % (c['evaluator'], sorted(set(vals.values()))[:3]), known_class=known_class)
    ctx.streams[stream] = dict(cases=len(cases) * len(seeds), deviations=bad)


def swap_profile(vtype, prof, a, b):
    sw = lambda c: b if c == a else a if c == b else c     # noqa
    out = []
    for key, w in prof:
        if vtype == 'simple':
            k2 = sw(key)
        elif vtype == 'approval':
            k2 = sorted(sw(c) for c in key)
        elif vtype == 'ranked':
            k2 = [sorted(sw(c) for c in it) if isinstance(it, list) else sw(it) for it in key]
        elif vtype == 'score':
            k2 = sorted([sw(c), s] for c, s in key)
        else:
            k2 = [sw(key[0]), sw(key[1])]
        out.append([k2, w])
    return out


def merge(vtype, p1, p2):
    d = {}
    for key, w in p1 + p2:
        k = json.dumps(key)
        if vtype == 'simple' or vtype == 'pairwise':
            pass
        d.setdefault(k, [key, 0])
        d[k][1] = common.jq(common.q(d[k][1]) + common.q(w))
    return list(d.values())


def symmetric_checks(ctx, stream, count, rng):
    bad = n = 0
    reg = evalreg.registry()
    for _ in range(count):
        e, prof, seats = gen_case(rng, symmetric=True)
        cands = evalreg.candidates_of(e['vtype'], prof)
        if len(cands) < 2:
            continue
        a, b = rng.sample(cands, 2)
        sym = merge(e['vtype'], prof, swap_profile(e['vtype'], prof, a, b))
        r = evalreg.outcome(e, sym, seats)
        ctx.evaluations += 1
        ctx.dist['stream:' + stream] += 1
        n += 1
        case = dict(kind='symmetric', evaluator=e['name'], profile=sym, n=seats, pair=[a, b])
        ctx.nontrivial.add(common.case_hash(case))
        if r[0] != 'ok':
            continue
        kind, val = r[1]
        if kind == 'sel':
            plain, ties = evalreg.level_sets(val)
            pa, pb = plain.count(a), plain.count(b)
            ta = [t for t in ties if a in t]
            tb = [t for t in ties if b in t]
            ok_ = (pa == pb) and all(b in t for t in ta) and all(a in t for t in tb)
        else:
            d = dict(val)
            ok_ = d.get(a, 0) == d.get(b, 0) and all((a in k) == (b in k) for k in d if isinstance(k, tuple))
        if not ok_:
            bad += 1
            ctx.checker_false += 1
            ctx.report(stream, case, str(val), 'n/a', '%s: symmetric candidates %s and %s are treated differently: %s' % (e['name'], cname(a), cname(b), val),
                       known_class=known_class)
    ctx.streams[stream] = dict(cases=n, deviations=bad)


def exhaustive_small(ctx, stream):
    """every simple-vote profile over <= 3 candidates with totals in 0..3, every n, EVERY permutation of the insertion order and
    the order-reversing renaming, for every simple-vote evaluator of the registry: complete coverage of that small domain"""
    import itertools
    reg = evalreg.registry()
    names = [n for n, e in reg.items() if e['vtype'] == 'simple']
    bad = n = 0
    for m in (1, 2, 3):
        for vals in itertools.product(range(0, 4), repeat=m):
            prof = [[i + 1, v] for i, v in enumerate(vals)]
            if sum(vals) == 0:
                continue
            for name in names:
                e = reg[name]
                for seats in range(1, m + 1):
                    base = evalreg.outcome(e, prof, seats)
                    for order in itertools.permutations(range(m)):
                        if list(order) == list(range(m)):
                            continue
                        r = evalreg.outcome(e, prof, seats, order=list(order))
                        n += 1
                        ctx.evaluations += 1
                        if summary(r) != summary(base):
                            bad += 1
                            ctx.checker_false += 1
                            ctx.report(stream, dict(kind='perm', evaluator=name, profile=prof, n=seats, order=list(order)), str(r[1:]), str(base[1:]),
                                       '%s: outcome depends on the insertion order of the votes' % name, known_class=known_class)
                    r = evalreg.outcome(e, prof, seats, name=rev_name, unname=rev_unname)
                    n += 1
                    ctx.evaluations += 1
                    if summary(r) != summary(base):
                        bad += 1
                        ctx.checker_false += 1
                        ctx.report(stream, dict(kind='rename', evaluator=name, profile=prof, n=seats, renaming='reversed'), str(r[1:]), str(base[1:]),
                                   '%s: outcome changes under the renaming reversed' % name, known_class=known_class)
    ctx.dist['stream:' + stream] += n
    ctx.streams[stream] = dict(cases=n, deviations=bad, exhaustive=True)
    ctx.exhaustive = True


def known_class(c, io, mo):
    """open findings of C10.  (C10-schwartz-order is repaired - fixes/C06-schwartz-set, status fixed: a SchwartzSet outcome
    that depends on the order / the names is a VIOLATION again; witnesses in corpus/C10/schwartz-*.json)"""
    crashed = lambda x: '"err"' in str(x) or not (str(x).startswith("(('") or str(x).startswith('{'))     # noqa
    # wave 6: the exhausted-ballots crash is repaired (fixes/C12-allocated-score-exhausted, C10_allocated_score_crash_free): a
    # crash under one presentation is a violation again.  What stays open: a round that seats several level leaders spends
    # their quotas one after the other in set-iteration order (C10_allocated_score_tie_order_refuted)
    if c.get('evaluator') == 'allocated_score' and not crashed(io) and not crashed(mo) and alloc_tie_round(c.get('profile', []), c.get('n', 1)):
        return 'C10-allocated-score'
    return None


def alloc_tie_round(profile, n):
    """allocated score (Hare quota, as registered): does the election reach a round whose greatest weighted score sum is shared
    by 2 <= t <= open seats candidates?  Up to the first such round the count does not depend on any iteration order, so this
    is a property of the profile (independent Fraction re-implementation of the repaired count)."""
    from fractions import Fraction
    cur = [[dict((cc, common.q(s)) for cc, s in b), common.q(w)] for b, w in profile]
    total = sum(w for _, w in cur)
    if n <= 0 or total <= 0:
        return False
    quota = Fraction(total) / n
    every = sorted({cc for b, _ in cur for cc in b})
    elected = []
    while len(elected) < n:
        sums = {}
        for b, w in cur:
            for cc, sc in b.items():
                sums[cc] = sums.get(cc, 0) + sc * w
        if not sums:
            sums = {cc: 0 for cc in every if cc not in elected}
            if not sums:
                return False
        top = max(sums.values())
        best = [cc for cc, x in sums.items() if x == top]
        if len(best) > 1:
            return len(best) <= n - len(elected)
        win = best[0]
        elected.append(win)
        rem = quota
        for level in sorted({b[win] for b, w in cur if win in b}, reverse=True):
            grp = [x for x in cur if win in x[0] and x[0][win] == level]
            size = sum(x[1] for x in grp)
            if size > rem:
                for x in grp:
                    x[1] *= Fraction(size - rem) / size
                break
            for x in grp:
                x[1] = Fraction(0)
            rem -= size
            if rem == 0:
                break
        cur = [[{cc: sc for cc, sc in b.items() if cc != win}, w] for b, w in cur if w > 0]
    return False


def corpus():
    import glob
    for p in sorted(glob.glob(os.path.join(common.VERIF, 'corpus', ID, '*.json'))):
        yield json.load(open(p))


def replay_case(ctx, c, stream):
    reg = evalreg.registry()
    e = reg[c['evaluator']]
    ctx.evaluations += 1
    k = c.get('kind')
    if k == 'perm':
        base, r = evalreg.outcome(e, c['profile'], c['n']), evalreg.outcome(e, c['profile'], c['n'], order=c['order'])
        if summary(base) != summary(r):
            ctx.checker_false += 1
            ctx.report(stream, c, str(r[1:]), str(base[1:]), '%s: outcome depends on the insertion order of the votes' % e['name'], known_class=known_class)
    elif k == 'rename':
        fwd, back = RENAMINGS[c['renaming']]
        base, r = evalreg.outcome(e, c['profile'], c['n']), evalreg.outcome(e, c['profile'], c['n'], name=fwd, unname=back)
        if summary(base) != summary(r):
            ctx.checker_false += 1
            ctx.report(stream, c, str(r[1:]), str(base[1:]), '%s: outcome changes under the renaming %s' % (e['name'], c['renaming']), known_class=known_class)
    elif k == 'hashseed':
        seeds = c.get('seeds', SEEDS_Q)
        cc = {kk: v for kk, v in c.items() if kk != 'seeds'}
        vals = {s: run_worker([cc], s)[0] for s in seeds}
        if len(set(vals.values())) > 1:
            ctx.checker_false += 1
            ctx.report(stream, c, json.dumps(vals)[:600], 'n/a', '%s: outcome depends on PYTHONHASHSEED' % e['name'], known_class=known_class)
    elif k == 'symmetric':
        r = evalreg.outcome(e, c['profile'], c['n'])
        a, b = c['pair']
        if r[0] == 'ok':
            kind, val = r[1]
            if kind == 'sel':
                plain, ties = evalreg.level_sets(val)
                ok_ = plain.count(a) == plain.count(b) and all(b in t for t in ties if a in t) and all(a in t for t in ties if b in t)
            else:
                d = dict(val)
                ok_ = d.get(a, 0) == d.get(b, 0) and all((a in kk) == (b in kk) for kk in d if isinstance(kk, tuple))
            if not ok_:
                ctx.checker_false += 1
                ctx.report(stream, c, str(val), 'n/a', '%s: symmetric candidates treated differently' % e['name'], known_class=known_class)


def explore(ctx, widen=1):
    rng = ctx.rng
    for c in corpus():
        replay_case(ctx, c, 'corpus')
    perm_checks(ctx, 'perm', ctx.n(2000, 30000) * widen, rng)
    stv_boundary_checks(ctx, 'stv-boundary-perm', ctx.n(500, 6000) * widen, rng)
    # path-based rules on five and six candidates (long beat paths, cycles): the order in which pairs / candidates are visited
    reg = evalreg.registry()
    path_names = [nm for nm in reg if 'schulze' in nm or 'rankedpairs' in nm or nm in ('smith', 'schwartz', 'tideman_alt', 'benham')]

    def gen_paths(r):
        e = reg[r.choice(path_names)]
        if 'rankedpairs' in e['name']:
            return gen_case(r, [e['name']])
        prof = evalreg.gen_profile(r, e['vtype'], m=r.randint(5, 6), shared=(e['needs'] != 'noshared'))
        return e, prof, r.randint(1, 3)
    perm_checks(ctx, 'perm-paths', ctx.n(900, 9000) * widen, rng, gen=gen_paths)
    rename_checks(ctx, 'rename', ctx.n(1200, 15000) * widen, rng)
    symmetric_checks(ctx, 'symmetric', ctx.n(1200, 15000) * widen, rng)
    hashseed_checks(ctx, 'hashseed', ctx.n(500, 4000) * widen, rng, SEEDS_Q if ctx.tier == 'quick' else SEEDS_T)
    if ctx.tier == 'thorough':
        exhaustive_small(ctx, 'exhaustive-small-simple')


def replay(ctx, case, stream=None):
    replay_case(ctx, case, 'replay')
