"""C02 - QuotaDistributor / LargestRemainder / quota functions."""
import itertools
from fractions import Fraction
import common
from common import sx, q, jq, cname, ok
from units import U

ID = 'C02'
ZERO_LABELS = True      # a share of the cases is asked with candidates numbered from 0 (harness/common.py LABEL_MODE)
LEVEL = 'proof'
GEN_TIES = {'Quota': 'Props/GenTie_Quota.v'}
TIE = {'component/quota.py': 'translator (Gen/Quota.v == Model/Quota.v, Props/GenTie_Quota.v) + dense grid',
       'QuotaDistributor.evaluate/_subtract_overaward': 'correspondence',
       'LargestRemainder.evaluate': 'correspondence'}
RULE = ('corpus; quota grid: votes 0..300 x seats 1..40 (+1e3 large random pairs thorough) for the 7 named quotas; '
        'random: 1..6 parties, n 1..30, 7 named quotas + constant(k), accept_equal x {error,ignore,subtract}, prev/caps maps '
        'absent|present; boundary: votes an exact multiple of the quota, Imperiali over-award, equal remainders at the cut, '
        'tiny electorates; after-tie: on_overaward=subtract with an over-award of 2..4 seats and a group of parties tied for the '
        'first withdrawal, so that _subtract_overaward goes on with a Tie key in `selected` (counted on the implementation side as '
        'reached:subtract-after-tie); caps: caps below / at / one above the whole quotas, with previous gains, below the previous gains, '
        'every party capped (open seats outnumber the parties that may take one), whole quotas above the house without a cap (counted as '
        'reached:cap-binds:<unit> when a cap cuts whole quotas); both QuotaDistributor and LargestRemainder. non-trivial = tie in result or '
        'prev/caps non-empty or over-award or a party exactly on a quota multiple; distinct by hash of the canonical case. Every '
        'implementation answer is compared with the extracted model AND judged by the declarative clauses of the property (spec: caps, '
        'whole quotas cut at the cap, at most one further seat to the largest remainders below the caps, ties at the cut, totals, the '
        'three over-award policies). Skipped and counted: non-positive quota, previous gains above the house, more than 3000 rounds '
        'of _subtract_overaward')
PARTIAL = ['LargestRemainder under-fills the house when the open seats outnumber the parties below their caps: at most one further seat per '
           'party is the documented design (known finding C02-lr-underfill; exact total proved, C02_lr_caps)',
           '_subtract_overaward: a Tie key tied with another key (a Tie of a Tie) is not modelled - proved unreachable with a positive quota '
           'for any caps (C02_subtract_policy_capped); LargestRemainder over a quota stage that returned tie keys: not modelled (cases '
           'skipped and counted)']
TRUSTED = []
QN = {1: 'hare', 2: 'hare_rounded', 3: 'droop', 4: 'hagenbach_bischoff', 5: 'hagenbach_bischoff_ceil',
      6: 'hagenbach_bischoff_rounded', 7: 'imperiali'}
POL = {0: 'ignore', 1: 'error', 2: 'subtract'}


def quota_obj(spec):
    import votelib.component.quota as vq
    if spec[0] == 0:
        return vq.constant(q(spec[1]) if q(spec[1]).denominator != 1 else int(q(spec[1])))
    return vq.get(QN[spec[0]])


def qsx(spec):
    return sx([0, q(spec[1])]) if spec[0] == 0 else sx([spec[0]])


def qval(spec, total, n):
    return q(quota_obj(spec)(total, n))


def model_line(c):
    u = U['largest_remainder'] if c['unit'] == 'largest_remainder' else U['quota_distributor']
    return '%d (%s %d %d %s %d %s %s)' % (
        u, qsx(c['quota']), 1 if c['ae'] else 0, c['pol'], sx([[k, q(v)] for k, v in c['votes']]), c['n'],
        sx([[k, v] for k, v in c['prev']]), sx([[k, v] for k, v in c['caps']]))


def enc_dist(res):
    import votelib.evaluate.core as core
    out = []
    for k, v in res.items():
        if isinstance(k, core.Tie):
            out.append([sorted(common.cnum(x) for x in k), v])
        else:
            out.append([common.cnum(k), v])
    return out


def impl(c):
    import votelib.evaluate.proportional as prop
    kw = dict(accept_equal=c['ae'], on_overaward=POL[c['pol']])
    if c['unit'] == 'largest_remainder':
        ev = prop.LargestRemainder(quota_obj(c['quota']), **kw)
    else:
        ev = prop.QuotaDistributor(quota_obj(c['quota']), **kw)
    votes = {cname(k): (int(q(v)) if q(v).denominator == 1 else q(v)) for k, v in c['votes']}
    a = {}
    if c['prev']:
        a['prev_gains'] = {cname(k): v for k, v in c['prev']}
    if c['caps']:
        a['max_seats'] = {cname(k): v for k, v in c['caps']}
    # count the runs in which _subtract_overaward goes on after a tie (a Tie object among the keys of `remainders`)
    import votelib.evaluate.core as core
    orig = core.get_n_best

    def spy(v, n_best):
        if any(isinstance(k, core.Tie) for k in v):
            c['_after_tie'] = True
        return orig(v, n_best)
    core.get_n_best = spy
    try:
        res = ev.evaluate(votes, c['n'], **a)
    finally:
        core.get_n_best = orig
    return ok(enc_dist(res))


def canon(c, wire):
    v = common.parse_sx(wire)
    if v[0] == 4:
        return ('unmodelled',)
    if v[0] != 0:
        return ('err', v[1])
    items = []
    for k, s in v[1]:
        items.append((tuple(sorted(k)) if isinstance(k, list) else k, s))
    return ('ok', tuple(sorted(items, key=repr)))


# ---- the declarative clauses of the property, computed from the input alone and judged on the implementation's answer
SUBTRACT_ROUNDS_MAX = 3000      # _subtract_overaward withdraws one seat per round: an over-award beyond this is not evaluated


def whole(c):
    total = sum(q(v) for _, v in c['votes'])
    try:
        qv = qval(c['quota'], total, c['n'])
    except ZeroDivisionError:
        return None, {}
    w = {}
    for k, v in c['votes']:
        v = q(v)
        if qv != 0 and (v > qv or (c['ae'] and v == qv)):
            w[k] = int(v / qv)
        else:
            w[k] = 0
    return qv, w


def base_seats(c):
    """per party of the votes: the seats it holds after the whole-quota stage, previous gains included -
    its whole quotas, cut at its cap, or its previous gains if these are more"""
    qv, w = whole(c)
    prev, caps = dict(c['prev']), dict(c['caps'])
    base = {}
    for k, wk in w.items():
        held = min(wk, caps[k]) if k in caps else wk
        base[k] = max(prev.get(k, 0), held)
    outside = sum(s for k, s in prev.items() if k not in w)
    return qv, w, base, outside


def classify(c):
    qv, w = whole(c)
    if qv is None or qv <= 0:
        return 'nonpositive-quota'
    prev = dict(c['prev'])
    if sum(prev.values()) > c['n'] or any(s < 0 for s in prev.values()):
        return 'prev-exceeds-house'
    _, _, base, outside = base_seats(c)
    if c['pol'] == 2 and sum(base.values()) + outside - c['n'] > SUBTRACT_ROUNDS_MAX:
        return 'subtract-rounds'
    return None


def spec(c, io, mo):
    """the declarative clauses of C02 evaluated on the implementation's output (independent of the model)"""
    cls = classify(c)
    c['_class'] = cls
    v = common.parse_sx(io)
    m = common.parse_sx(mo)
    if v[0] == 0 and any(isinstance(k, list) for k, _ in v[1]):
        c['_tie'] = True
    if cls is not None:
        c['_skip'] = True          # outside the property's quantifier / not evaluable
        return None
    if m[0] == 4:
        c['_skip'] = True
    n, pol = c['n'], c['pol']
    prev, caps = dict(c['prev']), dict(c['caps'])
    qv, w, base, outside = base_seats(c)
    base_total = sum(base.values()) + outside
    over = base_total > n
    if any(k in caps and w[k] > caps[k] and prev.get(k, 0) <= caps[k] for k in w):
        c['_reached'] = 'cap-binds'
    if over and pol == 1:
        if v[0] != 0 and v[1] == common.E['VSE']:
            return None
        return 'whole quotas (%d with previous gains) exceed the %d seats, on_overaward=error, but no VotingSystemError' % (base_total, n)
    if v[0] != 0:
        return 'raises %s' % common.E_NAME.get(v[1], v[1])
    got = {k: s for k, s in v[1] if not isinstance(k, list)}
    ties = [(k, s) for k, s in v[1] if isinstance(k, list)]
    tie_members = set(x for k, _ in ties for x in k)
    tot = sum(s for _, s in v[1]) + sum(prev.values())
    for k, s in got.items():
        if k not in w:
            return 'seats for %r, which has no votes' % (k,)
        if s <= 0:
            return 'party %d is listed with %d seats' % (k, s)
    # caps are never exceeded - also not through a seat held by a tie object the party is a member of
    for k, mcap in caps.items():
        if prev.get(k, 0) <= mcap and got.get(k, 0) + prev.get(k, 0) + (1 if k in tie_members else 0) > mcap:
            return 'party %d lifted above its cap' % k
    withdrawn = over and pol == 2
    if withdrawn:
        # seats are withdrawn until the house is met; nobody holds more than before
        if tot != n:
            return 'on_overaward=subtract leaves %d seats, %d to fill' % (tot, n)
        for k in w:
            if got.get(k, 0) + prev.get(k, 0) > base[k]:
                return 'party %d holds more than its whole quotas after the withdrawal' % k
        return None
    lr = c['unit'] == 'largest_remainder' and not over
    if not lr:
        # quota stage (or surplus kept): exactly the whole quotas cut at the cap
        if ties:
            return 'tie object without a withdrawal'
        for k in w:
            if got.get(k, 0) + prev.get(k, 0) != base[k]:
                return 'party %d holds %d seats, whole quotas cut at the cap give %d' % (k, got.get(k, 0) + prev.get(k, 0), base[k])
        return None
    # remainder stage: at most one further seat each, to the largest exact remainders among the parties below their caps
    elig = [k for k in w if k not in caps or base[k] < caps[k]]
    rem = {k: q(dict((a, b) for a, b in c['votes'])[k]) / qv - base[k] for k in elig}
    extra = set()
    for k in w:
        d = got.get(k, 0) + prev.get(k, 0) - base[k]
        if d not in (0, 1):
            return 'party %d holds %d seats, whole quotas cut at the cap give %d' % (k, got.get(k, 0) + prev.get(k, 0), base[k])
        if d == 1:
            if k not in elig:
                return 'party %d lifted above its cap' % k
            extra.add(k)
    if len(ties) > 1:
        return 'several tie objects'
    tm = set()
    if ties:
        tm, ts = set(ties[0][0]), ties[0][1]
        if not tm <= set(elig) or tm & extra or not (0 < ts < len(tm)):
            return 'tie object %s for %d seats is not a tie of eligible parties without a further seat' % (sorted(tm), ts)
        if len(set(rem[k] for k in tm)) != 1:
            return 'tie object over unequal remainders'
    losers = [k for k in elig if k not in extra and k not in tm]
    cut_hi = min([rem[k] for k in extra] + [rem[k] for k in tm]) if (extra or tm) else None
    if tm and extra and min(rem[k] for k in extra) <= rem[min(tm)]:
        return 'a further seat below or at the tied remainder'
    if losers and cut_hi is not None:
        mx = max(rem[k] for k in losers)
        if mx >= cut_hi:
            return 'a further seat went past a party with a remainder at least as large (equal remainders at the cut must be a tie)'
    open_seats = n - base_total
    if open_seats <= len(elig):
        if tot != n:
            return 'total %d differs from the %d seats to fill although enough parties can take a further seat' % (tot, n)
    else:
        # at most one further seat per party (docstring: "get an extra seat"): the house cannot be filled
        c['_class'] = 'lr-underfill'
        if tot != base_total + len(elig):
            return 'total %d: every eligible party should hold one further seat (lr-underfill)' % tot
        return 'total %d differs from the %d seats to fill: open seats outnumber the parties that may take one (lr-underfill)' % (tot, n)
    return None


def known_class(c, io, mo):
    cls = c.get('_class')
    same = canon(c, io) == canon(c, mo) or common.parse_sx(mo)[0] == 4
    if not same:
        return None
    return {'lr-underfill': 'C02-lr-underfill'}.get(cls)


def canon2(c, wire):
    """outside the theorem domain the model is only a record of today's behaviour: unmodelled -> wildcard"""
    return canon(c, wire)


def nontrivial(c):
    return bool(c['prev'] or c['caps'] or c.get('_tie') or c.get('boundary'))


def rand_quota(rng):
    if rng.random() < 0.15:
        return [0, jq(Fraction(rng.randint(1, 40), rng.choice([1, 1, 2, 3])))]
    return [rng.randint(1, 7)]


def gen_random(rng, count, unit=None):
    for _ in range(count):
        m = rng.randint(1, 6)
        ids = list(range(1, m + 1))
        rng.shuffle(ids)
        style = rng.choice(['small', 'mid', 'big', 'tiny'])
        votes = []
        for k in ids:
            v = {'small': rng.randint(0, 30), 'mid': rng.randint(0, 1000), 'big': 10 ** 25 * rng.randint(0, 50) + rng.randint(0, 3),
                 'tiny': rng.randint(0, 3)}[style]
            votes.append([k, v])
        if sum(v for _, v in votes) == 0:
            votes[0][1] = 1
        n = rng.randint(1, rng.choice([3, 10, 30]))
        prev, caps = [], []
        r = rng.random()
        if r < 0.25:
            budget = rng.randint(0, n)
            for k in rng.sample(ids, rng.randint(1, m)):
                s = rng.randint(0, min(budget, 2))
                budget -= s
                if s:
                    prev.append([k, s])
        if 0.15 < r < 0.4:
            pd = dict(prev)
            for k in rng.sample(ids, rng.randint(1, m)):
                caps.append([k, pd.get(k, 0) + rng.randint(0, 4)])
        yield dict(unit=unit or rng.choice(['quota_distributor', 'largest_remainder']), quota=rand_quota(rng),
                   ae=rng.random() < 0.5, pol=rng.randint(0, 2), votes=votes, n=n, prev=prev, caps=caps)


def gen_equal_margins(rng, count):
    """k parties with a_i whole Imperiali quotas plus the same remainder q/k each: the quota is exactly q, one seat too many is awarded
    and all k margins are equal (1/k - no dyadic fraction for k = 3, 5, 6, 7): the withdrawal must report the tie, which arithmetic
    in floats resolves silently"""
    for _ in range(count):
        k = rng.choice([3, 3, 5, 6, 7])
        q0 = k * rng.choice([1, 2, 7, 41, 10 ** 25 + 7])
        a = [rng.randint(0, 6) for _ in range(k)]
        if sum(a) < 2:
            a[0] += 2
        votes = [[i + 1, q0 * a[i] + q0 // k] for i in range(k)]
        rng.shuffle(votes)
        yield dict(unit=rng.choice(['quota_distributor', 'largest_remainder']), quota=[7], ae=rng.random() < 0.5, pol=2, votes=votes,
                   n=sum(a) - 1, prev=[], caps=[])


def gen_boundary(rng, count):
    """votes on exact quota multiples, equal remainders at the cut, Imperiali over-award"""
    for _ in range(count):
        m = rng.randint(2, 5)
        n = rng.randint(1, 12)
        kind = rng.choice(['multiple', 'equalrem', 'imperiali', 'droop-tiny'])
        ids = list(range(1, m + 1))
        if kind == 'multiple':
            # hare quota = total/n integral: build votes as multiples of t, total = n*t
            t = rng.choice([1, 7, 100, 10 ** 20])
            parts = [rng.randint(0, 3) for _ in ids]
            while sum(parts) == 0:
                parts = [rng.randint(0, 3) for _ in ids]
            n = sum(parts) + rng.randint(0, 1) * rng.randint(0, 2)
            n = max(n, 1)
            votes = [[k, p * t] for k, p in zip(ids, parts)]
            quota = [rng.choice([1, 4])]
        elif kind == 'equalrem':
            base = rng.randint(1, 20)
            votes = [[k, base * rng.randint(1, 3) + rng.choice([0, 5, 5])] for k in ids]
            quota = [rng.choice([1, 3, 4, 0]), 10][:2] if rng.random() < 0.3 else [rng.choice([1, 3, 4])]
            if quota[0] == 0:
                quota = [0, 10]
        elif kind == 'imperiali':
            votes = [[k, rng.choice([10, 15, 30, 60])] for k in ids]
            quota = [7]
            n = rng.randint(1, 4)
        else:
            votes = [[k, rng.randint(0, 2)] for k in ids]
            if sum(v for _, v in votes) == 0:
                votes[0][1] = 1
            quota = [rng.choice([2, 3, 5, 6])]
        yield dict(unit=rng.choice(['quota_distributor', 'largest_remainder']), quota=quota, ae=rng.random() < 0.5,
                   pol=rng.randint(0, 2), votes=votes, n=n, prev=[], caps=[], boundary=True)


def gen_caps(rng, count):
    """caps that bind: a cap below / at / one above a party's whole quotas, with and without previous gains, a cap below the
    previous gains, every party capped (open seats outnumber the parties that may take a further seat), whole quotas above the
    house without any cap (Imperiali / small constant quota: the over-award policies decide, the pinned tree took its cap branch)"""
    for _ in range(count):
        m = rng.randint(1, 5)
        ids = list(range(1, m + 1))
        rng.shuffle(ids)
        kind = rng.choice(['bind', 'bind', 'bind-prev', 'all-capped', 'above-house', 'edge'])
        t = rng.choice([1, 3, 10, 17, 10 ** 20])
        n = rng.randint(1, 12)
        parts = [rng.randint(0, 6) for _ in ids]
        if sum(parts) == 0:
            parts[0] = 2
        votes = [[k, p * t + (rng.randint(0, t - 1) if t > 1 and rng.random() < 0.7 else 0)] for k, p in zip(ids, parts)]
        quota = [0, jq(Fraction(t))] if rng.random() < 0.6 else [rng.choice([1, 3, 4, 7])]
        prev, caps = [], []
        c0 = dict(unit='x', quota=quota, ae=True, pol=0, votes=votes, n=n, prev=[], caps=[])
        qv, w = whole(c0)
        if qv is None or qv <= 0:
            continue
        if kind == 'above-house':
            quota = [7] if rng.random() < 0.5 else [0, jq(Fraction(max(1, t // 2) if t < 100 else t))]
            n = rng.randint(1, 3)
        elif kind == 'all-capped':
            caps = [[k, max(0, w[k] + rng.choice([-1, 0, 0, 1]))] for k in ids]
            n = sum(w.values()) + rng.randint(0, m + 2)
        else:
            budget = n
            for k in rng.sample(ids, rng.randint(1, m)):
                if kind == 'bind-prev' and budget > 0 and rng.random() < 0.7:
                    s0 = rng.randint(1, min(budget, 3))
                    budget -= s0
                    prev.append([k, s0])
            pd = dict(prev)
            for k in rng.sample(ids, rng.randint(1, m)):
                if kind == 'edge':
                    caps.append([k, rng.choice([0, pd.get(k, 0), max(0, pd.get(k, 0) - 1), w[k], w[k] + 1])])
                else:
                    caps.append([k, max(0, w[k] - rng.choice([0, 1, 1, 2, 3])) if w[k] else rng.randint(0, 2)])
            if rng.random() < 0.5:
                n = max(1, sum(w.values()) + rng.randint(-1, 2))
        yield dict(unit=rng.choice(['quota_distributor', 'largest_remainder', 'largest_remainder']), quota=quota,
                   ae=rng.random() < 0.7, pol=rng.randint(0, 2), votes=votes, n=max(n, 1), prev=prev, caps=caps, boundary=True)


def gen_after_tie(rng, count):
    """on_overaward='subtract', an over-award of at least two seats, a group of parties tied for the first withdrawal:
    _subtract_overaward continues with the Tie object as a key of `selected`"""
    for _ in range(count):
        t = rng.choice([1, 2, 5, 10, 10, 7])
        g = rng.randint(2, 4)
        w = rng.randint(1, 4)
        r0 = rng.choice([0, 0, 1]) if t > 1 else 0
        ids = list(range(1, g + rng.randint(0, 2) + 1))
        rng.shuffle(ids)
        votes = []
        for i, k in enumerate(ids):
            if i < g:
                votes.append([k, t * w + r0])
            else:
                votes.append([k, t * rng.randint(1, 4) + rng.randint(r0, max(r0, t - 1))])
        rng.shuffle(votes)
        whole_tot = sum(v // t for _, v in votes)
        over = rng.randint(2, 4)
        n = whole_tot - over
        if n < max(v // t for _, v in votes) or n < 1:
            n = max(max(v // t for _, v in votes), 1)
        yield dict(unit='quota_distributor' if rng.random() < 0.8 else 'largest_remainder', quota=[0, jq(Fraction(t))],
                   ae=True, pol=2, votes=votes, n=n, prev=[], caps=[], boundary=True)


def quota_model_line(c):
    return '%d (%s %s %d)' % (U['quota'], sx([c['qid']]), sx(q(c['v'])), c['s'])


def quota_impl(c):
    import votelib.component.quota as vq
    return ok(q(vq.get(QN[c['qid']])(c['v'], c['s'])))


def corpus():
    import os, json, glob
    for p in sorted(glob.glob(os.path.join(common.VERIF, 'corpus', ID, '*.json'))):
        yield json.load(open(p))


def differential(ctx, stream, cases):
    """like ctx.differential but unmodelled outcomes are wildcards and out-of-quantifier cases are skipped"""
    def canon_pair(c, wire):
        return canon(c, wire)
    cases = list(cases)
    # pre-classify so that skipped classes never count as deviations
    keep = []
    for c in cases:
        cls = classify(c)
        if cls is not None:
            ctx.dist['skipped:' + cls] += 1
            continue
        keep.append(c)
    lines = [model_line(c) for c in keep]
    mouts = common.run_model(lines)
    n_unmod = 0
    for c, mo in zip(keep, mouts):
        ctx.evaluations += 1
        c, lm = ctx.pick_labels(stream, c)
        common.LABEL_MODE[0] = lm
        try:
            r = common.call_impl(lambda: impl(c))
            io = r[1] if r[0] == 'ok' else common.err(r[1])
            if r[0] != 'ok':
                c = dict(c, _exc=r[2])
            why = spec(c, io, mo)
        finally:
            common.LABEL_MODE[0] = 'std'
        ctx.dist['stream:' + stream] += 1
        cls = c.get('_class')
        if cls:
            ctx.dist['class:' + cls] += 1
        cm, ci = canon(c, mo), canon(c, io)
        if cm == ('unmodelled',):
            n_unmod += 1
            ctx.dist['unmodelled'] += 1
        elif cm != ci:
            ctx.disagreements += 1
            if cls is None or why:
                why = why or 'implementation differs from the proved model (%s)' % stream
            elif why is None:
                ctx.notes.append('class %s: implementation no longer behaves as recorded but satisfies the checker' % cls)
        if c.get('_reached'):
            ctx.dist['reached:' + c['_reached'] + ':' + c['unit']] += 1
        if c.get('_after_tie'):
            ctx.dist['reached:subtract-after-tie'] += 1
            if cm == ('unmodelled',):
                ctx.dist['unmodelled:after-tie'] += 1
        if nontrivial(c):
            ctx.nontrivial.add(common.case_hash({k: v for k, v in c.items() if not k.startswith('_')}))
        if why:
            ctx.checker_false += 1 if cls else 0
            ctx.report(stream, c, io, mo, why, known_class)
        elif len(ctx.samples) < 3 and nontrivial(c):
            ctx.samples.append(dict(stream=stream, case=c, impl=io, model=mo))
    ctx.streams[stream] = dict(cases=len(keep), unmodelled=n_unmod)


def explore(ctx, widen=1):
    differential(ctx, 'corpus', corpus())
    grid = [dict(unit='quota', qid=i, v=v, s=s) for i in range(1, 8)
            for v in range(0, 2000 if 'Quota' in ctx.fallback else ctx.n(60, 300))
            for s in range(1, ctx.n(13, 41))]
    big = [dict(unit='quota', qid=ctx.rng.randint(1, 7), v=ctx.rng.randint(0, 10 ** 30), s=ctx.rng.randint(1, 700))
           for _ in range(ctx.n(300, 3000))]
    ctx.differential('quota-grid', grid + big, quota_model_line, quota_impl, nontrivial=lambda c: c['v'] > 2 ** 53)
    differential(ctx, 'random', gen_random(ctx.rng, ctx.n(2500, 30000) * widen))
    differential(ctx, 'boundary', gen_boundary(ctx.rng, ctx.n(800, 8000) * widen))
    differential(ctx, 'equal-margins', gen_equal_margins(ctx.rng, ctx.n(300, 3000) * widen))
    differential(ctx, 'after-tie', gen_after_tie(ctx.rng, ctx.n(400, 4000) * widen))
    differential(ctx, 'caps', gen_caps(ctx.rng, ctx.n(1500, 15000) * widen))


def replay(ctx, case, stream=None):
    if case.get('unit') == 'quota':
        ctx.differential('replay', [case], quota_model_line, quota_impl)
    else:
        differential(ctx, 'replay', [case])
