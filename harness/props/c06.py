"""C06 - CondorcetWinner, SmithSet, SchwartzSet."""
import common, pairwise as pw
from common import sx, ok, cname
from units import U

ID = 'C06'
LEVEL = 'proof'
TIE = {'condorcet.pairwise_wins/beat_counts/CondorcetWinner/_smith_schwartz_set/_schwartz_set (+ RankedPairs._is_path as used by it)': 'correspondence'}
RULE = ('corpus; exhaustive: every relation shape on 2..3 candidates (each unordered pair: a>b, b>a, tie, absent, one-sided, zero-sided; '
        '4 candidates sampled quick / complete thorough) through CondorcetWinner, SmithSet, SchwartzSet; random: 3..6 candidates, '
        'profile-derived (truncation, shared ranks, both unranked_at_bottom), sparse, dense with ties, forced Condorcet winners; '
        'schwartz-boundary: 3..6 candidates built from unbeaten groups (mutually tied candidates, cycles, lone candidates) stacked in levels '
        'with ties / absent pairs between groups of the top level, dictionary order shuffled, optionally sparse (zero-sided pairs dropped); '
        'outputs compared as sets with the model AND with brute-force references over all candidate subsets. '
        'non-trivial = a tie, a cycle or a missing reverse pair; distinct by case hash')
PARTIAL = []
TRUSTED = []
KIND = {'cw': 0, 'smith': 1, 'schwartz': 2}


def model_line(c):
    if c['kind'] == 'cw':
        return '%d %s' % (U['condorcet_winner'], pw.psx(c['votes']))
    return '%d (%d %s)' % (U['smith_schwartz'], 1 if c['kind'] == 'smith' else 0, pw.psx(c['votes']))


def impl(c):
    import votelib.evaluate.condorcet as cd
    ev = {'cw': cd.CondorcetWinner, 'smith': cd.SmithSet, 'schwartz': cd.SchwartzSet}[c['kind']]()
    if c.get('names') == 'ints0':
        # candidates numbered from 0 (the first one is a falsy object); translated back before comparing
        return ok([x + 1 for x in ev.evaluate({(a - 1, b - 1): n for (a, b), n in c['votes']})])
    return ok([common.cnum(x) for x in ev.evaluate(pw.pdict(c['votes']))])


def canon(c, wire):
    v = common.parse_sx(wire)
    if v[0] != 0:
        return ('err', v[1])
    return ('ok', tuple(sorted(v[1])), len(set(v[1])) == len(v[1]))


def spec(c, io, mo):
    v = common.parse_sx(io)
    ref = {'cw': pw.ref_cw, 'smith': pw.ref_smith, 'schwartz': pw.ref_schwartz}[c['kind']](c['votes'])
    got = sorted(v[1]) if v[0] == 0 else ('error', v[1])
    if got != ref:
        c['_class'] = c['kind'] + ('' if pw.ordered_complete(c['votes']) else '-sparse')
        return '%s: implementation returns %s, the definition gives %s' % (c['kind'], got, ref)
    return None


def known_class(c, io, mo):
    # no open finding: C06-smith-sparse and C06-schwartz are repaired (status fixed) - their return is a VIOLATION
    return None


def nontrivial(c):
    cn = pw.cnt(c['votes'])
    cs = pw.cands(c['votes'])
    return (not pw.ordered_complete(c['votes'])) or any(cn(a, b) == cn(b, a) for a in cs for b in cs if a < b) or not pw.ref_cw(c['votes'])


def three(v, **kw):
    for k in ('cw', 'smith', 'schwartz'):
        yield dict(unit='condorcet', kind=k, votes=v, **kw)


def gen_random(rng, count):
    for _ in range(count):
        m = rng.randint(3, 6)
        r = rng.random()
        if r < 0.3:
            v, _ = pw.from_profile(rng, m, rng.randint(1, 8), shared=rng.random() < 0.3, bottom=rng.random() < 0.6)
            if not v:
                continue
        elif r < 0.5:
            v = pw.sparse(rng, m, p=rng.choice([0.3, 0.5, 0.8]))
        elif r < 0.8:
            v = pw.dense(rng, m, tie_p=rng.choice([0, 0.2, 0.6]), scale=rng.choice([1, 1, 10 ** 25]))
        else:
            v = pw.forced_cw(rng, m)
        yield from three(v, **({'names': 'ints0'} if rng.random() < 0.3 else {}))


def gen_schwartz_boundary(rng, count):
    """pairwise dictionaries aimed at the Schwartz clause: the candidates are split into groups (a lone candidate, a set of
    mutually tied candidates, a cycle of strict defeats), the groups are stacked in levels - every member of a higher level
    group beats (or, with some probability, only ties) the members of lower groups - and groups of the same level tie each
    other or leave the pair unranked: several unbeaten groups, tied unbeaten candidates, cycles next to tied outsiders."""
    for _ in range(count):
        m = rng.randint(2, 6)
        ids = list(range(1, m + 1))
        rng.shuffle(ids)
        groups = []
        while ids:
            k = min(len(ids), rng.choice([1, 1, 2, 2, 3, 3, 4]))
            groups.append((ids[:k], rng.choice(['tied', 'cycle']) if k >= 2 else 'lone', rng.randint(0, 2)))
            ids = ids[k:]
        scale = rng.choice([1, 1, 1, 7, 10 ** 25])
        d = {}

        def put(a, b, x, y):
            d[(a, b)], d[(b, a)] = x * scale, y * scale
        for members, shape, _lvl in groups:
            for i, a in enumerate(members):
                for j, b in enumerate(members):
                    if i < j:
                        if shape == 'tied':
                            t = rng.randint(0, 3)
                            put(a, b, t, t)
                        elif (j - i) % len(members) == 1 and not (len(members) == 2):
                            put(a, b, 3, 1)          # i beats its successor ...
                        elif len(members) >= 3 and i == 0 and j == len(members) - 1:
                            put(b, a, 3, 1)          # ... and the last beats the first
                        elif len(members) == 2:
                            put(a, b, 2, 2)          # a two-cycle does not exist: a tie
                        else:
                            t = rng.randint(0, 2)    # chords of the cycle: ties or strict either way
                            put(a, b, t + rng.choice([0, 0, 1]), t + rng.choice([0, 0, 1]))
        for gi, (ma, _sa, la) in enumerate(groups):
            for mb, _sb, lb in groups[gi + 1:]:
                for a in ma:
                    for b in mb:
                        if la == lb or rng.random() < 0.25:
                            t = rng.randint(0, 2)
                            put(a, b, t, t)
                        elif la > lb:
                            put(a, b, rng.randint(2, 5), rng.randint(0, 1))
                        else:
                            put(b, a, rng.randint(2, 5), rng.randint(0, 1))
        items = list(d.items())
        rng.shuffle(items)
        if rng.random() < 0.4:       # sparse: a pair nobody ranked is left out (one direction or both)
            items = [(p, n) for p, n in items if n or rng.random() < 0.5]
        v = [[[a, b], n] for (a, b), n in items]
        if len(pw.cands(v)) >= 2:
            yield dict(unit='condorcet', kind='schwartz', votes=v)
            if rng.random() < 0.3:
                yield dict(unit='condorcet', kind='smith', votes=v)


def corpus():
    import os, json, glob
    for p in sorted(glob.glob(os.path.join(common.VERIF, 'corpus', ID, '*.json'))):
        yield json.load(open(p))


def explore(ctx, widen=1):
    kw = dict(canon=canon, nontrivial=nontrivial, spec=spec, known_class=known_class)
    ctx.differential('corpus', corpus(), model_line, impl, **kw)
    ex = [c for m in (2, 3) for v in pw.exhaustive_shapes(m) for c in three(v)]
    ctx.differential('exhaustive-2-3', ex, model_line, impl, **kw)
    ex4 = list(pw.exhaustive_shapes(4))
    if ctx.tier == 'quick':
        ex4 = ctx.rng.sample(ex4, 600)
    ctx.differential('shapes-4', [c for v in ex4 for c in three(v)], model_line, impl, **kw)
    ctx.differential('schwartz-boundary', gen_schwartz_boundary(ctx.rng, ctx.n(1500, 20000) * widen), model_line, impl, **kw)
    ctx.differential('random', gen_random(ctx.rng, ctx.n(1200, 20000) * widen), model_line, impl, **kw)


def replay(ctx, case, stream=None):
    ctx.differential('replay', [case], model_line, impl, canon=canon, nontrivial=nontrivial, spec=spec, known_class=known_class)
