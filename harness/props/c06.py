"""C06 - CondorcetWinner, SmithSet, SchwartzSet."""
import common, pairwise as pw
from common import sx, ok, cname
from units import U

ID = 'C06'
LEVEL = 'proof'
TIE = {'condorcet.pairwise_wins/beat_counts/CondorcetWinner/_smith_schwartz_set': 'correspondence'}
RULE = ('corpus; exhaustive: every relation shape on 2..3 candidates (each unordered pair: a>b, b>a, tie, absent, one-sided, zero-sided; '
        '4 candidates sampled quick / complete thorough) through CondorcetWinner, SmithSet, SchwartzSet; random: 3..6 candidates, '
        'profile-derived (truncation, shared ranks, both unranked_at_bottom), sparse, dense with ties, forced Condorcet winners; '
        'outputs compared as sets with the model AND with brute-force references over all candidate subsets. '
        'non-trivial = a tie, a cycle or a missing reverse pair; distinct by case hash')
PARTIAL = ['Schwartz set: refuted on the pinned tree (known finding C06-schwartz); reference checker decides it per case']
TRUSTED = []
KIND = {'cw': 0, 'smith': 1, 'schwartz': 2}


def model_line(c):
    if c['kind'] == 'cw':
        return '%d %s' % (U['condorcet_winner'], pw.psx(c['votes']))
    return '%d (%d %s)' % (U['smith_schwartz'], 1 if c['kind'] == 'smith' else 0, pw.psx(c['votes']))


def impl(c):
    import votelib.evaluate.condorcet as cd
    ev = {'cw': cd.CondorcetWinner, 'smith': cd.SmithSet, 'schwartz': cd.SchwartzSet}[c['kind']]()
    if c.get('names') == 'ints0':
        # candidates numbered from 0 (the first one is a falsy object); translated back before comparing
        return ok([x + 1 for x in ev.evaluate({(a - 1, b - 1): n for (a, b), n in c['votes']})])
    return ok([common.cnum(x) for x in ev.evaluate(pw.pdict(c['votes']))])


def canon(c, wire):
    v = common.parse_sx(wire)
    if v[0] != 0:
        return ('err', v[1])
    return ('ok', tuple(sorted(v[1])), len(set(v[1])) == len(v[1]))


def spec(c, io, mo):
    v = common.parse_sx(io)
    ref = {'cw': pw.ref_cw, 'smith': pw.ref_smith, 'schwartz': pw.ref_schwartz}[c['kind']](c['votes'])
    got = sorted(v[1]) if v[0] == 0 else ('error', v[1])
    if got != ref:
        c['_class'] = c['kind'] + ('' if pw.ordered_complete(c['votes']) else '-sparse')
        return '%s: implementation returns %s, the definition gives %s' % (c['kind'], got, ref)
    return None


def known_class(c, io, mo):
    if canon(c, io) != canon(c, mo):
        return None
    return {'schwartz': 'C06-schwartz', 'schwartz-sparse': 'C06-schwartz', 'smith-sparse': 'C06-smith-sparse'}.get(c.get('_class'))


def nontrivial(c):
    cn = pw.cnt(c['votes'])
    cs = pw.cands(c['votes'])
    return (not pw.ordered_complete(c['votes'])) or any(cn(a, b) == cn(b, a) for a in cs for b in cs if a < b) or not pw.ref_cw(c['votes'])


def three(v, **kw):
    for k in ('cw', 'smith', 'schwartz'):
        yield dict(unit='condorcet', kind=k, votes=v, **kw)


def gen_random(rng, count):
    for _ in range(count):
        m = rng.randint(3, 6)
        r = rng.random()
        if r < 0.3:
            v, _ = pw.from_profile(rng, m, rng.randint(1, 8), shared=rng.random() < 0.3, bottom=rng.random() < 0.6)
            if not v:
                continue
        elif r < 0.5:
            v = pw.sparse(rng, m, p=rng.choice([0.3, 0.5, 0.8]))
        elif r < 0.8:
            v = pw.dense(rng, m, tie_p=rng.choice([0, 0.2, 0.6]), scale=rng.choice([1, 1, 10 ** 25]))
        else:
            v = pw.forced_cw(rng, m)
        yield from three(v, **({'names': 'ints0'} if rng.random() < 0.3 else {}))


def corpus():
    import os, json, glob
    for p in sorted(glob.glob(os.path.join(common.VERIF, 'corpus', ID, '*.json'))):
        yield json.load(open(p))


def explore(ctx, widen=1):
    kw = dict(canon=canon, nontrivial=nontrivial, spec=spec, known_class=known_class)
    ctx.differential('corpus', corpus(), model_line, impl, **kw)
    ex = [c for m in (2, 3) for v in pw.exhaustive_shapes(m) for c in three(v)]
    ctx.differential('exhaustive-2-3', ex, model_line, impl, **kw)
    ex4 = list(pw.exhaustive_shapes(4))
    if ctx.tier == 'quick':
        ex4 = ctx.rng.sample(ex4, 600)
    ctx.differential('shapes-4', [c for v in ex4 for c in three(v)], model_line, impl, **kw)
    ctx.differential('random', gen_random(ctx.rng, ctx.n(1200, 20000) * widen), model_line, impl, **kw)


def replay(ctx, case, stream=None):
    ctx.differential('replay', [case], model_line, impl, canon=canon, nontrivial=nontrivial, spec=spec, known_class=known_class)
