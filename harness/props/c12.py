"""C12 - approval and score family."""
import itertools, math
from fractions import Fraction
import common
from common import sx, q, ok, cname, cnum
from units import U, BLOCK

ID = 'C12'
LEVEL = 'proof'
TIE = {'approval.ProportionalApproval / SequentialProportionalApproval': 'correspondence',
       'convert.ScoreToSimpleVotes (corrections, truncation, aggregation), cardinal.ScoreVoting, MajorityJudgment (default, plus)': 'correspondence',
       'cardinal.STAR (default configuration; Schulze run-off with the candidate order of the pairwise dictionary, results compared as sets)': 'correspondence',
       'cardinal.AllocatedScoreSelector / AllocatedScoreDistributor (prev_gains, max_seats; the iteration order of a Tie frozenset is an argument of the model, read off Python per candidate set)': 'correspondence',
       'wave 6: the flagged definitions of the repaired code (Cardinal.v correct_scores_x / aggregate_one_w / mj_default_x / majority_judgment_x, AllocScore.v fraction_out_r / round_scores / alloc_select_x) through wire units 192..195; flags set by behavioural probes of the library under test': 'correspondence'}
RULE = ('corpus; approval profiles over 2..6 candidates (1..7 distinct ballots, weights 1..5) x n 1..|C| through PAV (fresh object per '
        'call and a shared object) and SPAV; score profiles over 2..5 candidates, grades 0..5, partial ballots, through ScoreVoting and '
        'MajorityJudgment with function in {mean,sum,median_low}, unscored_value in {None,0,min}, min_count in {0,2}, truncation in {0,1,1/10}, '
        'tie_breaking in {default,plus}; a single-seat stream of complete ballots with grades 0..2 (level medians, close STAR run-offs); n-seat boundary streams mj-seats-level (few grades / end-mutated copies of one grade column: equal medians at the cut, long common removal prefixes, multi-copy steps) and star-seats (tied finalist cuts, unseparated finalists, 3..5-member run-offs), both judged by independent references of the proved statements (removal-sequence order, plus counts, Schulze over the run-off supports); STAR through the model and (run-off of two) a reference; allocated score (selector; distributor with prev_gains / max_seats; Hare and Droop; 1..m seats; integer and fractional weights; few-grade profiles with level leaders) through Model/AllocScore.v - order of election and exception class compared exactly - and against an independent Python reference; score-counted: ballot counts around 10^12 and 10^25 + 7 with one-vote differences through the counted aggregates (run-length references). Declarative '
        'clauses on implementation outputs: PAV committee = unique brute-force maximiser of the harmonic satisfaction (refusal iff not unique) '
        'and satisfies justified representation; SPAV round = unique argmax. non-trivial = more than two ballots; distinct by case hash')
PARTIAL = ['allocated score (repaired, wave 6): the clause is proved for every round without a tie and positive ballot weights, the loop has no error outcome (C12_alloc_answers) and the selector returns a well-shaped selection (C08_shape_allocated_score); rounds with level leaders follow the code - all seated in set-iteration order without re-running the maximum (C12_alloc_tie_second_refuted, C10_allocated_score_tie_order_refuted: known findings left to the maintainers)',
           'STAR: proved for the default configuration (run-off of n + 1, unscored below every scored candidate): table = supports, exact short class, complete one-seat table, Schulze over the table for n seats (C12_star_*); a configured unscored_value / other run-off sizes are judged by the Python reference only',
           'MJ for n seats: the theorems (C12_mj_seats_*, repaired: C12_mj_exhausted_*) are about answers; that a separated top-n set always gets an answer (completeness; VotingSystemError only for a lasting tie) is compared, not proved; the fuel of the repaired loop is proved sufficient (C12_mj_fuel_sufficient)',
           'score voting: a non-integer truncation >= 1 is floored by the model (outside the quantified settings)']
TRUSTED = []
_shared = {}


def ap_sx(votes):
    return sx([[sorted(b), q(w)] for b, w in votes])


def sp_sx(votes):
    return sx([[[[c, q(s)] for c, s in sorted(b)], w] for b, w in votes])


def cfg_sx(cf):
    un = {'none': '()', 'min': '1'}.get(cf['unscored'], None)
    if un is None:
        un = '(%s)' % sx(q(cf['unscored']))
    return '(%d %s %d %s %s)' % ({'mean': 0, 'sum': 1, 'median_low': 2}[cf['fn']], un, cf['min_count'], sx(q(cf['trunc'])), sx(q(cf['bottom'])))


def model_line(c):
    u = c['unit']
    if u == 'pav':
        return '%d (%s %d)' % (U['pav'], ap_sx(c['votes']), c['n'])
    if u == 'spav':
        return '%d (%s %d)' % (U['spav'], ap_sx(c['votes']), c['n'])
    if u == 'score':
        # wave 6: the flagged units of Units_C12.v with every repair applied (fixes/C12-truncation-middle,
        # C12-mj-default-exhausted, C12-score-counted)
        return '%d (%s %s %s %d)' % (BLOCK['C12'] + 2, REPAIRS(c), cfg_sx(c['cfg']), sp_sx(c['votes']), c['n'])
    if u == 'mj':
        return '%d (%s %d %s %s %d)' % (BLOCK['C12'] + 3, REPAIRS(c), 1 if c['plus'] else 0, cfg_sx(dict(c['cfg'], fn='median_low')), sp_sx(c['votes']), c['n'])
    if u == 'star' and c.get('unscored', 'none') == 'none':
        return '%d (%s %d)' % (BLOCK['C12'], sp_sx(c['votes']), c['n'])
    if u == 'alloc':
        # Model/AllocScore.v: (mode quota tie-orders votes n prev_gains max_seats)
        return '%d (%s %d %s %s %s %d %s %s)' % (
            BLOCK['C12'] + 4, AREPAIRS(c), 1 if c.get('mode') == 'dist' else 0, {'hare': '(1)', 'droop': '(3)'}[c['quota']],
            sx(tie_orders(c)), sx([[[[cc, q(s)] for cc, s in sorted(b)], q(w)] for b, w in c['votes']]), c['n'],
            sx([[k, v] for k, v in c.get('prev', [])]), sx([[k, v] for k, v in c.get('max', [])]))
    return '%d (%s %d)' % (U['pav'], '()', 0)          # STAR with an unscored_value: no model (placeholder line)


_ORDERS = {}


_PROBE = {}


def probes():
    """which of the wave-6 repairs the library under test carries (behavioural probes on the recorded witnesses): the
    flags of Model/Cardinal.v [repairs] / Model/AllocScore.v [arepairs] follow them, so the correspondence stays exact on
    a tree where a repair is missing - and the crash / mis-shape it repaired is reported there as a VIOLATION (the
    findings are status fixed), with its replay"""
    if _PROBE:
        return _PROBE
    import votelib.evaluate.cardinal as cd

    def answers(fn):
        try:
            return fn()
        except Exception:   # noqa
            return None
    f = lambda **kw: frozenset(kw.items())    # noqa
    _PROBE['trunc'] = answers(lambda: cd.ScoreVoting('mean', truncation=2).evaluate({f(A=3): 2, f(B=1): 5}, 1)) is not None
    _PROBE['mj'] = answers(lambda: cd.MajorityJudgment().evaluate({f(A=1): 1, f(B=1): 3}, 1)) is not None
    # a fractional vote count cannot be expanded to one list element per voter (TypeError from range)
    _PROBE['counted'] = answers(lambda: cd.ScoreVoting('sum').evaluate({f(A=1): Fraction(3, 2), f(B=0): 1}, 1)) is not None
    _PROBE['exhausted'] = answers(lambda: cd.AllocatedScoreSelector('hare').evaluate({f(A=5): 4, f(B=5): 2}, 2)) is not None
    r = answers(lambda: cd.AllocatedScoreSelector('hare').evaluate({f(A=1): 1, f(B=1): 1, f(C=1): 1}, 2))
    _PROBE['tieseats'] = r is not None and len(r) == 2
    return _PROBE


def REPAIRS(c):
    p = probes()
    return '(%d %d %d)' % (p['trunc'], p['mj'], p['counted'])


def AREPAIRS(c):
    p = probes()
    return '(%d %d)' % (p['exhausted'], p['tieseats'])


def tie_orders(c):
    """`for cand in best` over a Tie iterates a frozenset: the order Python uses for every set of >= 2 candidates
    of the case.  The Tie is built from a list whose order follows other set iterations; a set whose iteration
    order depends on the insertion order makes the case ambiguous (not compared)."""
    cands = tuple(sorted({cc for b, _ in c['votes'] for cc, _ in b}))
    if cands not in _ORDERS:
        import votelib.evaluate.core as core
        out, amb = [], False
        for r in range(2, len(cands) + 1):
            for sub in itertools.combinations(cands, r):
                seen = {tuple(core.Tie([cname(x) for x in p])) for p in itertools.permutations(sub)}
                amb = amb or len(seen) > 1
                out.append([cnum(x) for x in core.Tie([cname(x) for x in sub])])
        _ORDERS[cands] = (out, amb)
    out, amb = _ORDERS[cands]
    if amb:
        c['_ambiguous'] = True
    return out


def py_w(w):
    f = q(w)
    return int(f) if f.denominator == 1 else f


def py_ap(votes):
    return {frozenset(cname(x) for x in b): (int(q(w)) if q(w).denominator == 1 else q(w)) for b, w in votes}


def py_sp(votes):
    return {frozenset((cname(cc), int(q(s)) if q(s).denominator == 1 else q(s)) for cc, s in b): w for b, w in votes}


def unscored_arg(cf):
    u = cf['unscored']
    if u == 'none':
        return None
    if u == 'min':
        return 'min'
    f = q(u)
    return int(f) if f.denominator == 1 else f


def enc_sel(res):
    import votelib.evaluate.core as core
    return [sorted(cnum(x) for x in r) if isinstance(r, core.Tie) else cnum(r) for r in res]


def impl(c):
    import votelib.evaluate.approval as ap
    import votelib.evaluate.cardinal as cd
    u = c['unit']
    if u == 'pav':
        if c.get('shared'):
            ev = _shared.setdefault('pav', ap.ProportionalApproval())
        else:
            ev = ap.ProportionalApproval()
        return ok(enc_sel(ev.evaluate(py_ap(c['votes']), c['n'])))
    if u == 'spav':
        return ok(enc_sel(ap.SequentialProportionalApproval().evaluate(py_ap(c['votes']), c['n'])))
    cf = c['cfg']
    tr = q(cf['trunc'])
    kw = dict(unscored_value=unscored_arg(cf), min_count=cf['min_count'], truncation=int(tr) if tr.denominator == 1 else tr,
              bottom_value=int(q(cf['bottom'])))
    if u == 'score':
        ev = cd.ScoreVoting(function=cf['fn'], **kw)
        try:
            c['_vals'] = {cnum(k): str(q(x)) for k, x in ev._agg.convert(py_sp(c['votes'])).items()}
        except Exception:   # noqa
            pass
        return ok(enc_sel(ev.evaluate(py_sp(c['votes']), c['n'])))
    if u == 'mj':
        return ok(enc_sel(cd.MajorityJudgment(tie_breaking='plus' if c['plus'] else 'default', **kw).evaluate(py_sp(c['votes']), c['n'])))
    if u == 'star':
        # the configured unscored_value must reach both the score sums and the run-off ranking
        kw_star = {} if c.get('unscored', 'none') == 'none' else dict(unscored_value=int(c['unscored']))
        return ok(enc_sel(cd.STAR(**kw_star).evaluate(py_sp(c['votes']), c['n'])))
    if u == 'alloc':
        votes = {k: py_w(w) for k, w in py_sp(c['votes']).items()}
        if c.get('mode') == 'dist':
            res = cd.AllocatedScoreDistributor(c['quota']).evaluate(
                votes, c['n'], prev_gains={cname(k): v for k, v in c.get('prev', [])},
                max_seats={cname(k): v for k, v in c.get('max', [])})
            return ok([[enc_sel([k])[0], v] for k, v in res.items()])
        return ok(enc_sel(cd.AllocatedScoreSelector(c['quota']).evaluate(votes, c['n'])))
    raise ValueError(u)


def canon(c, wire):
    if c['unit'] == 'star' and c.get('unscored', 'none') != 'none':
        return ('n/a',)        # no Coq model for this configuration: judged by the reference in spec()
    v = common.parse_sx(wire)
    if c['unit'] == 'alloc':
        # the order of election is compared as it is (the members of a tie as a set); error codes exactly
        if c.get('_ambiguous'):
            return ('unmodelled',)
        if v[0] != 0:
            return ('err', v[1])
        if c.get('mode') == 'dist':
            return ('ok', tuple((tuple(sorted(k)) if isinstance(k, list) else k, n) for k, n in v[1]))
        return ('ok', tuple(tuple(sorted(r)) if isinstance(r, list) else r for r in v[1]))
    if v[0] != 0:
        crash = (common.E['KEY'], common.E['STATS'], common.E['ZERODIV'], common.E['VALUE'], common.E['INDEX'])
        return ('err', 'crash' if v[1] in crash else v[1])
    if c['unit'] == 'score' and c.get('_vals'):
        vals = c['_vals']
        out, run = [], []
        for r in v[1]:
            if isinstance(r, list):
                out += sorted(run)
                run = []
                out.append(tuple(sorted(r)))
            else:
                if run and vals.get(str(run[-1])) != vals.get(str(r)) and vals.get(run[-1]) != vals.get(r):
                    out += sorted(run)
                    run = []
                run.append(r)
        return ('ok', tuple(out + sorted(run)))
    if c['unit'] in ('pav', 'mj', 'star'):
        # the elected committee / winners as a set (order among equally placed winners is free)
        return ('ok', tuple(sorted((tuple(sorted(r)) if isinstance(r, list) else r for r in v[1]), key=repr)))
    return ('ok', tuple(tuple(sorted(r)) if isinstance(r, list) else r for r in v[1]))


# ---- independent references
def H(k):
    return sum(Fraction(1, i + 1) for i in range(k))


def pav_ref(votes, n):
    cands = sorted({x for b, _ in votes for x in b})
    best, arg = None, []
    for alt in itertools.combinations(cands, n):
        s = sum(H(len(set(b) & set(alt))) * q(w) for b, w in votes)
        if best is None or s > best:
            best, arg = s, [alt]
        elif s == best:
            arg.append(alt)
    return arg


def jr_ok(votes, n, winners):
    total = sum(q(w) for _, w in votes)
    cands = sorted({x for b, _ in votes for x in b})
    for cc in cands:
        wt = sum(q(w) for b, w in votes if cc in b and not (set(b) & set(winners)))
        if wt * n >= total and wt > 0:
            return False
    return True


def corrected_lists(cf, votes):
    """independent re-implementation of the documented corrections: per candidate the sorted list of its scores after
    min_count (fewer scores -> min_count copies of bottom_value), unscored_value (one copy per voter who did not score it)
    and truncation (the c lowest and the c highest scores dropped; c = truncation when >= 1, else int(voters * truncation),
    but never past the middle: at most (scores - 1) // 2 at either end, repair C12-truncation-middle)
    - C12_score_corrections / C12_score_truncation / C12_truncation_keeps_middle.  A candidate is left without scores only
    when it had none (an empty list)"""
    cands = sorted({cc for b, _ in votes for cc, _ in b})
    nv = sum(w for _, w in votes)
    tr = q(cf['trunc'])
    out = {}
    for cc in cands:
        lst = []
        for b, w in votes:
            for c2, s in b:
                if c2 == cc:
                    lst += [q(s)] * w
        if len(lst) < cf['min_count']:
            out[cc] = [q(cf['bottom'])] * cf['min_count']
            continue
        n_scores = len(lst)
        if cf['unscored'] != 'none':
            u = min(lst) if cf['unscored'] == 'min' else q(cf['unscored'])
            lst += [u] * (nv - len(lst))
        lst.sort()
        if tr > 0:
            cut = int(tr) if tr >= 1 else int((nv if nv else n_scores) * tr)
            cut = max(0, min(cut, (len(lst) - 1) // 2))
            lst = lst[cut:len(lst) - cut]
        out[cc] = lst
    return out


BIG = 20000       # above this many voters the list-based references give way to the run-length ones


def corrected_runs(cf, votes):
    """the same corrections on run-length encoded sorted score lists [(score, copies), ...] - for vote counts that do not fit
    a list with one element per voter"""
    cands = sorted({cc for b, _ in votes for cc, _ in b})
    nv = sum(w for _, w in votes)
    tr = q(cf['trunc'])
    out = {}
    for cc in cands:
        runs = {}
        for b, w in votes:
            for c2, s in b:
                if c2 == cc:
                    runs[q(s)] = runs.get(q(s), 0) + w
        n_scores = sum(runs.values())
        if n_scores < cf['min_count']:
            out[cc] = [(q(cf['bottom']), cf['min_count'])]
            continue
        if cf['unscored'] != 'none':
            u = min(runs) if cf['unscored'] == 'min' else q(cf['unscored'])
            runs[u] = runs.get(u, 0) + (nv - n_scores)
        lst = sorted((v, k) for v, k in runs.items() if k > 0)
        total = sum(k for _, k in lst)
        if tr > 0:
            cut = int(tr) if tr >= 1 else int((nv if nv else n_scores) * tr)
            cut = max(0, min(cut, (total - 1) // 2))
            for side in (0, -1):
                left = cut
                while left and lst:
                    v, k = lst[side]
                    if k <= left:
                        lst.pop(side)
                        left -= k
                    else:
                        lst[side] = (v, k - left)
                        left = 0
        out[cc] = lst
    return out


def score_ref(cf, votes):
    """the configured exact aggregate of every candidate (None when some candidate is left without scores)"""
    out = {}
    if sum(w for _, w in votes) > BIG:
        for cc, runs in corrected_runs(cf, votes).items():
            total = sum(k for _, k in runs)
            if not total:
                return None
            if cf['fn'] == 'sum':
                out[cc] = sum(v * k for v, k in runs)
            elif cf['fn'] == 'mean':
                out[cc] = Fraction(sum(v * k for v, k in runs), total)
            else:
                seen = 0
                for v, k in runs:
                    seen += k
                    if seen > (total - 1) // 2:
                        out[cc] = v
                        break
        return out
    for cc, lst in corrected_lists(cf, votes).items():
        if not lst:
            return None
        if cf['fn'] == 'sum':
            out[cc] = sum(lst)
        elif cf['fn'] == 'mean':
            out[cc] = Fraction(sum(lst), len(lst))
        else:
            out[cc] = lst[(len(lst) - 1) // 2]
    return out


def mj_lists(cf, votes):
    """per candidate the sorted list of corrected scores (None when some candidate is left without scores)"""
    if sum(w for _, w in votes) > BIG:
        return None
    out = corrected_lists(cf, votes)
    return None if any(not l for l in out.values()) else out


def mj_ref(lists):
    """majority judgment for one seat as documented (Balinski-Laraki): the highest lower median wins; equal medians:
    remove one median grade from every candidate still level and compare the new medians, the candidates that fall
    behind are out for good; a level candidate that has run out of grades is behind those that still have some
    (repair C12-mj-default-exhausted).  None when the outcome is undefined (a lasting tie)."""
    cur = {cc: list(l) for cc, l in lists.items()}
    alive = set(cur)
    while True:
        if any(not cur[cc] for cc in alive):
            alive = {cc for cc in alive if cur[cc]}
            if not alive:
                return None
            if len(alive) == 1:
                return next(iter(alive))
        med = {cc: cur[cc][(len(cur[cc]) - 1) // 2] for cc in alive}
        top = max(med.values())
        alive = {cc for cc in alive if med[cc] == top}
        if len(alive) == 1:
            return next(iter(alive))
        for cc in alive:
            cur[cc].remove(med[cc])


def mj_removal_seq(l):
    """the removal sequence (majority value) of one candidate: its lower median, the lower median after that grade is
    taken out once, and so on until no grade is left - a function of the candidate's own sorted grades only"""
    l, out = list(l), []
    while l:
        m = l[(len(l) - 1) // 2]
        out.append(m)
        l.remove(m)
    return out


def mj_seq_cmp(sa, sb):
    """lexicographic comparison of two removal sequences: -1 / 1 at the first entry where they differ; a sequence that
    ends before any difference (the candidate has run out of grades) is below the longer one (repair
    C12-mj-default-exhausted); None when the sequences are the same"""
    for x, y in zip(sa, sb):
        if x != y:
            return -1 if x < y else 1
    if len(sa) != len(sb):
        return -1 if len(sa) < len(sb) else 1
    return None


def mj_top(lists, n):
    """majority judgment for n seats as documented, declaratively: the set of n candidates each of which is
    lexicographically strictly above every candidate outside the set (C12_mj_seats_default); None when no such set
    exists (an unbreakable tie at the cut: equal removal sequences)"""
    cands = sorted(lists)
    if n >= len(cands):
        return set(cands)
    seqs = {cc: mj_removal_seq(l) for cc, l in lists.items()}
    need = len(cands) - n
    top = {cc for cc in cands if sum(1 for d in cands if d != cc and mj_seq_cmp(seqs[cc], seqs[d]) == 1) >= need}
    if len(top) == n and all(mj_seq_cmp(seqs[cc], seqs[d]) == 1 for cc in top for d in cands if d not in top):
        return top
    return None


def mj_seats_spec(c, v):
    """the n-seat clauses on the implementation's answer (truncation off): default = the top-n set of the removal-sequence
    order, no tie object; plus = plain winners strictly ahead in the count of grades at or above the shared median,
    the members of a reported tie level in it"""
    lists = mj_lists(c['cfg'], c['votes'])
    if lists is None:
        return None
    n, m = c['n'], len(lists)
    med = {cc: l[(len(l) - 1) // 2] for cc, l in lists.items()}
    if c.get('plus'):
        if v[0] != 0:
            return None
        res = v[1]
        plain = [r for r in res if not isinstance(r, list)]
        ties = [r for r in res if isinstance(r, list)]
        cnt = {cc: sum(1 for s in lists[cc] if s >= med[cc]) for cc in lists}
        if len(res) != min(n, m) or len(set(plain)) != len(plain):
            return 'majority judgment plus returns %s for %d seats and %d candidates' % (res, n, m)
        for cc in plain:
            for d in lists:
                if d not in plain and (med[d] > med[cc] or (med[d] == med[cc] and cnt[d] >= cnt[cc])):
                    return ('majority judgment plus (%d seats) elects %d (median %s, %d grades at or above) and leaves out %d (median %s, %d)'
                            % (n, cc, med[cc], cnt[cc], d, med[d], cnt[d]))
        for t in ties:
            for cc in t:
                for d in lists:
                    if d not in plain and (med[d] > med[cc] or (med[d] == med[cc] and (cnt[d] > cnt[cc] or (d in t and cnt[d] != cnt[cc])))):
                        return ('majority judgment plus (%d seats) reports the tie %s although %d (median %s, %d grades at or above) and %d (median %s, %d) differ'
                                % (n, t, cc, med[cc], cnt[cc], d, med[d], cnt[d]))
        return None
    want = mj_top(lists, n)
    if v[0] != 0 or any(isinstance(r, list) for r in v[1]):
        if want is not None and n < m:
            return ('majority judgment (default tie-break, %d seats) answers %s, the removal sequences separate the top %d: %s'
                    % (n, c.get('_exc') or v[1], n, sorted(want)))
        return None
    res = v[1]
    if len(res) != min(n, m) or len(set(res)) != len(res) or any(r not in lists for r in res):
        return 'majority judgment (default) returns %s for %d seats and %d candidates' % (res, n, m)
    seqs = {cc: mj_removal_seq(l) for cc, l in lists.items()}
    for cc in res:
        for d in lists:
            if d not in res and mj_seq_cmp(seqs[d], seqs[cc]) != -1:
                return ('majority judgment (default tie-break, %d seats) elects %d (removal sequence %s) and leaves out %d (%s), which is not '
                        'lexicographically below' % (n, cc, [str(x) for x in seqs[cc]], d, [str(x) for x in seqs[d]]))
    return None


def star_ref(c):
    """STAR as defined, independently (C12_star_seats / C12_star_single_exact): run-off members = the n + 1 highest score
    sums, a tie at that cut drops the whole level group; support(x, y) = weight of the ballots that score x above y (an
    unscored candidate counts with the configured unscored_value, or below every scored one); the contest = members that
    some ballot separates from another member; answer = Schulze (number of beat-path wins over the supports) among the
    contest, min(n, size of the contest) entries.  -> (contest, plain winners, tied level or None)"""
    n = c['n']
    sums = {}
    for b, w in c['votes']:
        for cc, s in b:
            sums[cc] = sums.get(cc, 0) + q(s) * w
    order = sorted(sums, key=lambda k: -sums[k])
    if len(order) <= n + 1:
        members = list(order)
    else:
        thr = sums[order[n]]
        members = [cc for cc in order if sums[cc] > thr] if sums[order[n + 1]] == thr else order[:n + 1]
    uv = -1 if c.get('unscored', 'none') == 'none' else int(c['unscored'])
    sup = {(x, y): sum(w for bal, w in c['votes'] if dict(bal).get(x, uv) > dict(bal).get(y, uv)) for x in members for y in members if x != y}
    if uv == -1:
        seen = {(x, y) for x in members for y in members if x != y
                and any(dict(bal).get(x, uv) > dict(bal).get(y, uv) for bal, w in c['votes'])}
    else:
        seen = {k for k, v in sup.items() if v > 0}
    contest = [x for x in members if any((x, y) in seen or (y, x) in seen for y in members if y != x)]
    p = {(x, y): (sup[x, y] if sup[x, y] > sup[y, x] else 0) for x in contest for y in contest if x != y}
    for i in contest:
        for j in contest:
            if j != i:
                for k in contest:
                    if k != i and k != j:
                        p[j, k] = max(p[j, k], min(p[j, i], p[i, k]))
    wins = {x: sum(1 for y in contest if y != x and p[x, y] > p[y, x]) for x in contest}
    ranked = sorted(contest, key=lambda x: -wins[x])
    if len(ranked) <= n:
        return contest, set(ranked), None
    thr = wins[ranked[n - 1]]
    if wins[ranked[n]] != thr:
        return contest, set(ranked[:n]), None
    return contest, {x for x in ranked if wins[x] > thr}, {x for x in ranked if wins[x] == thr}


def star_seats_spec(c, v):
    contest, plain, tied = star_ref(c)
    n, res = c['n'], v[1]
    got_plain = [r for r in res if not isinstance(r, list)]
    got_ties = [set(r) for r in res if isinstance(r, list)]
    if len(res) != min(n, len(contest)):
        return ('STAR returns %d entries %s for %d seats; %d run-off members are separated by a ballot (%s): expected %d entries'
                % (len(res), res, n, len(contest), sorted(contest), min(n, len(contest))))
    if set(got_plain) != plain or len(set(got_plain)) != len(got_plain) or any(t != tied for t in got_ties) or (tied is None) != (not got_ties):
        return ('STAR (%d seats) returns %s; Schulze over the run-off supports elects %s%s'
                % (n, res, sorted(plain), '' if tied is None else ' and leaves %s level' % sorted(tied)))
    return None


def alloc_ref(votes, n, quota_name):
    """independent allocated-score count: per seat the highest weighted score sum wins and one quota of its
    strongest supporters (highest score for the winner first, proportional cut at the boundary) is spent; once no
    remaining ballot scores anybody the candidates not yet seated are level at zero (repair
    C12-allocated-score-exhausted).  Returns None when a tie makes the outcome undefined."""
    every = sorted({cc for b, _ in votes for cc, _ in b})
    cur = [[dict(b), q(w)] for b, w in votes]
    total = sum(q(w) for _, w in votes)
    quota = Fraction(total, n) if quota_name == 'hare' else Fraction(int(Fraction(total, n + 1)) + 1)
    elected = []
    for _ in range(n):
        sums = {}
        for b, w in cur:
            for cc, sc in b.items():
                if cc not in elected:
                    sums[cc] = sums.get(cc, 0) + q(sc) * w
        if not sums:
            sums = {cc: 0 for cc in every if cc not in elected}
            if not sums:
                return elected
        top = max(sums.values())
        best = [cc for cc, x in sums.items() if x == top]
        if len(best) != 1:
            return None
        win = best[0]
        elected.append(win)
        rem = quota
        for level in sorted({q(b[win]) for b, w in cur if win in b and w > 0}, reverse=True):
            grp = [x for x in cur if win in x[0] and q(x[0][win]) == level and x[1] > 0]
            size = sum(x[1] for x in grp)
            if size > rem:
                for x in grp:
                    x[1] *= Fraction(size - rem, size)
                rem = 0
                break
            for x in grp:
                x[1] = Fraction(0)
            rem -= size
            if rem == 0:
                break
        cur = [[{cc: sc for cc, sc in b.items() if cc != win}, w] for b, w in cur if w > 0]
        cur = [x for x in cur if x[0]]
    return elected


def alloc_follow(votes, order, n, quota_name):
    """follow the election order the implementation reports: at every round the seated candidate must have a greatest
    weighted score sum among the candidates not yet seated (ties allowed - any of the leaders may be taken), then one
    quota of its strongest supporters is spent. -> None | (round, winner, its sum, best other, that sum, was_tied_before)"""
    cur = [[dict(b), q(w)] for b, w in votes]
    total = sum(q(w) for _, w in votes)
    quota = Fraction(total, n) if quota_name == 'hare' else Fraction(int(Fraction(total, n + 1)) + 1)
    elected, tied_before = [], set()
    for i, win in enumerate(order):
        sums = {}
        for b, w in cur:
            for cc, sc in b.items():
                if cc not in elected:
                    sums[cc] = sums.get(cc, 0) + q(sc) * w
        top = max(sums.values()) if sums else 0
        mine = sums.get(win, 0)
        if mine < top:
            other = max(sums, key=lambda k: sums[k])
            return (i + 1, win, mine, other, top, win in tied_before)
        tied_before |= {cc for cc, x in sums.items() if x == top and cc != win}
        elected.append(win)
        rem = quota
        for level in sorted({q(b[win]) for b, w in cur if win in b and w > 0}, reverse=True):
            grp = [x for x in cur if win in x[0] and q(x[0][win]) == level and x[1] > 0]
            size = sum(x[1] for x in grp)
            if size > rem:
                for x in grp:
                    x[1] *= Fraction(size - rem, size)
                break
            for x in grp:
                x[1] = Fraction(0)
            rem -= size
            if rem == 0:
                break
        cur = [[{cc: sc for cc, sc in b.items() if cc != win}, w] for b, w in cur if w > 0]
        cur = [x for x in cur if x[0]]
    return None


def spec(c, io, mo):
    v = common.parse_sx(io)
    u = c['unit']
    if u == 'pav':
        if c['n'] > len({x for b, _ in c['votes'] for x in b}):
            return None
        arg = pav_ref(c['votes'], c['n'])
        if v[0] != 0:
            if v[1] == common.E['NIE'] and len(arg) != 1:
                return None
            c['_class'] = 'pav-crash' if v[1] != common.E['NIE'] else 'pav-refusal'
            return 'PAV raises %s although the maximiser %s is unique' % (common.E_NAME.get(v[1], v[1]), arg)
        got = sorted(x for r in v[1] for x in (r if isinstance(r, list) else [r]))
        if len(arg) != 1 or got != sorted(arg[0]):
            c['_class'] = 'pav-optimal'
            return 'PAV committee %s, brute-force maximisers %s' % (got, arg)
        if not jr_ok(c['votes'], c['n'], got):
            c['_class'] = 'pav-jr'
            return 'PAV committee %s violates justified representation' % got
    if u == 'score' and v[0] == 0:
        ref = score_ref(c['cfg'], c['votes'])
        if ref is not None:
            res = v[1]
            flat = [x for r in res for x in (r if isinstance(r, list) else [r])]
            plain = [r for r in res if not isinstance(r, list)]
            for a, b in zip(plain, plain[1:]):
                if ref[a] < ref[b]:
                    c['_class'] = 'score-order'
                    return 'score voting lists %d (%s) ahead of %d (%s)' % (a, ref[a], b, ref[b])
            outside = [x for x in ref if x not in flat]
            if plain and outside and max(ref[x] for x in outside) > min(ref[x] for x in plain):
                c['_class'] = 'score-order'
                return 'a better aggregate is left out'
    if u == 'mj' and v[0] == 0 and c['n'] == 1 and len(v[1]) == 1 and not isinstance(v[1][0], list):
        lists = mj_lists(c['cfg'], c['votes'])
        if lists is not None:
            med = {cc: l[(len(l) - 1) // 2] for cc, l in lists.items()}
            if med[v[1][0]] != max(med.values()):
                c['_class'] = 'mj-median'
                return 'majority judgment elects %d (median %s), the highest median is %s' % (v[1][0], med[v[1][0]], max(med.values()))
            if c.get('plus'):
                level = [cc for cc in med if med[cc] == med[v[1][0]]]
                cnt = {cc: sum(1 for s in lists[cc] if s >= med[cc]) for cc in level}
                if any(cnt[cc] >= cnt[v[1][0]] for cc in level if cc != v[1][0]):
                    c['_class'] = 'mj-plus'
                    return 'majority judgment plus elects %d with %s scores at or above the median, counts %s' % (v[1][0], cnt[v[1][0]], cnt)
            else:
                want = mj_ref(lists)
                if want is not None and want != v[1][0]:
                    c['_class'] = 'mj-default-reentry'
                    return ('majority judgment (default tie-break) elects %d, successive median removal among the level candidates elects %d: '
                            'a candidate that fell behind stayed in the removal loop' % (v[1][0], want))
    if u == 'mj' and not c.get('plus') and c['n'] == 1 and (
            v[0] != 0 or (len(v[1]) == 1 and isinstance(v[1][0], list))):
        # no plain winner (an error or a tie) although successive median removal among the level candidates has one
        lists = mj_lists(c['cfg'], c['votes'])
        want = mj_ref(lists) if lists is not None else None
        if want is not None:
            c['_class'] = 'mj-default-reentry'
            return ('majority judgment (default tie-break) answers %s, successive median removal among the level candidates elects %d'
                    % (c.get('_exc') or v[1], want))
    if u == 'mj' and (v[0] == 0 or v[1] in (common.E['VSE'], common.E['STATS'])):
        bad = mj_seats_spec(c, v)
        if bad is not None:
            c['_class'] = 'mj-seats'
            return bad
    if u == 'star' and v[0] == 0 and c['n'] == 1:
        sums = {}
        for b, w in c['votes']:
            for cc, s in b:
                sums[cc] = sums.get(cc, 0) + q(s) * w
        order = sorted(sums, key=lambda k: -sums[k])
        if len(order) >= 3 and sums[order[1]] > sums[order[2]] or len(order) == 2:
            a, b2 = order[0], order[1]
            # an unscored finalist counts with the configured unscored_value, or below every scored one when there is none
            uv = -1 if c.get('unscored', 'none') == 'none' else int(c['unscored'])
            pa = sum(w for bal, w in c['votes'] if dict(bal).get(a, uv) > dict(bal).get(b2, uv))
            pb = sum(w for bal, w in c['votes'] if dict(bal).get(b2, uv) > dict(bal).get(a, uv))
            want = a if pa > pb else b2 if pb > pa else None
            res = v[1]
            if want is not None and res != [want]:
                c['_class'] = 'star'
                return 'STAR returns %s, run-off of %d and %d is won by %d (%s:%s)' % (res, a, b2, want, pa, pb)
    if u == 'star' and v[0] == 0:
        bad = star_seats_spec(c, v)
        if bad is not None:
            c['_class'] = 'star-seats'
            return bad
    if u in ('score', 'mj') and v[0] != 0 and v[1] not in (common.E['NIE'], common.E['VSE']):
        c['_class'] = 'trunc-empty' if trunc_empties(c) else ('mj-default-stats' if u == 'mj' and not c.get('plus') else u + '-crash')
        return '%s raises %s (trunc=%s min_count=%s unscored=%s)' % (u, c.get('_exc'), c['cfg']['trunc'], c['cfg']['min_count'], c['cfg']['unscored'])
    if u in ('star', 'alloc') and v[0] != 0 and v[1] not in (common.E['NIE'], common.E['VSE']):
        c['_class'] = u + '-crash'
        return '%s raises %s' % (u, c.get('_exc'))
    if u == 'alloc' and c.get('mode') == 'dist':
        if v[0] == 0:
            # C08 for the distributor: positive seat numbers that sum to the seats to fill (no more than that under maxima)
            seats = [k for _, k in v[1]]
            if any(k <= 0 for k in seats) or sum(seats) > c['n'] or (not c.get('max') and sum(seats) != c['n']):
                c['_class'] = 'alloc-shape'
                return 'allocated score distributes %s for %d seats' % (v[1], c['n'])
        return None
    if u == 'alloc' and v[0] == 0 and not any(isinstance(r, list) for r in v[1]):
        ref = alloc_ref(c['votes'], c['n'], c['quota'])
        if ref is not None and len(v[1]) == c['n'] and sorted(ref) != sorted(v[1]):
            c['_class'] = 'alloc-ref'
            return 'allocated score elects %s, the reference count elects %s' % (v[1], ref)
    if u == 'alloc' and v[0] == 0 and c.get('mode', 'sel') == 'sel' and not c.get('prev') and not c.get('max') and not any(isinstance(r, list) for r in v[1]):
        bad = alloc_follow(c['votes'], v[1], c['n'], c['quota'])
        if bad is not None:
            rnd, win, mine, other, top, tied = bad
            # known finding C12-allocated-score-tie-second: the tie branch seats every tied leader without re-running the maximum
            c['_class'] = 'alloc-tie-second' if tied else 'alloc-ref'
            return ('allocated score seats %s in round %d with weighted score sum %s while %s has %s%s'
                    % (win, rnd, mine, other, top, ' (it was level with an earlier winner when that one was seated)' if tied else ''))
    if u == 'alloc' and v[0] == 0:
        # C08_shape_allocated_score: min(n, candidates) entries; plain winners distinct candidates of the votes; a tie
        # stands last, is listed once per seat it contests, has more members than those seats and none of the winners
        cands = {cc for b, _ in c['votes'] for cc, _ in b}
        res = v[1]
        plain = [r for r in res if not isinstance(r, list)]
        ties = [tuple(sorted(r)) for r in res if isinstance(r, list)]
        bad = (len(res) != min(c['n'], len(cands)) or len(set(plain)) != len(plain) or any(x not in cands for x in plain)
               or len(set(ties)) > 1 or any(isinstance(r, list) for r in res[:len(plain)])
               or (ties and (len(ties[0]) <= len(ties) or set(ties[0]) & set(plain) or not set(ties[0]) <= cands)))
        if bad:
            c['_class'] = 'alloc-shape'
            return 'allocated score returns %s for %d seats and %d candidates' % (res, c['n'], len(cands))
    return None


def trunc_empties(c):
    """the truncation cut-off (an absolute count, or a fraction of ALL voters) removes every score of some candidate:
    twice the cut-off >= the number of scores the candidate holds (known finding C12-truncation-empties)"""
    tr = q(c['cfg']['trunc'])
    if tr <= 0:
        return False
    n_votes = sum(q(w) for _, w in c['votes'])
    counts = {}
    for b, w in c['votes']:
        for cc, _s in b:
            counts[cc] = counts.get(cc, 0) + q(w)
    for cc, n_scores in counts.items():
        n_eff = n_votes if c['cfg']['unscored'] != 'none' else n_scores
        cutoff = int((n_votes if n_votes else n_eff) * tr) if tr < 1 else int(tr)
        if cutoff > 0 and 2 * cutoff >= n_eff:
            return True
    return False


def known_class(c, io, mo):
    if canon(c, io) != canon(c, mo):
        return None          # not the recorded behaviour any more (allocated score: the model reproduces the crash / shape)
    if c.get('_class') == 'alloc-crash' and common.parse_sx(io)[1] not in (common.E['VALUE'], common.E['INDEX']):
        return None
    # wave 6: trunc-empty, mj-default-stats, alloc-crash, alloc-shape are repaired (status fixed): a crash or a
    # mis-shaped selection is a violation again
    return {'alloc-tie-second': 'C12-allocated-score-tie-second', 'star-crash': 'C12-star'}.get(c.get('_class'))


def nontrivial(c):
    return len(c['votes']) > 2


def ap_profile(rng):
    m = rng.randint(2, 6)
    out, seen = [], set()
    for _ in range(rng.randint(1, 7)):
        b = sorted(rng.sample(range(1, m + 1), rng.randint(1, m)))
        if repr(b) not in seen:
            seen.add(repr(b))
            out.append([b, rng.randint(1, 5)])
    return out


def sp_profile(rng):
    m = rng.randint(2, 5)
    out, seen = [], set()
    for _ in range(rng.randint(1, 7)):
        cs = sorted(rng.sample(range(1, m + 1), rng.randint(1, m)))
        b = [[cc, rng.randint(0, 5)] for cc in cs]
        if repr(b) not in seen:
            seen.add(repr(b))
            out.append([b, rng.randint(1, 4)])
    return out


def rand_cfg(rng):
    return dict(fn=rng.choice(['mean', 'sum', 'median_low']), unscored=rng.choice(['none', 'none', '0', 'min']),
                min_count=rng.choice([0, 0, 2]), trunc=rng.choice(['0', '0', '1', '1/10', '2']), bottom='0')


def gen(rng, count):
    for _ in range(count):
        u = rng.choice(['pav', 'pav', 'spav', 'score', 'score', 'mj', 'mj', 'star', 'alloc'])
        if u in ('pav', 'spav'):
            votes = ap_profile(rng)
            m = len({x for b, _ in votes for x in b})
            yield dict(unit=u, votes=votes, n=rng.randint(1, m), shared=(u == 'pav' and rng.random() < 0.3))
        else:
            votes = sp_profile(rng)
            m = len({cc for b, _ in votes for cc, _ in b})
            c = dict(unit=u, votes=votes, n=rng.randint(1, m), cfg=rand_cfg(rng))
            if u == 'mj':
                c['plus'] = rng.random() < 0.5
            if u == 'alloc':
                c['quota'] = rng.choice(['droop', 'hare'])
            if u == 'star' and rng.random() < 0.4:
                c['unscored'] = '0'
            yield c


def gen_alloc_exact(rng, count):
    """allocated score with supporter groups weighing exactly one quota"""
    for _ in range(count):
        g = rng.choice([3, 3, 4])
        m = rng.randint(3, 5)
        votes, seen = [], set()
        for gi in range(g):
            b = [[cc, rng.randint(0, 5)] for cc in range(1, m + 1)]
            if gi == 0:
                # the first supporter group gives its top grade to two candidates: its ballots are exhausted by the
                # first winner and must not count as the second winner's strongest supporters afterwards
                a, bb = rng.sample(range(m), 2)
                b = [[cc, rng.randint(0, 1)] for cc in range(1, m + 1)]
                b[a][1] = 5
                b[bb][1] = 5
            elif gi == 1 and rng.random() < 0.7:
                b = [[cc, rng.randint(0, 4)] for cc in range(1, m + 1)]
            if repr(b) in seen:
                continue
            seen.add(repr(b))
            votes.append([b, 3])
        if len(votes) != g:
            continue
        yield dict(unit='alloc', votes=votes, n=g if g == 3 else 3, cfg=rand_cfg(rng), quota=rng.choice(['hare', 'droop']))


def gen_alloc_model(rng, count):
    """allocated score, selector and distributor, against Model/AllocScore.v: random score profiles with partial
    ballots, both quotas, 1..m seats; a share with few grades and equal weights (ties between the leaders: both tie
    branches), a share with fractional weights, distributor calls with prev_gains / max_seats"""
    for _ in range(count):
        kind = rng.choice(['plain', 'plain', 'level', 'level', 'frac'])
        if kind == 'level':
            m = rng.randint(2, 5)
            votes, seen = [], set()
            for _ in range(rng.randint(1, 6)):
                cs = sorted(rng.sample(range(1, m + 1), rng.randint(1, m)))
                b = [[cc, rng.randint(0, 2)] for cc in cs]
                if repr(b) not in seen:
                    seen.add(repr(b))
                    votes.append([b, rng.choice([1, 1, 2])])
        else:
            votes = sp_profile(rng)
            if kind == 'frac':
                votes = [[b, rng.choice([str(w), '%d/%d' % (rng.randint(1, 7), rng.randint(2, 4))])] for b, w in votes]
        m = len({cc for b, _ in votes for cc, _ in b})
        c = dict(unit='alloc', votes=votes, n=rng.randint(1, m), quota=rng.choice(['droop', 'hare']), cfg=rand_cfg(rng))
        if rng.random() < 0.35:
            c['mode'] = 'dist'
            c['n'] = rng.randint(1, m + 2)
            cands = sorted({cc for b, _ in votes for cc, _ in b})
            if rng.random() < 0.6:
                c['max'] = [[cc, rng.randint(1, 3)] for cc in cands if rng.random() < 0.6]
            if rng.random() < 0.4:
                c['prev'] = [[cc, rng.randint(0, 2)] for cc in cands if rng.random() < 0.5]
        yield c


def gen_focus(rng, count):
    """boundary stream for the single-seat clauses: complete score ballots over 3..4 candidates with few grades, so that
    level medians (majority judgment tie-breaks, three-way ties included) and close STAR run-offs are frequent"""
    for _ in range(count):
        m = rng.randint(3, 4)
        votes, seen = [], set()
        for _ in range(rng.randint(3, 6)):
            b = [[cc, rng.randint(0, 2)] for cc in range(1, m + 1)]
            if repr(b) not in seen:
                seen.add(repr(b))
                votes.append([b, rng.randint(1, 2)])
        u = rng.choice(['mj', 'mj', 'star'])
        c = dict(unit=u, votes=votes, n=1, cfg=dict(fn='median_low', unscored='none', min_count=0, trunc='0', bottom='0'))
        if u == 'mj':
            c['plus'] = rng.random() < 0.3
        if u == 'star' and rng.random() < 0.5:
            # partial ballots: a finalist left unscored by some voters meets one scored at / below the configured unscored_value
            votes, seen = [], set()
            for _ in range(rng.randint(3, 6)):
                cs = sorted(rng.sample(range(1, m + 1), rng.randint(1, m)))
                b = [[cc, rng.randint(0, 3)] for cc in cs]
                if repr(b) not in seen:
                    seen.add(repr(b))
                    votes.append([b, rng.randint(1, 3)])
            c['votes'] = votes
            if rng.random() < 0.7:
                c['unscored'] = '0'
        yield c


def gen_mj_seats(rng, count):
    """boundary stream for the n-seat majority-judgment clauses: (a) few grades over 3..5 candidates, complete or partial
    ballots, so that the cut between elected and not elected often falls inside a group of equal medians, for every seat
    count; (b) candidates whose grade columns are small mutations (at the far ends) of one common column, so that the
    removal sequences agree on a long prefix: many removal rounds, multi-copy steps, several seats decided by the same
    loop, exact copies (unbreakable ties) included"""
    for _ in range(count):
        kind = rng.choice(['level', 'level', 'columns', 'columns', 'columns', 'uneven', 'uneven', 'uneven'])
        cfg = dict(fn='median_low', unscored='none', min_count=0, trunc='0', bottom='0')
        if kind == 'uneven':
            # partial ballots with sizeable counts: the candidates level on the median were graded by DIFFERENT numbers of
            # voters.  Column of a candidate: a grades below, k copies of the common median grade, c grades above; with lower
            # medians the median leaves the common grade upwards once at most c - a - 1 copies are left (downwards: a - c),
            # i.e. after r = k - |c - a| (+1) removals.  r is drawn per candidate, so the round at which a median moves differs
            # from candidate to candidate while the loop removes several copies per round.
            m = rng.randint(2, 4)
            g = rng.choice([3, 4, 5])
            mid = rng.randint(1, g - 1)
            rows = {}
            bigs = rng.sample(range(1, m + 1), rng.randint(1, max(1, m - 1)))      # graded by many more voters than the others
            for cc in range(1, m + 1):
                a = rng.randint(8, 30) if cc in bigs else rng.randint(0, 5)
                diff = rng.randint(0, 6)
                r = rng.randint(1, 6)
                up = rng.random() < 0.7
                lo_n, hi_n = (a, a + diff + 1) if up else (a + diff, a)
                col = {rng.randint(0, mid - 1): lo_n, mid: diff + r, rng.randint(mid + 1, g): hi_n}
                for grade, cnt in col.items():
                    if cnt:
                        rows[((cc, grade),)] = cnt
            if rng.random() < 0.2:      # a few ballots grading two candidates at once
                cs = sorted(rng.sample(range(1, m + 1), 2))
                b = tuple((cc, mid) for cc in cs)
                rows[b] = rows.get(b, 0) + rng.randint(1, 4)
        elif kind == 'level':
            m = rng.randint(3, 5)
            g = rng.choice([1, 2, 2, 3])
            full = rng.random() < 0.6
            rows = {}
            for _ in range(rng.randint(2, 7)):
                cs = list(range(1, m + 1)) if full else sorted(rng.sample(range(1, m + 1), rng.randint(1, m)))
                b = tuple((cc, rng.randint(0, g)) for cc in cs)
                rows[b] = rng.randint(1, 3)
            if not full:
                cfg['unscored'] = rng.choice(['none', '0', 'min'])
        else:
            m = rng.randint(3, 5)
            nv = rng.randint(4, 9)
            g = rng.choice([2, 3, 4])
            base = sorted(rng.randint(0, g) for _ in range(nv))
            if rng.random() < 0.5:
                mid = base[(nv - 1) // 2]          # a heavy median grade: several copies go in one step
                base = sorted(base[:2] + [mid] * (nv - 4) + base[-2:])
            cols = []
            for _cc in range(m):
                col = list(base)
                for _ in range(rng.choice([0, 1, 1, 2])):
                    i = rng.choice([0, 0, 1, nv - 2, nv - 1, nv - 1])
                    col[i] = min(g, max(0, col[i] + rng.choice([-1, 1])))
                rng.shuffle(col)
                cols.append(col)
            rows = {}
            for i in range(nv):
                b = tuple((cc + 1, cols[cc][i]) for cc in range(m))
                rows[b] = rows.get(b, 0) + 1
        votes = [[[list(x) for x in b], w] for b, w in rows.items()]
        mm = len({cc for b, _ in votes for cc, _ in b})
        n = 1 if kind == 'uneven' and rng.random() < 0.6 else rng.randint(1, mm)
        yield dict(unit='mj', votes=votes, n=n, cfg=cfg, plus=rng.random() < (0.1 if kind == 'uneven' else 0.25))


def gen_star_seats(rng, count):
    """boundary stream for STAR with any number of seats: few grades and few ballots over 3..5 candidates (partial ballots
    included), so that tied finalist cuts, finalists no ballot separates (the short class), level run-offs and
    three- / four-member Schulze run-offs are all frequent"""
    for _ in range(count):
        m = rng.randint(3, 5)
        g = rng.choice([1, 2, 2, 3, 5])
        full = rng.random() < 0.5
        rows = {}
        for _ in range(rng.randint(1, 6)):
            cs = list(range(1, m + 1)) if full else sorted(rng.sample(range(1, m + 1), rng.randint(1, m)))
            b = tuple((cc, rng.randint(0, g)) for cc in cs)
            rows[b] = rng.randint(1, 3)
        votes = [[[list(x) for x in b], w] for b, w in rows.items()]
        mm = len({cc for b, _ in votes for cc, _ in b})
        c = dict(unit='star', votes=votes, n=rng.randint(1, max(1, mm - 1)),
                 cfg=dict(fn='sum', unscored='none', min_count=0, trunc='0', bottom='0'))
        if not full and rng.random() < 0.25:
            c['unscored'] = '0'
        yield c


def gen_score_trunc(rng, count):
    """boundary stream for the corrections: enough voters (ballot counts up to 9) that fractional cut-offs are effective,
    truncation in {1/10, 1/5, 1/4, 1/3, 1, 2, 3}, min_count around the number of scores a candidate holds, every
    unscored_value; through ScoreVoting (mean / sum / median_low) and MajorityJudgment"""
    for _ in range(count):
        m = rng.randint(2, 4)
        rows = {}
        for _ in range(rng.randint(2, 6)):
            cs = sorted(rng.sample(range(1, m + 1), rng.randint(1, m)))
            b = tuple((cc, rng.randint(0, 5)) for cc in cs)
            rows[b] = rng.randint(1, 9)
        votes = [[[list(x) for x in b], w] for b, w in rows.items()]
        mm = len({cc for b, _ in votes for cc, _ in b})
        cfg = dict(fn=rng.choice(['mean', 'sum', 'median_low']), unscored=rng.choice(['none', 'none', '0', 'min']),
                   min_count=rng.choice([0, 0, 2, 5, 10]), trunc=rng.choice(['1/10', '1/5', '1/4', '1/3', '1', '2', '3']), bottom='0')
        u = rng.choice(['score', 'score', 'mj'])
        c = dict(unit=u, votes=votes, n=rng.randint(1, mm), cfg=cfg)
        if u == 'mj':
            c['plus'] = rng.random() < 0.4
        yield c


def gen_counted(rng, count):
    """boundary stream for the counted aggregates (fixes/C12-score-counted, Model/Cardinal.v aggregate_one_w / pos_keys): ballot
    counts around 10^12 and 10^25 with differences of one vote (sum, mean, low median, the minimum for unscored_value = 'min',
    a truncation fraction cutting whole numbers of votes), where a list with one element per voter cannot be built; score voting
    and majority judgment (plus rule, or medians that decide); the default tie-break on counts of a few hundred (its model
    fuel is a unary number).  Grades include a negative and a fractional one."""
    for _ in range(count):
        m = rng.randint(2, 4)
        base = rng.choice([10 ** 12, 10 ** 12, 10 ** 25 + 7, 3 * 10 ** 9])
        u = rng.choice(['score', 'score', 'mj', 'mjd'])
        if u == 'mjd':
            base = rng.choice([20, 50, 100])
        rows = {}
        grades = [0, 1, 2, 3, 5, -1, '1/2']
        for _ in range(rng.randint(2, 5)):
            cs = sorted(rng.sample(range(1, m + 1), rng.randint(1, m)))
            b = tuple((cc, rng.choice(grades[:5] if rng.random() < 0.8 else grades)) for cc in cs)
            rows[b] = base * rng.randint(1, 3) + rng.choice([0, 0, 1, -1, 2])
        votes = [[[list(x) for x in b], w] for b, w in rows.items()]
        mm = len({cc for b, _ in votes for cc, _ in b})
        cfg = dict(fn=rng.choice(['mean', 'sum', 'median_low']), unscored=rng.choice(['none', 'none', '0', 'min']),
                   min_count=rng.choice([0, 0, 2]), trunc=rng.choice(['0', '0', '1/10', '1/4', '1', '1/2']), bottom='0')
        if u == 'score':
            yield dict(unit='score', votes=votes, n=rng.randint(1, mm), cfg=cfg)
        else:
            yield dict(unit='mj', votes=votes, n=rng.randint(1, mm), cfg=dict(cfg, fn='median_low'), plus=(u == 'mj'))


def corpus():
    import os, json, glob
    for p in sorted(glob.glob(os.path.join(common.VERIF, 'corpus', ID, '*.json'))):
        yield json.load(open(p))


def explore(ctx, widen=1):
    kw = dict(canon=canon, nontrivial=nontrivial, spec=spec, known_class=known_class, limit=10)
    ctx.differential('corpus', corpus(), model_line, impl, **kw)
    ctx.differential('random', gen(ctx.rng, ctx.n(3000, 40000) * widen), model_line, impl, **kw)
    ctx.differential('single-seat-level', gen_focus(ctx.rng, ctx.n(1500, 15000) * widen), model_line, impl, **kw)
    ctx.differential('mj-seats-level', gen_mj_seats(ctx.rng, ctx.n(3000, 30000) * widen), model_line, impl, **kw)
    ctx.differential('star-seats', gen_star_seats(ctx.rng, ctx.n(2500, 25000) * widen), model_line, impl, **kw)
    ctx.differential('score-trunc', gen_score_trunc(ctx.rng, ctx.n(1500, 15000) * widen), model_line, impl, **kw)
    if probes()['counted']:
        ctx.differential('score-counted', gen_counted(ctx.rng, ctx.n(1200, 12000) * widen), model_line, impl, **kw)
    ctx.differential('alloc-exact-quota', gen_alloc_exact(ctx.rng, ctx.n(3000, 20000) * widen), model_line, impl, **kw)
    ctx.differential('alloc-model', gen_alloc_model(ctx.rng, ctx.n(4000, 40000) * widen), model_line, impl, **kw)


def replay(ctx, case, stream=None):
    ctx.differential('replay', [case], model_line, impl, canon=canon, nontrivial=nontrivial, spec=spec, known_class=known_class)
